"""Self-test cases: (property | [properties], label, file, old, new, expect,
rule substring or None).  file == "<patch>": `old` is a patch file applied with
patch -p1 (the confirmed seeded changes under /verif/seeded)."""

import glob
import json
import os
import subprocess

HERE = os.path.dirname(os.path.dirname(os.path.abspath(__file__)))
ALL = ["C02", "C03", "C04", "C05", "C06", "C07", "C08", "C09", "C10", "C11",
       "C12", "C13", "C14", "C15", "C18", "C19", "C20"]

CASES = []

# ---- confirmed seeded changes (independent sub-agents) --------------------------
for meta in sorted(glob.glob(os.path.join(HERE, "seeded", "*", "meta.json"))):
    m = json.load(open(meta, encoding="utf-8"))
    d = os.path.dirname(meta)
    if m.get("obsolete"):
        continue  # a later repair of /repo removed what the seed relied on
    caught = m["breaks_property"] in m.get("caught_by", [])
    CASES.append((m["breaks_property"], "seeded/" + os.path.basename(d),
                  "<patch>", os.path.join(d, "patch.diff"), None,
                  "violation" if caught else "documented-miss", None))


def V(pid, label, path, old, new, rule=None):
    CASES.append((pid, label, path, old, new, "violation", rule))


def B(pids, label, path, old, new):
    CASES.append((pids, "benign/" + label, path, old, new, "silent", None))


T = "vyxal/transpile.py"
E = "vyxal/elements.py"
H = "vyxal/helpers.py"
P = "vyxal/parse.py"
LX = "vyxal/lexer.py"
LL = "vyxal/LazyList.py"
M = "vyxal/main.py"
EN = "vyxal/encoding.py"

# ---- C02 ----------------------------------------------------------------------------
V("C02", "template keyword after positional",
  E, "vy_print(top, end=' ', ctx=ctx); \"\n        \"stack.append(top)\"",
  "vy_print(top, end=' ', ctx); \"\n        \"stack.append(top)\"",
  "C02.leaf-compiles")
V("C02", "lone trailing backslash unescaped", T,
  '                elif after_char == "":\n', '                elif False:\n',
  "C02.string-literal-wellformed")
V("C02", "isdecimal -> isnumeric", T, "if parameter.isdecimal():",
  "if parameter.isnumeric():", "C02.")
V("C02", "while template loses loop indentation", T,
  'indent_str("    ctx.context_values.append(condition)", indent)',
  'indent_str("ctx.context_values.append(condition)", indent)',
  "C02.skeleton-compiles")
V("C02", "element template with a bare return", E,
  '"_": ("pop(stack, 1, ctx)", 1),',
  '"_": ("pop(stack, 1, ctx)\\nif not stack: return", 1),',
  "C02.leaf-")
# ---- C03 ----------------------------------------------------------------------------
V("C03", "break test loses kind guard", P,
  "            head.name == lexer.TokenType.GENERAL\n"
  "            and head.value == BREAK_CHARACTER",
  "            head.value == BREAK_CHARACTER", "C03.syntax-test-kind-guarded")
V("C03", "branch separator loses kind guard", P,
  'elif token.name == lexer.TokenType.GENERAL and token.value == "|":',
  'elif token.value == "|":', "C03.syntax-test-kind-guarded")
V("C03", "lambda arity from any kind", P,
  "                    if branches[0][0].name != lexer.TokenType.NUMBER:\n"
  "                        raise ValueError(\"Arity must be a number literal\")\n",
  "", "C03.metadata-kind-guarded")
V("C03", "string scan stops at semicolon", LX,
  "            while source and source[0] != head:\n",
  "            while source and source[0] != head and source[0] != \";\":\n",
  "C03.lexer-payload-opaque")
V("C03", "lexer re-queues payload", LX,
  "                    contextual_token_value += character\n",
  "                    contextual_token_value += character\n"
  "                    if character == \"|\":\n"
  "                        source.appendleft(character)\n"
  "                        break\n", "C03.lexer-payload-opaque")
# ---- C04 ----------------------------------------------------------------------------
V("C04", "token only when closed", LX,
  "            tokens.append(Token(token_type, contextual_token_value))\n"
  "            if source:\n                source.popleft()",
  "            if source:\n"
  "                tokens.append(Token(token_type, contextual_token_value))\n"
  "                source.popleft()", "C04.closer-optional")
V("C04", "collector rejects unclosed", P, "    return branches\n",
  "    if bracket_stack:\n        raise SyntaxError(\"unclosed\")\n"
  "    return branches\n", "C04.collector-never-rejects")
V("C04", "escape at end of input pops blindly", LX,
  "        if head == \"\\\\\":  # Need to escape the next character\n"
  "            if source:\n",
  "        if head == \"\\\\\":  # Need to escape the next character\n"
  "            if True:\n", "C04.lexer-end-of-input-tolerant")
# ---- C05 ----------------------------------------------------------------------------
V("C05", "decimal through nsimplify", T,
  'sympy.sympify("{parts}", rational=True)',
  'sympy.nsimplify("{parts}", rational=True)', "C05.exact-constructor")
V("C05", "two points in one number", LX, 'x.count(".") < 2', 'x.count(".") < 3',
  "C05.number-splitting")
# ---- C06 ----------------------------------------------------------------------------
V("C06", "escaped backquote kept escaped", T,
  '                if after_char == "`":\n                    temp += "`"\n',
  '                if after_char == "`":\n                    temp += "\\\\`"\n',
  "C06.roundtrip")
V("C06", "double quote not escaped", T,
  "            elif char == '\"':\n                temp += '\\\\\"'\n",
  "            elif char == '\"':\n                temp += '\"'\n", "C0")
B("C08", ">= spelled as not-less-than (composition of vectorising "
  "functions)", E,
  """    ts = vy_type(lhs, rhs)
    return {
        (NUMBER_TYPE, NUMBER_TYPE): lambda: int(bool(lhs >= rhs)),
        (NUMBER_TYPE, str): lambda: int(str(lhs) >= rhs),
        (str, NUMBER_TYPE): lambda: int(lhs >= str(rhs)),
        (str, str): lambda: int(lhs >= rhs),
    }.get(ts, lambda: vectorise(greater_than_or_equal, lhs, rhs, ctx=ctx))()
""",
  """    return vectorised_not(less_than(lhs, rhs, ctx), ctx)
""")
B("C08", "vy_zip pads through a sentinel", E,
  """            while True:
                exhausted = 0
                try:
                    left_item = next(left)
                except StopIteration:
                    left_item = 0
                    exhausted += 1

                try:
                    right_item = next(right)
                except StopIteration:
                    right_item = 0
                    exhausted += 1
                if exhausted == 2:
                    break
                else:
                    yield [left_item, right_item]
""",
  """            end = object()
            while True:
                left_item = next(left, end)
                right_item = next(right, end)
                if left_item is end and right_item is end:
                    break
                yield [
                    0 if left_item is end else left_item,
                    0 if right_item is end else right_item,
                ]
""")
V("C08", "vy_zip pads by truth value (falsy items become 0)", E,
  """            while True:
                exhausted = 0
                try:
                    left_item = next(left)
                except StopIteration:
                    left_item = 0
                    exhausted += 1

                try:
                    right_item = next(right)
                except StopIteration:
                    right_item = 0
                    exhausted += 1
                if exhausted == 2:
                    break
                else:
                    yield [left_item, right_item]
""",
  """            while True:
                left_item = next(left, None)
                right_item = next(right, None)
                if left_item is None and right_item is None:
                    break
                yield [left_item or 0, right_item or 0]
""", "C08.zip-zero-fill")
V("C08", "primitive_type tests exact types only (sympy Half, Zero, ... "
  "are subclasses)", H,
  "if type(item) in [int, sympy.Rational, str] or is_sympy(item):",
  "if type(item) in [int, sympy.Rational, sympy.Integer, str]:",
  "C08.scalar-recognised")
V("C08", "padding length recognised by python class only", E,
  "    if vy_type(rhs) == NUMBER_TYPE:\n        return lhs.ljust(int(rhs), other)",
  "    if isinstance(rhs, int):\n        return lhs.ljust(int(rhs), other)",
  "C08.number-arms-recognise-every-class")
V("C08", "vy_type forgets sympy numbers", E,
  "in (int, complex, float) or is_sympy(item):",
  "in (int, complex, float, sympy.Rational, sympy.Integer):",
  "C08.number-recognised")
# ---- C07 ----------------------------------------------------------------------------
V("C07", "float division", E, "else vyxalify(sympy.sympify(lhs) / rhs),",
  "else vyxalify(sympy.nsimplify(lhs / rhs)),", "C07.float-free-arm")
V("C07", "floor division unguarded", E,
  "(NUMBER_TYPE, NUMBER_TYPE): lambda: 0\n        if rhs == 0\n        else vyxalify(sympy.floor(sympy.sympify(lhs) / rhs)),",
  "(NUMBER_TYPE, NUMBER_TYPE): lambda: vyxalify(sympy.floor(sympy.sympify(lhs) / rhs)),",
  "C07.zero-guard")
V("C07", "floor division through sympy's // (off by one on negative "
  "integral quotients)", E,
  "else vyxalify(sympy.floor(sympy.sympify(lhs) / rhs)),",
  "else lhs // rhs,", "C07.float-free-arm")
V("C07", "modulo through builtin divmod", E,
  "(NUMBER_TYPE, NUMBER_TYPE): lambda: lhs % rhs,",
  "(NUMBER_TYPE, NUMBER_TYPE): lambda: divmod(lhs, rhs)[1],",
  "C07.float-free-arm")
B("C07", "integer_divide delegates to vy_divmod's floor", E,
  "else vyxalify(sympy.floor(sympy.sympify(lhs) / rhs)),",
  "else vy_divmod(lhs, rhs, ctx)[0],")
V("C07", "vyxalify guesses closed forms", H,
  "    elif is_sympy(value):\n        return sympy.nsimplify(value, rational=True)",
  "    elif is_sympy(value):\n        return sympy.nsimplify(value)",
  "C07.vyxalify-exact")
# ---- C08 ----------------------------------------------------------------------------
V("C08", "swapped fallback arguments", E,
  "lambda: vectorise(subtract, lhs, rhs, ctx=ctx)",
  "lambda: vectorise(subtract, rhs, lhs, ctx=ctx)", "C08.fallback-conformant")
V("C08", "truncating zip in vectorise", E,
  "                for x, y in vy_zip(lhs, rhs, ctx=ctx)\n            ),\n"
  "        }\n\n        explicit_dict",
  "                for x, y in zip(lhs, rhs)\n            ),\n"
  "        }\n\n        explicit_dict", "C08.helper-row")
V("C08", "new list arm hijacks add", E,
  "        (str, str): lambda: lhs + rhs,\n"
  "    }.get(ts, lambda: vectorise(add, lhs, rhs, ctx=ctx))()",
  "        (str, str): lambda: lhs + rhs,\n"
  "        (list, NUMBER_TYPE): lambda: lhs + [rhs],\n"
  "    }.get(ts, lambda: vectorise(add, lhs, rhs, ctx=ctx))()",
  "C08.no-new-list-arm")
V("C08", "wrong function in fallback", E,
  "lambda: vectorise(less_than, lhs, rhs, ctx=ctx)",
  "lambda: vectorise(greater_than, lhs, rhs, ctx=ctx)",
  "C08.fallback-conformant")
# ---- C09 ----------------------------------------------------------------------------
V("C09", "swap pops three", E,
  '"rhs, lhs = pop(stack, 2, ctx); stack.append(rhs); "\n'
  '        "stack.append(lhs)",\n        2,',
  '"rhs, lhs, x = pop(stack, 3, ctx); stack.append(rhs); "\n'
  '        "stack.append(lhs); stack.append(x)",\n        2,',
  "C09.pops-within-arity")
V("C09", "pop helper pops twice", H,
  "            popped_items.append(iterable_object.pop())\n",
  "            popped_items.append(iterable_object.pop())\n"
  "            if ctx.reverse_flag and iterable_object:\n"
  "                iterable_object.pop()\n", "C09.pop-transition")
V("C09", "element deletes from the stack", E,
  '"_": ("pop(stack, 1, ctx)", 1),', '"_": ("del stack[-1]", 1),',
  "C09.stack-use")
# ---- C10 ----------------------------------------------------------------------------
V("C10", "in-place reverse", E, "def reverse(lhs, ctx):",
  "def reverse(lhs, ctx):\n    if type(lhs) is list:\n        lhs.reverse()\n"
  "        return lhs", "C10.no-parameter-mutation")
V("C10", "deep_copy returns its argument", H,
  "    return LazyList(itertools.tee(value)[-1])", "    return value",
  "C10.deep-copy-fresh")
V("C10", "dup without copy", E,
  '"top = pop(stack, 1, ctx); stack.append(deep_copy(top)); "\n'
  '        "stack.append(top)",\n        1,\n    ),\n    "<"',
  '"top = pop(stack, 1, ctx); stack.append(top); "\n'
  '        "stack.append(top)",\n        1,\n    ),\n    "<"',
  "C10.copy-on-duplicate")
V("C10", "mutation through an alias and a helper", E,
  "def head_remove(lhs, ctx):",
  "def _drop_first(seq):\n    seq.pop(0)\n    return seq\n\n\n"
  "def head_remove(lhs, ctx):\n    if type(lhs) is list and lhs:\n"
  "        alias = lhs\n        return _drop_first(alias)",
  "C10.no-parameter-mutation")
# ---- C11 ----------------------------------------------------------------------------
V("C11", "cursor of the wrong scope advances", H,
  "            ret = ctx.inputs[-1][0][ctx.inputs[-1][1] % len(ctx.inputs[-1][0])]\n"
  "            ctx.inputs[-1][1] += 1",
  "            ret = ctx.inputs[-1][0][ctx.inputs[-1][1] % len(ctx.inputs[-1][0])]\n"
  "            ctx.inputs[0][1] += 1", "C11.")
V("C11", "scope not reversed", T,
  '"ctx.inputs.append([list(deep_copy(stack))[::-1], 0]);"',
  '"ctx.inputs.append([list(deep_copy(stack)), 0]);"', "C11.scope-push")
V("C11", "input element forgets to reset the flag", E,
  '"ctx.use_top_input = True; lhs = get_input(ctx); "\n'
  '        "ctx.use_top_input = False; stack.append(lhs)",',
  '"ctx.use_top_input = True; lhs = get_input(ctx); "\n'
  '        "stack.append(lhs)",', "C11.explicit-read-transition")
# ---- C12 ----------------------------------------------------------------------------
V("C12", "for template forgets to pop", T,
  '            + indent_str("    ctx.context_values.pop()", indent)\n        )\n'
  "    if isinstance(struct, vyxal.structure.WhileLoop):",
  "        )\n    if isinstance(struct, vyxal.structure.WhileLoop):",
  "C12.balance")
V("C12", "break without pop", T,
  '            return indent_str("ctx.context_values.pop()", indent) + indent_str(\n'
  '                "break", indent\n            )',
  '            return indent_str("break", indent)', "C12.balance")
V("C12", "lazy list output leaks a stack", LL,
  "        ctx.stacks.pop()\n", "", "C12.python-balance")
V("C12", "lambda pops inputs twice", T,
  '        + indent_str("ctx.inputs.pop()", indent + 1)\n'
  '        + indent_str("ctx.stacks.pop()", indent + 1)\n'
  '        + indent_str("ctx.function_stack.pop()", indent + 1)',
  '        + indent_str("ctx.inputs.pop()", indent + 1)\n'
  '        + indent_str("ctx.inputs.pop()", indent + 1)\n'
  '        + indent_str("ctx.function_stack.pop()", indent + 1)',
  "C12.balance")
# ---- C13 ----------------------------------------------------------------------------
V("C13", "negative index duplicates", LL,
  "                self.listify()  # pull the rest of the source into the cache",
  "                self.generated += list(self)", "C13.cache-write-discipline")
V("C13", "observer pulls from the source directly", LL,
  "    def __bool__(self):\n        try:\n            next(self)",
  "    def __bool__(self):\n        try:\n            next(self.raw_object)",
  "C13.")
# ---- C14 ----------------------------------------------------------------------------
V("C14", "map builds a list", E,
  "    @lazylist\n    def gen():\n        for element in itr:\n"
  "            yield safe_apply(function, element, ctx=ctx)\n\n    return gen()",
  "    return LazyList([safe_apply(function, element, ctx=ctx) "
  "for element in itr])", "C14.no-eager-consumption")
V("C14", "has_ind measures the whole list", LL,
  "        if ind < len(self.generated):\n            return 0 <= ind",
  "        if ind < len(self):\n            return 0 <= ind",
  "C14.lazylist-access-path")
V("C14", "scanl reverses twice", H,
  "    working = None\n    vector = iterable(vector, ctx=ctx)\n",
  "    working = None\n    vector = iterable(vector, ctx=ctx)\n"
  "    vector = vector[::-1][::-1]\n", "C14.no-eager-consumption")
# ---- C15 ----------------------------------------------------------------------------
V("C15", "number alphabet keeps its delimiter", EN,
  'codepage_number_compress = codepage.replace("»", "")',
  'codepage_number_compress = codepage.replace("«", "")',
  "C15.alphabet-excludes-delimiter")
V("C15", "reader uses the other alphabet", H,
  "return from_base_alphabet(num, vyxal.encoding.codepage_number_compress)",
  "return from_base_alphabet(num, vyxal.encoding.codepage_string_compress)",
  "C15.number-codec-tables-agree")
V("C15", "wrong pad digit", "vyxal/dictionary.py", 'ret = "λ" + ret',
  'ret = "ƛ" + ret', "C15.dictionary-pad-is-zero-digit")
# ---- C18 ----------------------------------------------------------------------------
V("C18", "parameter sanitiser widened", T,
  "re.sub('[^A-Za-z0-9_]', '', parameter)", "re.sub('[^A-z0-9_]', '', parameter)",
  "C18.flow-sanitised")
V("C18", "function name unsanitised", T,
  '        var = re.sub("[^A-Za-z0-9_]", "", struct.name)\n\n'
  "        return indent_str(\n            f\"stack += VAR_",
  "        var = struct.name\n\n"
  "        return indent_str(\n            f\"stack += VAR_",
  "C18.flow-sanitised")
# a base-27 compressed string decodes to [a-z ]* only, so quoting it by hand
# instead of with !r is still safe: a benign twin, not a violation
B(["C18", "C02"], "compressed string quoted by hand", T,
  'f"stack.append({uncompress(token)!r})"',
  "f\"stack.append('{uncompress(token)}')\"")
# one payload character cannot both close the quote and stay parsable, so
# this is a compile problem (C02), not an injection (C18)
V("C02", "character literal quoted by hand", T,
  'f"stack.append({token.value!r})"', "f\"stack.append('{token.value}')\"",
  "C02.token-compiles")
V("C18", "variable scanning accepts digits and dots", LX,
  'while source and source[0] in string.ascii_letters + "_":',
  'while source and source[0] in string.ascii_letters + "_.()":', "C18.")
# ---- C19 ----------------------------------------------------------------------------
V("C19", "online eval", H,
  "    if ctx.online:\n        try:\n            t = ast.literal_eval(item)",
  "    if False:\n        try:\n            t = ast.literal_eval(item)",
  "C19.usertext-eval-guarded")
V("C19", "call element execs online", E,
  "str: lambda: exec(top) or [] if not ctx.online else [],",
  "str: lambda: exec(top) or [],", "C19.usertext-eval-guarded")
V("C19", "print always", E,
  "        if ctx.online:\n            ctx.online_output[1] += vy_str(lhs, ctx=ctx) + end\n"
  "        else:\n            print(lhs, end=end)",
  "        if ctx.online:\n            ctx.online_output[1] += vy_str(lhs, ctx=ctx) + end\n"
  "        print(lhs, end=end)", "C19.no-host-output-online")
V("C19", "output stage outside the handler", M,
  "    try:\n        exec(code, locals() | globals())\n",
  "    try:\n        exec(code, locals() | globals())\n    except Exception:\n"
  "        raise\n    try:\n        pass\n", None)
# ---- C20 ----------------------------------------------------------------------------
V("C20", "duplicate code page character", EN, 'codepage += "ǒǓǔ⁽‡≬⁺↵⅛¼¾Π„‟"',
  'codepage += "ǒǓǔ⁽‡≬⁺↵⅛¼¾Π„λ"', "C20.codepage-distinct")
V("C20", "element key outside the code page", E,
  '    "∆²": process_element(is_square, 1),',
  '    "∆²": process_element(is_square, 1),\n'
  '    "∆€2": process_element(is_square, 1),', "C20.")
V("C20", "digraph ending in the branch separator", E,
  '    "∆²": process_element(is_square, 1),',
  '    "∆²": process_element(is_square, 1),\n'
  '    "∆|": process_element(is_square, 1),', "C20.lexes-as-one-token")
V("C20", "arity differs from documentation", E,
  '"½": process_element(halve, 1),', '"½": process_element(halve, 2),', "C2")


# ---- benign twins ----------------------------------------------------------------------
def _black(width):
    def f(src):
        r = subprocess.run(["/venv/bin/python", "-m", "black", "-q", "-l",
                            str(width), "-"], input=src, capture_output=True,
                           text=True)
        return r.stdout if r.returncode == 0 and r.stdout else src
    return f


B(ALL, "transpile.py reformatted at 100 columns", T, _black(100), None)
B(ALL, "parse.py reformatted at 60 columns", P, _black(60), None)
B(ALL, "helpers.py reformatted at 100 columns", H, _black(100), None)
B(ALL, "LazyList.py reformatted at 100 columns", LL, _black(100), None)
B(["C02", "C06", "C18"], "escape accumulator renamed", T,
  lambda s: s.replace("temp = \"\"\n        iterator = iter(string)",
                      "escaped = \"\"\n        iterator = iter(string)")
  .replace("temp += \"`\"", "escaped += \"`\"")
  .replace("temp += \"\\\\\\\\\"", "escaped += \"\\\\\\\\\"")
  .replace("temp += \"\\\\\" + after_char", "escaped += \"\\\\\" + after_char")
  .replace("temp += '\\\\\"'", "escaped += '\\\\\"'")
  .replace("temp += \"\\\\n\"", "escaped += \"\\\\n\"")
  .replace("temp += \"\\\\r\"", "escaped += \"\\\\r\"")
  .replace("                temp += char\n", "                escaped += char\n")
  .replace("f'stack.append(\"{temp}\")'", "f'stack.append(\"{escaped}\")'"),
  None)
B(["C11", "C19"], "get_input local renamed", H,
  lambda s: s.replace("            ret = ctx.inputs[0][0][", "            val = ctx.inputs[0][0][")
  .replace("            ctx.inputs[0][1] += 1\n            return ret",
           "            ctx.inputs[0][1] += 1\n            return val"), None)
B(["C19"], "vy_eval arms swapped", H,
  "    if ctx.online:\n        try:\n            t = ast.literal_eval(item)\n"
  "            if type(t) is float:\n                t = sympy.Rational(str(t))\n"
  "            return vyxalify(t)\n        except Exception:  # skipcq: PYL-W0703\n"
  "            # TODO: eval as vyxal\n            return item\n    else:\n"
  "        try:\n            t = eval(item)\n            if type(t) is float:\n"
  "                t = sympy.Rational(str(t))\n            return vyxalify(t)\n"
  "        except Exception:  # skipcq: PYL-W0703\n            return item",
  "    if not ctx.online:\n        try:\n            t = eval(item)\n"
  "            if type(t) is float:\n                t = sympy.Rational(str(t))\n"
  "            return vyxalify(t)\n        except Exception:  # skipcq: PYL-W0703\n"
  "            return item\n    else:\n        try:\n"
  "            t = ast.literal_eval(item)\n            if type(t) is float:\n"
  "                t = sympy.Rational(str(t))\n            return vyxalify(t)\n"
  "        except Exception:  # skipcq: PYL-W0703\n            return item")
B(["C19"], "print guard written as early return", E,
  "        if ctx.online:\n            ctx.online_output[1] += vy_str(lhs, ctx=ctx) + end\n"
  "        else:\n            print(lhs, end=end)",
  "        if ctx.online:\n            ctx.online_output[1] += vy_str(lhs, ctx=ctx) + end\n"
  "            return\n        print(lhs, end=end)")
B(["C03", "C04", "C20", "C18", "C05"], "independent lexer branches reordered", LX,
  lambda s: (lambda a, b: s.replace(a + b, b + a))(
      s[s.index('        elif head == "#":'):s.index('        elif head in "k∆øÞ¨":')],
      s[s.index('        elif head in "k∆øÞ¨":'):s.index('        elif head == "⁺":')]),
  None)
B(["C08"], "fallback passes rhs by keyword", E,
  "lambda: vectorise(add, lhs, rhs, ctx=ctx)",
  "lambda: vectorise(add, lhs, rhs=rhs, ctx=ctx)")
B(["C10", "C14", "C08"], "copy then mutate is fine", E,
  "def absolute_difference(lhs, rhs, ctx):",
  "def _sorted_copy(lhs, ctx):\n    temp = list(lhs)\n    temp.append(0)\n"
  "    temp.sort()\n    return temp\n\n\ndef absolute_difference(lhs, rhs, ctx):")
B(["C12", "C02", "C09"], "balanced extra bookkeeping in the for template", T,
  '            + indent_str(f"    ctx.context_values.append({var})", indent)',
  '            + indent_str(f"    ctx.context_values.append({var})", indent)\n'
  '            + indent_str("    ctx.function_stack.append(None)", indent)\n'
  '            + indent_str("    ctx.function_stack.pop()", indent)')
B(["C20", "C09", "C02"], "two table entries swapped", E,
  '    "ʀ": process_element(inclusive_zero_range, 1),\n'
  '    "ʁ": process_element(exclusive_zero_range, 1),\n',
  '    "ʁ": process_element(exclusive_zero_range, 1),\n'
  '    "ʀ": process_element(inclusive_zero_range, 1),\n')
B(["C18"], "sanitiser hoisted into a compiled pattern", T,
  lambda s: s.replace("NILADIC_TYPES = (",
                      "NON_IDENT = re.compile(\"[^A-Za-z0-9_]\")\n\nNILADIC_TYPES = (", 1)
  .replace('var = re.sub("[^A-Za-z0-9_]", "", struct.name)\n\n        return indent_str(',
           'var = NON_IDENT.sub("", struct.name)\n\n        return indent_str('),
  None)
B(["C07"], "division lifted with Rational", E,
  "else vyxalify(sympy.sympify(lhs) / rhs),",
  "else vyxalify(sympy.Rational(lhs) / rhs),")
B(["C13", "C10", "C14"], "next() local renamed", LL,
  "        item = vyxalify(next(self.raw_object))\n"
  "        self.generated.append(item)\n        return item",
  "        pulled = vyxalify(next(self.raw_object))\n"
  "        self.generated.append(pulled)\n        return pulled")
B(["C11"], "scope reversed with reversed()", T,
  '"ctx.inputs.append([list(deep_copy(stack))[::-1], 0]);"',
  '"ctx.inputs.append([list(reversed(list(deep_copy(stack)))), 0]);"')
B(["C15", "C20", "C06"], "alphabet built with a comprehension", EN,
  'codepage_number_compress = codepage.replace("»", "")',
  'codepage_number_compress = "".join(c for c in codepage if c != "»")')

B(["C03", "C05", "C18", "C04"], "number scan written peek-then-commit", LX,
  "                ):\n                    contextual_token_value += source.popleft()\n",
  "                ):\n                    candidate = contextual_token_value + source[0]\n"
  "                    source.popleft()\n"
  "                    contextual_token_value = candidate\n")

# helper-extraction twins (interprocedural precision)
_HP = ('def vy_print(lhs, end="\\n", ctx=None):',
       'def _host_print(text, end):\n    print(text, end=end)\n\n\n'
       'def vy_print(lhs, end="\\n", ctx=None):')
B(["C19"], "print moved into a helper called only offline", E,
  lambda s: s.replace(*_HP).replace(
      "        else:\n            print(lhs, end=end)",
      "        else:\n            _host_print(lhs, end)"), None)
V("C19", "print helper called unguarded", E,
  lambda s: s.replace(*_HP).replace(
      "        else:\n            print(lhs, end=end)",
      "        _host_print(lhs, end)"), None, "C19.no-host-output-online")
_BR = ("def parse(\n", "def _is_break(tok):\n    return tok.value == "
       "BREAK_CHARACTER\n\n\ndef parse(\n")
B(["C03"], "break test extracted into a helper, guard kept", P,
  lambda s: s.replace(*_BR, 1).replace(
      "            head.name == lexer.TokenType.GENERAL\n"
      "            and head.value == BREAK_CHARACTER",
      "            head.name == lexer.TokenType.GENERAL\n"
      "            and _is_break(head)"), None)
V("C03", "break test extracted into a helper, guard lost", P,
  lambda s: s.replace(*_BR, 1).replace(
      "            head.name == lexer.TokenType.GENERAL\n"
      "            and head.value == BREAK_CHARACTER",
      "            _is_break(head)"), None, "C03.syntax-test-kind-guarded")
_ID = ("def transpile(\n", "def _ident(text):\n    return re.sub("
       "\"[^A-Za-z0-9_]\", \"\", text)\n\n\ndef transpile(\n")
B(["C18", "C02"], "sanitiser extracted into a helper", T,
  lambda s: s.replace(*_ID, 1).replace(
      '        var = re.sub("[^A-Za-z0-9_]", "", struct.name)\n\n'
      '        return indent_str(\n            f"stack += VAR_',
      '        var = _ident(struct.name)\n\n'
      '        return indent_str(\n            f"stack += VAR_'), None)

# benign refactorings written by independent sub-agents (tools/benign.py)
for _p in sorted(glob.glob(os.path.join(HERE, "benign", "*", "patch.diff"))):
    _m = os.path.join(os.path.dirname(_p), "meta.json")
    _meta = json.load(open(_m, encoding="utf-8")) if os.path.exists(_m) else {}
    _name = os.path.basename(os.path.dirname(_p))
    if _meta.get("expected_alarm"):
        # a feature addition that repeats a known-finding pattern of the tree
        # (a true positive): the named check must report it, the others must
        # stay silent
        _ea = _meta["expected_alarm"]
        CASES.append((_ea["property"], "feature-with-known-defect/" + _name,
                      "<patch>", _p, None, "violation", _ea.get("rule")))
        CASES.append(([p_ for p_ in ALL if p_ != _ea["property"]],
                      "benign/agent/" + _name, "<patch>", _p, None, "silent",
                      None))
        continue
    CASES.append((ALL, "benign/agent/" + _name, "<patch>", _p, None, "silent",
                  None))
