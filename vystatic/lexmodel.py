"""E3 - the lexer's head-dispatch table and token kind/value languages,
extracted from the if/elif chain in lexer.tokenise (never run)."""

from __future__ import annotations

import ast

from .core import AnalysisError, Repo, dotted
from .pe import Interp, Env, ModuleEnv

ANY = None  # the final `else` branch: every other head character


class Branch:
    def __init__(self, test, chars, body, node):
        self.test = test  # ast expr or None (else)
        self.chars = chars  # set of head chars, or ANY
        self.body = body  # list[ast.stmt]
        self.node = node
        self.kinds: list[str] = []  # TokenType member names constructed
        self.token_sites: list[ast.Call] = []
        self.is_digraph = False
        self.digraph_excluded: set[str] = set()
        self.discards = False  # consumes input without producing a token

    @property
    def line(self):
        return self.node.lineno


class LexModel:
    def __init__(self, repo: Repo, interp: Interp | None = None):
        self.repo = repo
        self.it = interp or Interp(repo)
        self.mod = repo.mod("lexer")
        self.pmod = self.it.module("vyxal.lexer")
        self.fn = self.mod.function("tokenise")
        self.kinds = self._token_kinds()
        self.head_var, self.src_var, self.loop = self._find_loop()
        self.branches = self._extract_chain()
        for br in self.branches:
            self._summarise(br)

    # -- token kinds ---------------------------------------------------------
    def _token_kinds(self) -> list[str]:
        cls = self.mod.cls("TokenType")
        out = []
        for st in cls.body:
            if isinstance(st, ast.Assign) and isinstance(
                    st.targets[0], ast.Name):
                out.append(st.targets[0].id)
        return out

    # -- loop / chain --------------------------------------------------------
    def _find_loop(self):
        for st in ast.walk(self.fn):
            if isinstance(st, ast.While) and isinstance(st.test, ast.Name):
                src = st.test.id
                # head = source.popleft()
                for sub in st.body:
                    if (isinstance(sub, (ast.Assign, ast.AnnAssign))
                            and isinstance(sub.value, ast.Call)
                            and dotted(sub.value.func) == f"{src}.popleft"):
                        tgt = sub.targets[0] if isinstance(
                            sub, ast.Assign) else sub.target
                        if isinstance(tgt, ast.Name):
                            return tgt.id, src, st
        raise AnalysisError(
            "anchor vanished: `while source: head = source.popleft()` loop "
            "in lexer.tokenise")

    def fold(self, node):
        """Fold a constant expression in the lexer module's namespace."""
        return self.it.eval(node, ModuleEnv(self.pmod), self.pmod)

    def _test_chars(self, test):
        h = self.head_var
        if isinstance(test, ast.Compare) and len(test.ops) == 1 \
                and isinstance(test.left, ast.Name) and test.left.id == h:
            rhs = self.fold(test.comparators[0])
            if isinstance(test.ops[0], ast.Eq) and isinstance(rhs, str):
                return {rhs}
            if isinstance(test.ops[0], ast.In) and isinstance(
                    rhs, (str, list, tuple, set)):
                return set(rhs)
        raise AnalysisError(
            "lexer head test left the analysable subset: "
            + ast.unparse(test))

    def _extract_chain(self):
        chain = None
        for sub in self.loop.body:
            if isinstance(sub, ast.If):
                chain = sub
                break
        if chain is None:
            raise AnalysisError("anchor vanished: head dispatch chain")
        out = []
        node = chain
        while True:
            out.append(Branch(node.test, self._test_chars(node.test),
                              node.body, node))
            if len(node.orelse) == 1 and isinstance(node.orelse[0], ast.If):
                node = node.orelse[0]
                continue
            if node.orelse:
                br = Branch(None, ANY, node.orelse, node.orelse[0])
                out.append(br)
            break
        return out

    # -- per-branch summary -----------------------------------------------------
    def _summarise(self, br: Branch):
        for st in br.body:
            for n in ast.walk(st):
                if isinstance(n, ast.Call) and dotted(n.func) in (
                        "Token", "lexer.Token") and n.args:
                    kind = dotted(n.args[0])
                    if kind and kind.startswith("TokenType."):
                        br.kinds.append(kind.split(".", 1)[1])
                        br.token_sites.append(n)
                    elif isinstance(n.args[0], ast.Name):
                        # kind chosen through a local (string branch)
                        br.kinds.extend(self._kinds_assigned(br, n.args[0].id))
                        br.token_sites.append(n)
                    else:
                        raise AnalysisError(
                            "Token kind expression not understood: "
                            + ast.unparse(n))
        br.kinds = sorted(set(br.kinds), key=br.kinds.index)
        if not br.token_sites:
            br.discards = True
        # digraph shape: Token(GENERAL, head + source.popleft()) under
        # `if source and source[0] != <c>`
        for st in br.body:
            if isinstance(st, ast.If):
                for n in ast.walk(st):
                    if (isinstance(n, ast.Call) and n in br.token_sites
                            and len(n.args) > 1
                            and isinstance(n.args[1], ast.BinOp)
                            and isinstance(n.args[1].left, ast.Name)
                            and n.args[1].left.id == self.head_var
                            and isinstance(n.args[1].right, ast.Call)
                            and dotted(n.args[1].right.func)
                            == f"{self.src_var}.popleft"):
                        br.is_digraph = True
                        br.digraph_excluded = self._excluded_second(st.test)

    def _kinds_assigned(self, br, var):
        kinds = []
        for st in br.body:
            for n in ast.walk(st):
                if isinstance(n, ast.Assign) and any(
                        isinstance(t, ast.Name) and t.id == var
                        for t in n.targets):
                    k = dotted(n.value)
                    if k and k.startswith("TokenType."):
                        kinds.append(k.split(".", 1)[1])
        if not kinds:
            raise AnalysisError(f"no TokenType assigned to {var}")
        return kinds

    def _excluded_second(self, test) -> set[str]:
        """`source and source[0] != "|"` -> {"|"}"""
        out = set()
        for n in ast.walk(test):
            if isinstance(n, ast.Compare) and len(n.ops) == 1 \
                    and isinstance(n.left, ast.Subscript) \
                    and isinstance(n.left.value, ast.Name) \
                    and n.left.value.id == self.src_var:
                v = self.fold(n.comparators[0])
                if isinstance(n.ops[0], ast.NotEq) and isinstance(v, str):
                    out.add(v)
                elif isinstance(n.ops[0], ast.NotIn):
                    out.update(v)
                else:
                    raise AnalysisError(
                        "digraph guard not understood: " + ast.unparse(test))
        return out

    # -- abstract lexing -------------------------------------------------------------
    def branch_for(self, ch: str) -> Branch:
        for br in self.branches:
            if br.chars is ANY or ch in br.chars:
                return br
        raise AnalysisError("lexer chain has no default branch")

    def special_heads(self) -> set[str]:
        s = set()
        for br in self.branches:
            if br.chars is not ANY:
                s |= br.chars
        return s

    def lex_key(self, key: str):
        """Abstractly lex `key` as a whole program: returns (ok, why).
        ok iff it is scanned as exactly one GENERAL token whose value is key."""
        if len(key) == 0:
            return False, "empty key"
        br = self.branch_for(key[0])
        if len(key) == 1:
            if br.chars is ANY:
                if br.kinds == ["GENERAL"]:
                    return True, "default branch"
                return False, f"default branch builds {br.kinds}"
            if br.is_digraph:
                return True, "digraph head standing alone (end of input)"
            return False, (f"head {key[0]!r} is claimed by the lexer branch at "
                           f"line {br.line} building {br.kinds or 'nothing'}")
        if len(key) == 2:
            if not br.is_digraph:
                return False, (f"first character {key[0]!r} is not a digraph "
                               f"head (branch at line {br.line})")
            if key[1] in br.digraph_excluded:
                return False, f"second character {key[1]!r} is excluded"
            return True, "digraph"
        return False, "longer than two characters"

    def kind_heads(self) -> dict[str, set]:
        """kind -> set of head chars (or ANY) whose branch builds that kind."""
        out: dict[str, set] = {}
        for br in self.branches:
            for k in br.kinds:
                if br.chars is ANY:
                    out.setdefault(k, set()).add("<other>")
                else:
                    out.setdefault(k, set()).update(br.chars)
        return out
