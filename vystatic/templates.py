"""E1 (continued) - instantiate the code generator on synthetic structures.

`Gen` wraps an `Interp` over the repository sources and offers constructors for
synthetic tokens / structures plus `transpile_*` entry points that are
*interpreted from the current source text* of vyxal/transpile.py,
vyxal/structure.py, vyxal/helpers.py and the tables of vyxal/elements.py.
"""

from __future__ import annotations

import ast
import textwrap

from .core import AnalysisError, Repo
from .pe import (Hole, Interp, PInstance, PRaise, Unsupported, PClass,
                 PEnumMember)

STRUCT_CLASSES = [
    "GenericStatement", "BreakStatement", "RecurseStatement", "IfStatement",
    "ForLoop", "WhileLoop", "FunctionCall", "FunctionDef", "Lambda",
    "LambdaMap", "LambdaFilter", "LambdaSort", "ListLiteral",
    "MonadicModifier", "DyadicModifier", "TriadicModifier",
]

LAMBDA_OP_EXTRA: list[str] = []

MARK = "HOLE_"


class GeneratorRaised(Exception):
    def __init__(self, exc):
        super().__init__(str(exc))
        self.exc = exc


class Gen:
    def __init__(self, repo: Repo, interp: Interp | None = None):
        self.repo = repo
        self.it = interp or Interp(repo)
        self.tr = self.it.module("vyxal.transpile")
        self.st = self.it.module("vyxal.structure")
        self.lx = self.it.module("vyxal.lexer")
        self.classes: dict[str, PClass] = {}
        # structure classes added as further lambda operators (subclasses of
        # LambdaOp constructed from a body alone) are one more member of
        # the LambdaMap / LambdaFilter / LambdaSort family
        try:
            stree = repo.mod("structure").tree
        except Exception:  # noqa: BLE001
            stree = None
        if stree is not None:
            for c in stree.body:
                if isinstance(c, ast.ClassDef) and c.name not in \
                        STRUCT_CLASSES and any(
                        isinstance(b, ast.Name) and b.id == "LambdaOp"
                        for b in c.bases) and all(
                        [a.arg for a in m.args.args] == ["self", "body"]
                        for m in c.body if isinstance(m, ast.FunctionDef)
                        and m.name == "__init__"):
                    STRUCT_CLASSES.append(c.name)
                    LAMBDA_OP_EXTRA.append(c.name)
        for name in STRUCT_CLASSES + ["Structure", "LambdaOp"]:
            try:
                self.classes[name] = self.st.get(name)
            except KeyError:
                raise AnalysisError(
                    f"anchor vanished: structure.{name}") from None
        self.Token = self._need(self.lx, "Token")
        self.TokenType = self._need(self.lx, "TokenType")
        for fn in ("transpile_ast", "transpile_single", "transpile_token",
                   "transpile_structure", "transpile_lambda", "lambda_wrap"):
            self._need(self.tr, fn)
        self.it.intercepts[("vyxal.transpile", "transpile_ast")] = \
            self._hook_ast
        self.it.intercepts[("vyxal.transpile", "transpile_single")] = \
            self._hook_single
        self.it.intercepts[("vyxal.transpile", "transpile_structure")] = \
            self._hook_single

    @staticmethod
    def _need(mod, name):
        try:
            return mod.get(name)
        except KeyError:
            raise AnalysisError(
                f"anchor vanished: {mod.name}.{name}") from None

    # -- hooks -------------------------------------------------------------
    @staticmethod
    def _arg(fn, args, kwargs, pos, name, default=None):
        if len(args) > pos:
            return args[pos]
        return kwargs.get(name, default)

    def _hook_ast(self, fn, args, kwargs):
        prog = self._arg(fn, args, kwargs, 0, "program")
        if isinstance(prog, Hole):
            indent = self._arg(fn, args, kwargs, 1, "indent", 0)
            return textwrap.indent(MARK + prog.name + "\n", "    " * indent)
        return NotImplemented

    def _hook_single(self, fn, args, kwargs):
        obj = args[0] if args else None
        if isinstance(obj, PInstance) and "_hole" in obj.d:
            indent = self._arg(fn, args, kwargs, 1, "indent", 0)
            return textwrap.indent(MARK + obj.d["_hole"] + "\n",
                                   "    " * indent)
        return NotImplemented

    # -- constructors --------------------------------------------------------
    def kind(self, name: str) -> PEnumMember:
        v = self.TokenType.ns.get(name)
        if v is None:
            raise AnalysisError(f"anchor vanished: TokenType.{name}")
        return v

    def kinds(self) -> list[str]:
        return [k for k, v in self.TokenType.ns.items()
                if isinstance(v, PEnumMember)]

    def token(self, kind: str, value: str):
        return self.it.instantiate(self.Token, [self.kind(kind), value], {})

    def struct(self, cls: str, *args):
        return self.it.instantiate(self.classes[cls], list(args), {})

    def generic(self, kind: str, value: str):
        return self.struct("GenericStatement", [self.token(kind, value)])

    def hole_struct(self, name: str):
        inst = self.it.instantiate(self.classes["Structure"], [], {})
        inst.d["_hole"] = name
        return inst

    def cls(self, name):
        return None if name is None else self.classes[name]

    # -- entry points ----------------------------------------------------------
    def _run(self, fname, *args, **kwargs):
        self.it.steps = 0  # the step budget is per generator invocation
        try:
            return self.tr.get(fname)(*args, **kwargs)
        except PRaise as exc:
            raise GeneratorRaised(exc) from exc
        except StopIteration as exc:
            raise GeneratorRaised(exc) from exc

    def transpile_ast(self, program, indent=0, dict_compress=True):
        return self._run("transpile_ast", program, indent,
                         dict_compress=dict_compress)

    def transpile_structure(self, struct, indent=0, dict_compress=True):
        return self._run("transpile_structure", struct, indent,
                         dict_compress=dict_compress)

    def transpile_token(self, tok, indent=0, dict_compress=True):
        return self._run("transpile_token", tok, indent,
                         dict_compress=dict_compress)

    def lambda_wrap(self, branch):
        return self._run("lambda_wrap", branch)

    # -- tables ----------------------------------------------------------------
    def elements(self) -> dict:
        return self._need(self.it.module("vyxal.elements"), "elements")

    def modifiers(self) -> dict:
        return self._need(self.it.module("vyxal.elements"), "modifiers")


def table_bindings(repo: Repo, name: str):
    """value nodes of every top-level binding of `name` in elements.py"""
    out = []
    for node in repo.mod("elements").tree.body:
        if isinstance(node, ast.Assign) and any(
                isinstance(t, ast.Name) and t.id == name
                for t in node.targets):
            out.append(node.value)
        elif isinstance(node, ast.AnnAssign) and isinstance(
                node.target, ast.Name) and node.target.id == name \
                and node.value is not None:
            out.append(node.value)
        elif isinstance(node, ast.AugAssign) and isinstance(
                node.target, ast.Name) and node.target.id == name:
            out.append(node.value)
    return out


def table_dict_node(repo: Repo, name: str) -> ast.Dict:
    """the dict literal the table is written as (a later re-binding of the
    name - wrapping it, merging into it - is C20's business to report; the
    entries analysed are the literal's)"""
    lits = [n for n in table_bindings(repo, name) if isinstance(n, ast.Dict)]
    if not lits:
        raise AnalysisError(f"elements.{name} is no longer a dict literal")
    return lits[0]


def table_keys_with_nodes(repo: Repo, name: str):
    """(key string, key node, value node) for every entry of the dict literal,
    duplicates included (a dict value would have collapsed them).  Keys that
    are not string literals and `**mapping` entries are evaluated with the
    interpreter in the module's own namespace; the node reported for an
    unpacked entry is the unpacked expression."""
    node = table_dict_node(repo, name)
    out = []
    it = pmod = env = None
    for k, v in zip(node.keys, node.values):
        if isinstance(k, ast.Constant) and isinstance(k.value, str):
            out.append((k.value, k, v))
            continue
        if it is None:
            from .pe import ModuleEnv
            it = Interp(repo)
            pmod = it.module("vyxal.elements")
            env = ModuleEnv(pmod)
        try:
            if k is None:
                sub = it.eval(v, env, pmod)
                if not isinstance(sub, dict):
                    raise Unsupported("** of a non-dict")
                for kk in sub:
                    if not isinstance(kk, str):
                        raise Unsupported("non-string key")
                    out.append((kk, v, v))
            else:
                kk = it.eval(k, env, pmod)
                if not isinstance(kk, str):
                    raise Unsupported("non-string key")
                out.append((kk, k, v))
        except (Unsupported, PRaise) as exc:
            raise AnalysisError(
                f"elements.{name}: entry at line {v.lineno} cannot be "
                f"evaluated statically ({exc})") from None
    return out
