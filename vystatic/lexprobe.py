"""E3' - a *semantic* model of the lexer: the current source of
lexer.tokenise is interpreted (vystatic.pe) on every string of length <= 2
(and a reduced set of length 3) over the character classes the lexer itself
distinguishes.

Character classes: every character that occurs in a constant the lexer
module compares a character with (folded: string.digits, ascii_letters, ...),
grouped by *signature* (the set of constants containing it), plus one
representative of "any other character".  Two characters with the same
signature take the same branches everywhere in the lexer, so facts observed
on representatives hold for the whole class.  Nothing here depends on how
tokenise is written (if/elif chain, dict dispatch, helpers, ...)."""

from __future__ import annotations

import ast
import itertools

from .core import AnalysisError, Repo
from .pe import Interp, ModuleEnv, PRaise

ANYSET = None


def regex_sample(pattern: str) -> str:
    """one text matched by `pattern` (repeats taken once, first branch)"""
    try:
        import re._parser as sre  # type: ignore
    except ImportError:  # pragma: no cover
        import sre_parse as sre  # type: ignore
    try:
        tree = sre.parse(pattern)
    except Exception:  # noqa: BLE001
        return ""

    def one(items):
        out = ""
        for op, av in items:
            name = str(op)
            if name == "LITERAL":
                out += chr(av)
            elif name == "NOT_LITERAL":
                out += "x" if chr(av) != "x" else "y"
            elif name == "ANY":
                out += "x"
            elif name == "IN":
                neg = any(str(o) == "NEGATE" for o, _ in av)
                ch = "x"
                if not neg:
                    for o, a in av:
                        if str(o) == "LITERAL":
                            ch = chr(a)
                            break
                        if str(o) == "RANGE":
                            ch = chr(a[0])
                            break
                        if str(o) == "CATEGORY":
                            ch = "7" if "DIGIT" in str(a) else (
                                " " if "SPACE" in str(a) else "x")
                            break
                out += ch
            elif name in ("MAX_REPEAT", "MIN_REPEAT", "POSSESSIVE_REPEAT"):
                lo, _hi, sub = av
                out += one(sub) * max(lo, 1)
            elif name == "SUBPATTERN":
                out += one(av[3])
            elif name == "BRANCH":
                out += one(av[1][0])
        return out
    return one(tree)


class LexProbe:
    EXTRA = ["|", ";", "[", "]", "λ", " ", "\n", '"', "'", "(", "X", "v"]

    def __init__(self, repo: Repo, interp: Interp | None = None,
                 thorough: bool = False):
        self.thorough = thorough
        self.repo = repo
        self.it = interp or Interp(repo)
        self.mod = repo.mod("lexer")
        self.pmod = self.it.module("vyxal.lexer")
        try:
            self.tokenise = self.pmod.get("tokenise")
            tt = self.pmod.get("TokenType")
        except KeyError as exc:
            raise AnalysisError(f"anchor vanished: lexer.{exc}") from None
        self.kinds = [k for k, v in tt.ns.items()
                      if hasattr(v, "name") and hasattr(v, "value")
                      and not k.startswith("_")]
        self.codepage = self.it.module("vyxal.encoding").get("codepage")
        self.consts = self._constants()
        self.sig: dict[str, frozenset] = {}
        for i, cs in enumerate(self.consts):
            for ch in cs:
                self.sig[ch] = self.sig.get(ch, frozenset()) | {i}
        groups: dict[frozenset, list[str]] = {}
        for ch, sg in self.sig.items():
            groups.setdefault(sg, []).append(ch)
        self.groups = groups
        self.other = next(c for c in "ǍǎǏǐǑǒǓ¤§" + self.codepage
                          if c not in self.sig)
        reps = [sorted(v)[0] for v in groups.values()]
        for e in self.EXTRA:
            if e not in reps and self.sig.get(e) is None:
                pass
        self.reps = sorted(set(reps) | {self.other})
        # syntax-significant characters are probed individually as well
        self.reps = sorted(set(self.reps) | set(self.EXTRA))
        self._cache: dict[str, object] = {}
        # lexer modes: every parameter of tokenise after the source with a
        # False default is a switch; mode 0 = all off, mode i = the i-th
        # switch on alone (mode 1 is the one-character-variable mode today)
        self.mode_names = ["default"]
        fn = self.mod.functions.get("tokenise")
        if fn is not None:
            params = fn.args.args[1:]
            defaults = fn.args.defaults[-len(params):] if params else []
            if len(defaults) == len(params):
                for a, d in zip(params, defaults):
                    if isinstance(d, ast.Constant) and d.value is False:
                        self.mode_names.append(a.arg)
                    else:
                        break
        self.cur_mode = 0
        self.runs = 0
        self._facts()

    # -- constants the lexer compares characters with ----------------------------
    def _constants(self):
        out = []
        env = ModuleEnv(self.pmod)
        for fn in self.mod.functions.values():
            for n in ast.walk(fn):
                if isinstance(n, ast.Compare):
                    for c in n.comparators:
                        try:
                            v = self.it.eval(c, env, self.pmod)
                        except Exception:  # noqa: BLE001
                            continue
                        if isinstance(v, str) and v:
                            out.append(frozenset(v))
                        elif isinstance(v, (list, tuple, set, frozenset)):
                            chars = [x for x in v if isinstance(x, str)
                                     and len(x) == 1]
                            if chars:
                                out.append(frozenset(chars))
                elif isinstance(n, ast.Constant) and isinstance(
                        n.value, str) and 0 < len(n.value) <= 3:
                    out.append(frozenset(n.value))
        # character predicates the lexer calls (c.isdigit(), ...): their truth
        # sets over the code page and ASCII are classes of their own
        import string as _string
        universe = sorted(set(self.codepage) | set(_string.printable))
        for fn in self.mod.functions.values():
            for n in ast.walk(fn):
                if isinstance(n, ast.Call) and isinstance(
                        n.func, ast.Attribute) and n.func.attr in (
                        "isdigit", "isalpha", "isalnum", "isnumeric",
                        "isdecimal", "isspace", "isidentifier", "isupper",
                        "islower", "isprintable", "isascii", "istitle"):
                    truth = frozenset(c for c in universe
                                      if getattr(c, n.func.attr)())
                    if truth:
                        out.append(truth)
        # module-level dict / str constants (dispatch tables keyed by head)
        for st in self.mod.tree.body:
            if isinstance(st, (ast.Assign, ast.AnnAssign)):
                tgt = st.targets[0] if isinstance(st, ast.Assign) else \
                    st.target
                if isinstance(tgt, ast.Name):
                    try:
                        v = self.pmod.get(tgt.id)
                    except Exception:  # noqa: BLE001
                        continue
                    if isinstance(v, str) and v:
                        out.append(frozenset(v))
                    elif isinstance(v, dict):
                        ks = [k for k in v if isinstance(k, str)
                              and len(k) == 1]
                        if ks:
                            out.append(frozenset(ks))
                        for k in ks:
                            out.append(frozenset(k))
        uniq = []
        for c in out:
            if c not in uniq:
                uniq.append(c)
        if len(uniq) < 5:
            raise AnalysisError(
                "the lexer compares characters with fewer than 5 constants; "
                "character classes cannot be derived")
        return uniq

    def class_of(self, ch) -> set[str] | None:
        """all characters behaving like ch (None: the open 'other' class)"""
        if ch not in self.sig:
            return ANYSET
        return set(self.groups[self.sig[ch]])

    # -- running the interpreted lexer ----------------------------------------------
    def in_mode(self, mode: int):
        """context manager: probes without an explicit mode run in `mode`"""
        lp = self

        class _M:
            def __enter__(self):
                self.old = lp.cur_mode
                lp.cur_mode = mode

            def __exit__(self, *a):
                lp.cur_mode = self.old
        return _M()

    def run(self, s: str, digraphs=None):
        mode = self.cur_mode if digraphs is None else int(digraphs)
        key = (s, mode)
        if key in self._cache:
            return self._cache[key]
        self.runs += 1
        res = self.run_with(self.it, self.tokenise, s, mode)
        self._cache[key] = res
        return res

    @staticmethod
    def run_with(it, tokenise, s, mode):
        it.steps = 0
        try:
            if mode:
                args = [False] * mode
                args[mode - 1] = True
                toks = tokenise(s, *args)
            else:
                toks = tokenise(s)
            res = [(t.d["name"].name, t.d["value"]) for t in toks]
        except PRaise as exc:
            res = ("RAISED", f"{exc.cls_name}{exc.pargs}")
        except StopIteration:
            res = ("RAISED", "StopIteration")
        return res

    def kinds_of(self, s):
        r = self.run(s)
        if isinstance(r, tuple):
            return r
        return [k for k, _ in r]

    # -- facts -------------------------------------------------------------------------
    def _facts(self):
        reps = self.reps
        self.raised = []
        self.head_kinds: dict[str, set] = {}
        self.alpha_sigs: dict[str, set] = {k: set() for k in self.kinds}
        crit = [c for c in reps if c in "`»«\\‛#\n|°.0" or c == self.other]
        probes = [""] + reps + [a + b for a in reps for b in reps] + [
            a + b + c for a in reps
            for b in (reps if self.thorough else crit)
            for c in (reps if self.thorough else crit)]
        # both lexer modes (one-character variable names on / off): the
        # value alphabets and head kinds are the union, a raise in either
        # mode counts
        self.has_mode = self._has_mode_parameter()
        runs = [(s, False) for s in probes]
        if self.has_mode:
            runs += [(s, True) for s in probes if len(s) <= 2]
        for m in range(2, len(self.mode_names)):
            runs += [(s, m) for s in probes if len(s) <= 2]
        for s, mode in runs:
            r = self.run(s, mode)
            if isinstance(r, tuple):
                self.raised.append((s + (" [V]" if mode is True else
                                         f" [{self.mode_names[mode]}]"
                                         if mode else ""), r[1]))
                continue
            if s and r:
                self.head_kinds.setdefault(s[0], set()).add(r[0][0])
            elif s:
                self.head_kinds.setdefault(s[0], set()).add("<none>")
            for kind, val in r:
                for ch in val:
                    self.alpha_sigs.setdefault(kind, set()).add(ch)
        self.n_probes = len(probes)

    def _has_mode_parameter(self):
        fn = self.mod.functions.get("tokenise")
        return fn is not None and len(fn.args.args) >= 2

    def alphabet(self, kind):
        """characters that can occur in values of `kind` (None = any)"""
        seen = self.alpha_sigs.get(kind, set())
        out = set()
        for ch in seen:
            cls = self.class_of(ch)
            if cls is ANYSET:
                return ANYSET
            out |= cls
        return out

    def heads_of(self, kind):
        """class-expanded set of head characters whose first token has `kind`
        (None in the set stands for the open class)"""
        out = set()
        for h, ks in self.head_kinds.items():
            if kind in ks:
                cls = self.class_of(h)
                if cls is ANYSET:
                    out.add("<other>")
                else:
                    out |= cls
        return out

    def digraph_heads(self):
        out = set()
        for h in self.reps:
            r = self.run(h + self.other)
            if r == [("GENERAL", h + self.other)]:
                cls = self.class_of(h)
                out |= cls if cls is not ANYSET else {"<other>"}
        return out

    def atoms(self):
        """Multi-character texts the lexer module itself mentions: string
        constants of length >= 2 and one sample match of every regular
        expression it compiles or applies.  Laws are also probed on these
        (a pre-pass that rewrites `#{...}#` is invisible to three-character
        probes)."""
        if getattr(self, "_atoms", None) is not None:
            return self._atoms
        import re as _re
        out = []
        env = ModuleEnv(self.pmod)
        for n in ast.walk(self.mod.tree):
            if isinstance(n, ast.Constant) and isinstance(n.value, str) \
                    and 2 <= len(n.value) <= 8 and "\n" not in n.value:
                out.append(n.value)
            if isinstance(n, ast.Call):
                d = ast.unparse(n.func)
                if d.startswith("re.") and n.args:
                    try:
                        pat = self.it.eval(n.args[0], env, self.pmod)
                    except Exception:  # noqa: BLE001
                        continue
                    if isinstance(pat, str):
                        smp = regex_sample(pat)
                        try:
                            ok = smp and _re.search(pat, smp, _re.DOTALL)
                        except _re.error:
                            ok = False
                        if ok:
                            out.append(smp)
        # docstrings and the like are not atoms the scanner reacts to; keep
        # those that change the token stream compared with their characters
        uniq = []
        for a in out:
            if a not in uniq and len(uniq) < 40:
                uniq.append(a)
        self._atoms = uniq
        return uniq

    def neutral_prefixes(self):
        """representatives `a` that are complete tokens on their own: for
        every representative b, a + b lexes as tokens(a) + tokens(b).  (The
        heads of literals, digraphs, numbers and names are not: they go on.)"""
        out = []
        for a in self.reps:
            ra = self.run(a)
            if not isinstance(ra, list):
                continue
            if all(isinstance(self.run(b), list)
                   and self.run(a + b) == ra + self.run(b)
                   for b in self.reps):
                out.append(a)
        return out

    def lexes_as_one_general_after(self, key: str, prefixes):
        """after every neutral prefix the key is still one GENERAL token"""
        for a in prefixes:
            ra = self.run(a)
            r = self.run(a + key)
            if not (isinstance(r, list) and r == ra + [("GENERAL", key)]):
                got = r if isinstance(r, tuple) else ", ".join(
                    f"{k}({v!r})" for k, v in r)
                return False, a, got
        return True, None, None

    def lexes_as_one_general(self, key: str):
        r = self.run(key)
        if isinstance(r, tuple):
            return False, f"the lexer raises {r[1]}"
        if r == [("GENERAL", key)]:
            return True, "one GENERAL token"
        return False, "scanned as " + ", ".join(
            f"{k}({v!r})" for k, v in r) if r else "produces no token"
