"""Forcing analysis for C14: which expressions are *lazy views* of a parameter
and where such a view is consumed eagerly."""

from __future__ import annotations

import ast

from .core import dotted

LAZY_WRAPPERS = {"iterable", "iter", "deep_copy", "LazyList", "enumerate",
                 "map", "filter", "zip", "reversed_lazy", "vyxalify",
                 "wrapify"}
EAGER_CALLS = {"len", "list", "tuple", "sorted", "set", "sum", "max", "min",
               "reversed", "simplify", "vy_str", "vy_repr", "any", "all",
               "frozenset", "dict", "Counter", "vy_sum", "vy_sort",
               "reverse", "length", "product"}
EAGER_METHODS = {"listify", "count", "reversed", "index", "__len__"}
NON_LAZY_KINDS = {"str", "NUMBER_TYPE", "types.FunctionType", "int"}


class ForceSite:
    def __init__(self, node, desc, how):
        self.node = node
        self.desc = desc
        self.how = how

    @property
    def line(self):
        return getattr(self.node, "lineno", 0)


def own_body_nodes(fn):
    """nodes of fn including nested defs (closures see the parameter)"""
    return list(ast.walk(fn))


def is_generator_def(fn):
    for n in ast.walk(fn):
        if isinstance(n, (ast.Yield, ast.YieldFrom)):
            # yield belongs to the innermost def
            cur = getattr(n, "_parent", None)
            while cur is not None and not isinstance(
                    cur, (ast.FunctionDef, ast.Lambda)):
                cur = getattr(cur, "_parent", None)
            if cur is fn:
                return True
    return False


class LazyViews:
    def __init__(self, fn: ast.FunctionDef, param: str, lazy_callees=None):
        self.fn = fn
        self.param = param
        self.lazy_callees = lazy_callees or {}  # name -> set(param names)
        self.views: set[str] = {param}
        self.nested_gens: set[str] = set()
        self._fix()

    def is_view(self, e) -> bool:
        if isinstance(e, ast.Name):
            return e.id in self.views
        if isinstance(e, ast.Starred):
            return self.is_view(e.value)
        if isinstance(e, ast.IfExp):
            return self.is_view(e.body) or self.is_view(e.orelse)
        if isinstance(e, ast.Tuple):
            return False
        if isinstance(e, ast.GeneratorExp):
            return any(self.is_view(g.iter) for g in e.generators)
        if isinstance(e, ast.Subscript) and isinstance(e.value, ast.Call) \
                and dotted(e.value.func) == "itertools.tee":
            return any(self.is_view(a) for a in e.value.args)
        if isinstance(e, ast.Subscript):
            # an open slice of a lazy view is a lazy view
            if isinstance(e.slice, ast.Slice) and e.slice.upper is None \
                    and not (isinstance(e.slice.step, ast.UnaryOp)):
                return self.is_view(e.value)
            return False
        if isinstance(e, ast.Call):
            d = dotted(e.func) or ""
            short = d.split(".")[-1]
            if d == "itertools.tee":
                return False  # a tuple of iterators; its items are views
            if short in LAZY_WRAPPERS or d.startswith("itertools."):
                return any(self.is_view(a) for a in e.args)
            if short in self.nested_gens:
                return True
            if short in self.lazy_callees:
                # positional args bound to the callee's lazy parameters
                return any(self.is_view(a) for a in e.args) or any(
                    self.is_view(k.value) for k in e.keywords)
        return False

    def _fix(self):
        changed = True
        while changed:
            changed = False
            for n in ast.walk(self.fn):
                if isinstance(n, ast.Assign):
                    for t in n.targets:
                        changed |= self._bind(t, n.value)
                elif isinstance(n, (ast.For, ast.comprehension)) \
                        and isinstance(n.iter, (ast.Tuple, ast.List)) \
                        and isinstance(n.target, ast.Name) \
                        and n.target.id not in self.views \
                        and any(self.is_view(e) for e in n.iter.elts):
                    # `for side in (iterable(lhs), iterable(rhs))`: the
                    # variable ranges over the views themselves
                    self.views.add(n.target.id)
                    changed = True
                elif isinstance(n, ast.FunctionDef) and n is not self.fn:
                    # nested generator iterating a view
                    if n.name not in self.nested_gens and \
                            is_generator_def(n) and self._uses_view(n):
                        self.nested_gens.add(n.name)
                        changed = True

    def _bind(self, target, value):
        grew = False
        if isinstance(target, ast.Name):
            if target.id not in self.views and self.is_view(value):
                self.views.add(target.id)
                grew = True
        elif isinstance(target, (ast.Tuple, ast.List)):
            alts = []
            if isinstance(value, (ast.Tuple, ast.List)):
                alts = [value.elts]
            elif isinstance(value, ast.IfExp):
                for br in (value.body, value.orelse):
                    if isinstance(br, (ast.Tuple, ast.List)):
                        alts.append(br.elts)
            for elts in alts:
                if len(elts) == len(target.elts):
                    for t, v in zip(target.elts, elts):
                        grew |= self._bind(t, v)
        return grew

    def _uses_view(self, fn):
        for n in ast.walk(fn):
            if isinstance(n, ast.For) and self.is_view(n.iter):
                return True
            if isinstance(n, ast.YieldFrom) and self.is_view(n.value):
                return True
            if isinstance(n, ast.Call) and dotted(n.func) in ("next", "iter") \
                    and n.args and self.is_view(n.args[0]):
                return True
            if isinstance(n, ast.comprehension) and self.is_view(n.iter):
                return True
        return False

    def _is_int_expr(self, e):
        if isinstance(e, ast.Call) and dotted(e.func) in ("len", "int"):
            return True
        if isinstance(e, ast.Name):
            vals = [n for n in ast.walk(self.fn) if isinstance(n, ast.Assign)
                    and any(isinstance(t, ast.Name) and t.id == e.id
                            for t in n.targets)]
            return bool(vals) and all(
                isinstance(v.value, ast.Constant)
                and isinstance(v.value.value, int) for v in vals)
        return False

    # -- forcing sites ------------------------------------------------------------
    def in_generator_context(self, node):
        cur = getattr(node, "_parent", None)
        while cur is not None and cur is not self.fn:
            if isinstance(cur, ast.FunctionDef) and is_generator_def(cur):
                return True
            if isinstance(cur, ast.GeneratorExp):
                return True
            cur = getattr(cur, "_parent", None)
        return is_generator_def(self.fn)

    def sites(self):
        out = []
        for n in ast.walk(self.fn):
            if isinstance(n, ast.Call):
                f = n.func
                d = dotted(f) or ""
                short = d.split(".")[-1]
                if isinstance(f, ast.Attribute) and f.attr in EAGER_METHODS \
                        and self.is_view(f.value):
                    out.append(ForceSite(n, f"{ast.unparse(f)}(...)",
                                         "eager method"))
                is_join = isinstance(f, ast.Attribute) and f.attr == "join"
                if (short in EAGER_CALLS and not isinstance(f, ast.Attribute)) \
                        or is_join:
                    for a in n.args:
                        if self.is_view(a):
                            out.append(ForceSite(
                                n, f"{'join' if is_join else short}"
                                   f"({ast.unparse(a)[:40]})",
                                "eager builtin consumes the whole sequence"))
                for a in n.args:
                    if isinstance(a, ast.Starred) and self.is_view(a.value):
                        out.append(ForceSite(n, f"*{ast.unparse(a.value)}",
                                             "argument unpacking"))
            elif isinstance(n, (ast.ListComp, ast.SetComp, ast.DictComp)):
                for g in n.generators:
                    if self.is_view(g.iter):
                        out.append(ForceSite(
                            n, f"{type(n).__name__} over "
                               f"{ast.unparse(g.iter)[:40]}",
                            "a list/set/dict comprehension is built eagerly"))
            elif isinstance(n, ast.For):
                if self.is_view(n.iter) and not self.in_generator_context(n):
                    out.append(ForceSite(
                        n, f"for ... in {ast.unparse(n.iter)[:40]}",
                        "a statement-level loop outside any generator runs to "
                        "the end of the sequence"))
            elif isinstance(n, ast.Compare):
                for op, c in zip(n.ops, n.comparators):
                    if isinstance(op, (ast.In, ast.NotIn)) and self.is_view(c):
                        out.append(ForceSite(n, f"... in {ast.unparse(c)[:30]}",
                                             "membership scans the sequence"))
                    if isinstance(op, (ast.Eq, ast.NotEq)) and (
                            self.is_view(n.left) or self.is_view(c)):
                        # comparing with a constant / a length / an int
                        # counter shows the operand is a number, not a list
                        other = c if self.is_view(n.left) else n.left
                        if not (isinstance(other, ast.Constant)
                                or (dotted(other) or "") in NON_LAZY_KINDS
                                or self._is_int_expr(other)):
                            out.append(ForceSite(
                                n, ast.unparse(n)[:40],
                                "equality compares whole sequences"))
            elif isinstance(n, ast.Subscript) and isinstance(
                    n.ctx, ast.Load) and self.is_view(n.value):
                sl = n.slice
                neg = isinstance(sl, ast.UnaryOp) and isinstance(
                    sl.op, ast.USub)
                rev = isinstance(sl, ast.Slice) and isinstance(
                    sl.step, ast.UnaryOp)
                negslice = isinstance(sl, ast.Slice) and any(
                    isinstance(b, ast.UnaryOp) for b in (sl.lower, sl.upper)
                    if b is not None)
                if neg or rev or negslice:
                    out.append(ForceSite(n, ast.unparse(n)[:40],
                                         "negative index / reversed slice "
                                         "needs the end of the sequence"))
        return out


# ---------------------------------------------------------------------------
# kind guards: is a site inside an arm that excludes a lazy list for `param`?
# ---------------------------------------------------------------------------


def excluded_by_guard(site_node, fn, param):
    """True when an enclosing arm shows that `param` is a string / number /
    function there (so it cannot be a lazy list)."""
    pos = None
    # position of param in `ts = vy_type(a, b, ...)`
    for n in ast.walk(fn):
        if isinstance(n, ast.Assign) and isinstance(n.value, ast.Call) \
                and dotted(n.value.func) == "vy_type":
            args = [ast.unparse(a) for a in n.value.args]
            if param in args:
                pos = args.index(param)
    child = site_node
    cur = getattr(site_node, "_parent", None)
    while cur is not None and cur is not fn:
        # dict-dispatch arm: key tuple
        if isinstance(cur, ast.Dict) and child in cur.values:
            k = cur.keys[cur.values.index(child)]
            if k is not None:
                if isinstance(k, ast.Tuple) and pos is not None and pos < len(
                        k.elts):
                    if (dotted(k.elts[pos]) or "") in NON_LAZY_KINDS:
                        return True
                elif not isinstance(k, ast.Tuple) and pos in (0, None):
                    if (dotted(k) or "") in NON_LAZY_KINDS:
                        return True
        if isinstance(cur, ast.If):
            in_body = any(child is s for s in cur.body)
            in_else = any(child is s for s in cur.orelse)
            v = guard_says_not_lazy(cur.test, param, pos)
            if in_body and v is True:
                return True
            if in_else and v is False:
                return True
        if isinstance(cur, ast.IfExp):
            v = guard_says_not_lazy(cur.test, param, pos)
            if child is cur.body and v is True:
                return True
            if child is cur.orelse and v is False:
                return True
        child = cur
        cur = getattr(cur, "_parent", None)
    # early-return idiom before the site: `if <param is not lazy>: return ...`
    # is irrelevant here (it would make the site lazy-only)
    return False


def _inline_monadic_kind_locals(test):
    """`ts == str` with `ts = vy_type(lhs)` reads `vy_type(lhs) == str`
    (only for kind locals of a *single* value; pair / triple kinds keep the
    `ts` spelling the positional patterns below expect)"""
    import copy
    fn = test
    while fn is not None and not isinstance(fn, ast.FunctionDef):
        fn = getattr(fn, "_parent", None)
    if fn is None:
        return test
    defs = {}
    for a in ast.walk(fn):
        if isinstance(a, ast.Assign) and len(a.targets) == 1 and isinstance(
                a.targets[0], ast.Name) and isinstance(a.value, ast.Call) \
                and dotted(a.value.func) == "vy_type" \
                and len(a.value.args) == 1 \
                and isinstance(a.value.args[0], ast.Name):
            defs.setdefault(a.targets[0].id, []).append(a.value)
    defs = {k: v[0] for k, v in defs.items() if len(v) == 1}
    if not defs:
        return test

    class T(ast.NodeTransformer):
        def visit_Name(self, n):
            if isinstance(n.ctx, ast.Load) and n.id in defs:
                return ast.Call(func=ast.Name(id="vy_type", ctx=ast.Load()),
                                args=[copy.deepcopy(defs[n.id].args[0])],
                                keywords=[])
            return n
    return ast.fix_missing_locations(T().visit(copy.deepcopy(test)))


def guard_says_not_lazy(test, param, pos):
    """True: test true => param is not lazy; False: test false => param not
    lazy; None: says nothing."""
    test = _inline_monadic_kind_locals(test)
    txt = ast.unparse(test).replace(" ", "")
    p = param
    pats_true = [f"isinstance({p},str)", f"type({p})isstr", f"vy_type({p})isstr",
                 f"vy_type({p})==str", f"vy_type({p})==NUMBER_TYPE",
                 f"vy_type({p})isNUMBER_TYPE", f"type({p})==str",
                 f"isinstance({p},int)",
                 f"isinstance({p},types.FunctionType)"]
    pats_true += [f"isinstance({p},list)", f"type({p})islist",
                  f"isinstance({p},(int,str))"]
    if txt in pats_true:
        return True
    if txt in (f"isinstance({p},LazyList)", f"type({p})isLazyList",
               f"vy_type({p})isLazyList", f"vy_type({p})==LazyList",
               f"type({p})==LazyList"):
        return False
    if pos is not None and txt in (f"ts[{pos}]isLazyList",
                                   f"ts[{pos}]==LazyList"):
        return False
    if txt in (f"vy_type({p})!=NUMBER_TYPE", f"vy_type({p})isnotNUMBER_TYPE"):
        return False
    if pos is not None:
        if isinstance(test, ast.Compare) and len(test.ops) == 1 and isinstance(
                test.ops[0], ast.Eq) and ast.unparse(test.left) == "ts" \
                and isinstance(test.comparators[0], ast.Tuple):
            elts = test.comparators[0].elts
            if pos < len(elts) and (dotted(elts[pos]) or "") in NON_LAZY_KINDS:
                return True
        for form in (f"ts[{pos}]==", f"ts[{pos}]is"):
            for kname in NON_LAZY_KINDS:
                if txt == form + kname:
                    return True
        if pos == 1 or pos == 0:
            neg = {0: ["ts[0]", "ts[-2]"], 1: ["ts[1]", "ts[-1]"]}[pos]
            for nm in neg:
                for kname in NON_LAZY_KINDS:
                    if txt in (f"{nm}=={kname}", f"{nm}is{kname}"):
                        return True
    if txt == f"type({p})istype(rhs)isstr" or txt.startswith(
            f"type({p})istype(") and txt.endswith("isstr"):
        return True
    return None
