"""E2 - generated-code grammar closure.

* `ParseRelation`: which `parent` the parser hands to the branches of each
  structure class (read off the recursive `parse(...)` calls in parse.parse).
* `Shapes`: the finite family of structure shapes (branch counts, parameter
  shapes, modifier keys) with symbolic holes.
* `Explorer`: worklist over *hole states*; for every state x shape x hole x
  early-exit lowering it produces the exact generated text (via templates.Gen),
  compiles it in a wrapper reproducing the python context (compile-fail
  witness) and runs the height analysis.
"""

from __future__ import annotations

import ast
import textwrap

from .core import AnalysisError, Repo, dotted
from .heights import HeightAnalysis, ZERO, CTX_LISTS, fmt, vadd
from .pe import Hole
from .templates import Gen, GeneratorRaised, MARK

MOD_CLASSES = ("MonadicModifier", "DyadicModifier", "TriadicModifier")


# ---------------------------------------------------------------------------
# parent propagation, from parse.py
# ---------------------------------------------------------------------------


class ParseRelation:
    """child_parent[cls] in {'self', 'inherit_or_self', 'inherit', <ClassName>}
    for every structure class the parser builds from a bracketed structure;
    `modifier_parent[list name]` = class passed to the tail parse."""

    def __init__(self, repo: Repo, gen: Gen):
        self.repo = repo
        mod = repo.mod("parse")
        self.fn = mod.function("parse")
        info = gen.it.module("vyxal.parse").get("STRUCTURE_INFORMATION")
        self.opener_class = {k: v[0].name for k, v in info.items()}
        unknown = [c for c in self.opener_class.values()
                   if c not in Gen_classes()]
        if unknown:
            raise AnalysisError(
                f"structure classes {unknown} are new: the shape family "
                "does not cover them")
        self.closer = {k: v[1] for k, v in info.items()}
        self.child_parent: dict[str, str] = {}
        self.built_in_arm: dict[str, list[str]] = {}
        self.modifier_parent: dict[str, str] = {}
        self.break_parent = None
        self.recurse_parent = None
        self.arity_sites = []
        self._extract()

    def _classify(self, node) -> str:
        if isinstance(node, ast.Name):
            if node.id == "structure_cls":
                return "self"
            if node.id == "parent":
                return "inherit"
        if isinstance(node, ast.BoolOp) and isinstance(node.op, ast.Or) \
                and len(node.values) == 2 \
                and all(isinstance(v, ast.Name) for v in node.values) \
                and node.values[0].id == "parent" \
                and node.values[1].id == "structure_cls":
            return "inherit_or_self"
        d = dotted(node)
        if d and d.startswith("structure."):
            return d.split(".", 1)[1]
        raise AnalysisError(
            "parent argument of a recursive parse() call is outside the "
            f"recognised forms: {ast.unparse(node)} (line {node.lineno})")

    def _parse_calls(self, stmts):
        out = []
        for st in stmts:
            for n in ast.walk(st):
                if isinstance(n, ast.Call) and isinstance(n.func, ast.Name) \
                        and n.func.id == "parse":
                    if len(n.args) >= 2:
                        out.append(self._classify(n.args[1]))
                    else:
                        kw = {k.arg: k.value for k in n.keywords}
                        if "parent" in kw:
                            out.append(self._classify(kw["parent"]))
                        else:
                            out.append("none")
        return out

    def _built(self, stmts):
        out = []
        for st in stmts:
            for n in ast.walk(st):
                if isinstance(n, ast.Call):
                    d = dotted(n.func)
                    if d and d.startswith("structure.") and d != "structure.Structure":
                        out.append(d.split(".", 1)[1])
                    elif isinstance(n.func, ast.Name) and \
                            n.func.id == "structure_cls":
                        out.append("<structure_cls>")
        return out

    def _extract(self):
        # the chain `if structure_cls == structure.X: ... elif ... else`
        chain = None
        for n in ast.walk(self.fn):
            if isinstance(n, ast.If) and self._cls_test(n.test) and not (
                    isinstance(getattr(n, "_parent", None), ast.If)
                    and n in n._parent.orelse
                    and self._cls_test(n._parent.test)):
                chain = n
                break
        if chain is None:
            raise AnalysisError(
                "anchor vanished: `if structure_cls == structure.X` chain in "
                "parse.parse")
        handled = set()
        node = chain
        while True:
            cls = self._cls_test(node.test)
            kinds = set(self._parse_calls(node.body))
            if len(kinds) != 1:
                raise AnalysisError(
                    f"parse arm for {cls} passes {sorted(kinds)} as parents; "
                    "the grammar model needs exactly one form per arm")
            built = [b for b in self._built(node.body)]
            self.built_in_arm[cls] = built
            kind = kinds.pop()
            for b in set(built) | {cls}:
                if b in Gen_classes():
                    self.child_parent.setdefault(b, self._resolve(kind, cls))
            handled.add(cls)
            if len(node.orelse) == 1 and isinstance(node.orelse[0], ast.If) \
                    and self._cls_test(node.orelse[0].test):
                node = node.orelse[0]
                continue
            # final else: all remaining opener classes
            rest = [c for c in self.opener_class.values() if c not in handled]
            if node.orelse:
                kinds = set(self._parse_calls(node.orelse))
                if len(kinds) != 1:
                    raise AnalysisError(
                        f"default parse arm passes {sorted(kinds)} as parents")
                kind = kinds.pop()
                for c in rest:
                    self.child_parent[c] = self._resolve(kind, c)
            elif rest:
                raise AnalysisError(
                    f"opener classes {rest} have no arm in parse.parse")
            break
        # modifier arms
        for n in ast.walk(self.fn):
            if isinstance(n, ast.If):
                t = n.test
                if isinstance(t, ast.Compare) and len(t.ops) == 1 \
                        and isinstance(t.ops[0], ast.In) \
                        and isinstance(t.comparators[0], ast.Name) \
                        and t.comparators[0].id.endswith("_MODIFIERS"):
                    kinds = set(self._parse_calls(n.body))
                    if len(kinds) != 1:
                        raise AnalysisError("modifier arm parent forms")
                    self.modifier_parent[t.comparators[0].id] = kinds.pop()
                elif isinstance(t, ast.BoolOp):
                    for v in t.values:
                        if isinstance(v, ast.Compare) and len(v.ops) == 1 \
                                and isinstance(v.ops[0], ast.In) \
                                and isinstance(v.comparators[0], ast.Name) \
                                and v.comparators[0].id.endswith("_MODIFIERS"):
                            kinds = set(self._parse_calls(n.body))
                            if len(kinds) != 1:
                                raise AnalysisError("modifier arm parent forms")
                            self.modifier_parent[v.comparators[0].id] = \
                                kinds.pop()
        if len(self.modifier_parent) < 3:
            raise AnalysisError(
                "anchor vanished: the three `head.value in *_MODIFIERS` arms")
        # break / recurse construction
        for n in ast.walk(self.fn):
            if isinstance(n, ast.Call):
                d = dotted(n.func)
                if d == "structure.BreakStatement" and n.args:
                    self.break_parent = self._classify(n.args[0])
                if d == "structure.RecurseStatement" and n.args:
                    self.recurse_parent = self._classify(n.args[0])
        if self.break_parent is None or self.recurse_parent is None:
            raise AnalysisError(
                "anchor vanished: BreakStatement/RecurseStatement "
                "construction in parse.parse")

    @staticmethod
    def _resolve(kind, cls):
        return kind

    @staticmethod
    def _cls_test(test):
        if isinstance(test, ast.Compare) and len(test.ops) == 1 \
                and isinstance(test.ops[0], ast.Eq) \
                and isinstance(test.left, ast.Name) \
                and test.left.id == "structure_cls":
            d = dotted(test.comparators[0])
            if d and d.startswith("structure."):
                return d.split(".", 1)[1]
        return None

    def child(self, cls: str, parent: str | None) -> str | None:
        """Parent handed to the branches of `cls` when `cls` itself was parsed
        under `parent`."""
        kind = self.child_parent.get(cls)
        if kind is None:
            raise AnalysisError(f"no parse arm builds structure.{cls}")
        if kind == "self":
            # `structure_cls` is the class from STRUCTURE_INFORMATION, which
            # for FunctionDef is FunctionCall
            return self.arm_class_of(cls)
        if kind == "inherit_or_self":
            return parent or self.arm_class_of(cls)
        if kind == "inherit":
            return parent
        return kind

    def arm_class_of(self, cls):
        for arm, built in self.built_in_arm.items():
            if cls in built and cls != arm and arm in self.opener_class.values():
                return arm
        return cls

    def stmt_parent(self, which: str, parent):
        kind = self.break_parent if which == "BreakStatement" \
            else self.recurse_parent
        if kind == "inherit":
            return parent
        if kind in ("self", "inherit_or_self"):
            raise AnalysisError(f"{which} is built with parent form {kind}")
        return kind


def Gen_classes():
    from .templates import STRUCT_CLASSES
    return set(STRUCT_CLASSES)


# ---------------------------------------------------------------------------
# shapes
# ---------------------------------------------------------------------------


class Shape:
    """One structure shape with named holes.

    build(gen, fill) -> structure instance, where fill maps hole name to
      None (leave symbolic) or a concrete content (list of structures for
      branch holes, a structure for modifier slots).
    """

    def __init__(self, cls, label, holes, build, spell, slot_holes=()):
        self.cls = cls
        self.label = label
        self.holes = holes  # list of hole names
        self.build = build
        self.spell = spell  # dict hole -> (prefix, suffix) vyxal text
        self.slot_holes = set(slot_holes)

    def role(self, hole):
        return hole.rstrip("0123456789")


def make_shapes(gen: Gen, tier: str, parse_mods: dict[str, list[str]]):
    H = Hole
    shapes: list[Shape] = []
    thorough = tier == "thorough"

    def fillv(fill, name):
        v = fill.get(name)
        return H(name) if v is None else v

    # If
    for n in range(1, (8 if thorough else 5) + 1):
        names = [f"b{i}" for i in range(n)]

        def build(g, fill, names=names):
            return g.struct("IfStatement", *[fillv(fill, x) for x in names])
        spell = {}
        for i, x in enumerate(names):
            pre = "1[" + "|".join("1" for _ in range(i)) + ("|" if i else "")
            post = "".join("|1" for _ in range(n - i - 1)) + "]"
            spell[x] = (pre, post)
        shapes.append(Shape("IfStatement", f"If/{n}", names, build, spell))
    # For
    for nm, src in (([], "3("), (["x"], "3(x|"), ([""], "3(|"),
                    (["a", "b"], "3(a|b|")):
        def build(g, fill, nm=nm):
            return g.struct("ForLoop", list(nm), fillv(fill, "body"))
        shapes.append(Shape("ForLoop", f"For/{len(nm)}names", ["body"], build,
                            {"body": (src, ")")}))
    # While

    def build_w1(g, fill):
        return g.struct("WhileLoop", [g.token("NUMBER", "1")],
                        fillv(fill, "body"))
    shapes.append(Shape("WhileLoop", "While/infinite", ["body"], build_w1,
                        {"body": ("{", "}")}))

    def build_w2(g, fill):
        return g.struct("WhileLoop", fillv(fill, "cond"), fillv(fill, "body"))
    shapes.append(Shape("WhileLoop", "While/cond", ["cond", "body"], build_w2,
                        {"cond": ("{", "|1}"), "body": ("{1|", "}")}))
    # FunctionCall
    for name in ("f", "", "a_1", "9"):
        def build(g, fill, name=name):
            return g.struct("FunctionCall", name)
        shapes.append(Shape("FunctionCall", f"Call/{name!r}", [], build, {}))
    # FunctionDef
    atoms = ["2", "x", "*"]
    plists = [[]] + [[a] for a in atoms] + [[a, b] for a in atoms
                                            for b in atoms]
    if thorough:
        plists += [[a, b, c] for a in atoms for b in atoms for c in atoms]
        plists += [["0"], ["10", "y_z"], ["A9"]]
    for pl in plists:
        def build(g, fill, pl=pl):
            return g.struct("FunctionDef", "f", list(pl), fillv(fill, "body"))
        src = "@f" + "".join(":" + p for p in pl) + "|"
        shapes.append(Shape("FunctionDef", f"Def/{':'.join(pl) or '-'}",
                            ["body"], build, {"body": (src, ";")}))
    # Lambda
    for ar, src in ((0, "λ0|"), (1, "λ1|"), (2, "λ2|"), (3, "λ3|"),
                    ("default", "λ")):
        def build(g, fill, ar=ar):
            return g.struct("Lambda", ar, fillv(fill, "body"))
        shapes.append(Shape("Lambda", f"Lambda/{ar}", ["body"], build,
                            {"body": (src, ";")}))
    for cls, op in (("LambdaMap", "ƛ"), ("LambdaFilter", "'"),
                    ("LambdaSort", "µ")):
        def build(g, fill, cls=cls):
            return g.struct(cls, fillv(fill, "body"))
        shapes.append(Shape(cls, cls, ["body"], build, {"body": (op, ";")}))
    # ListLiteral
    for n in range(0, (4 if thorough else 2) + 1):
        names = [f"item{i}" for i in range(n)]

        def build(g, fill, names=names):
            return g.struct("ListLiteral", *[fillv(fill, x) for x in names])
        spell = {}
        for i, x in enumerate(names):
            spell[x] = ("⟨" + "".join("1|" for _ in range(i)),
                        "".join("|1" for _ in range(n - i - 1)) + "⟩")
        shapes.append(Shape("ListLiteral", f"List/{n}", names, build, spell))
    # modifiers: slots are single structures
    slotnames = ["A", "B", "C"]
    for lname, cls, k in (("MONADIC_MODIFIERS", "MonadicModifier", 1),
                          ("DYADIC_MODIFIERS", "DyadicModifier", 2),
                          ("TRIADIC_MODIFIERS", "TriadicModifier", 3)):
        for key in parse_mods[lname] + ["<unknown>"]:
            names = slotnames[:k]

            def build(g, fill, cls=cls, key=key, names=names):
                slots = []
                for x in names:
                    v = fill.get(x)
                    slots.append(g.hole_struct(x) if v is None else v)
                return g.struct(cls, key, *slots)
            spell = {}
            for i, x in enumerate(names):
                spell[x] = (key + "+" * i, "+" * (k - i - 1))
            shapes.append(Shape(cls, f"{cls}/{key}", names, build, spell,
                                slot_holes=names))
    # the lambda-forming modifiers build Lambda(1, [s1..sk]) in the parser
    for k, key in ((1, "⁽"), (2, "‡"), (3, "≬")):
        names = slotnames[:k]

        def build(g, fill, names=names):
            body = []
            for x in names:
                v = fill.get(x)
                body.append(g.hole_struct(x) if v is None else v)
            return g.struct("Lambda", 1, body)
        spell = {}
        for i, x in enumerate(names):
            spell[x] = (key + "+" * i, "+" * (k - i - 1))
        shapes.append(Shape("Lambda", f"LambdaOf/{k}", names, build, spell,
                            slot_holes=names))
    return shapes


# ---------------------------------------------------------------------------
# exploration
# ---------------------------------------------------------------------------


class State:
    __slots__ = ("parent", "defkind", "in_loop", "h_def", "h_loop", "pre",
                 "post", "depth", "loop_depth")

    def __init__(self, parent, defkind, in_loop, h_def, h_loop, pre="",
                 post="", depth=0, loop_depth=0):
        self.loop_depth = loop_depth
        self.parent = parent
        self.defkind = defkind
        self.in_loop = in_loop
        self.h_def = h_def
        self.h_loop = h_loop
        self.pre = pre
        self.post = post
        self.depth = depth

    def key(self):
        return (self.parent, self.defkind, self.in_loop, self.h_def,
                self.h_loop)

    def describe(self):
        return (f"parent={self.parent} def={self.defkind} "
                f"in_loop={self.in_loop} pushed-since-def={fmt(self.h_def)}"
                + (f" pushed-since-loop={fmt(self.h_loop)}"
                   if self.h_loop is not None else ""))


def wrapper(state: State, text: str) -> str:
    lines = []
    ind = 0
    if state.defkind != "top":
        lines.append("def _w(stack, ctx, arg_stack=None, self=None):")
        ind += 1
    if state.in_loop:
        lines.append("    " * ind + "for _ in ():")
        ind += 1
    return "\n".join(lines) + ("\n" if lines else "") + textwrap.indent(
        text, "    " * ind)


class Result:
    """One generated text (state independent)."""

    def __init__(self):
        self.text = None
        self.raised = None
        self.tree = None
        self.free_exits = True

    def scan(self):
        """Does the text contain break/continue/return not enclosed by a
        loop / def of its own?"""
        def walk(stmts, in_loop, in_def):
            for st in stmts:
                if isinstance(st, (ast.Break, ast.Continue)) and not in_loop:
                    return True
                if isinstance(st, ast.Return) and not in_def:
                    return True
                if isinstance(st, ast.FunctionDef):
                    if walk(st.body, False, True):
                        return True
                elif isinstance(st, (ast.For, ast.While)):
                    if walk(st.body, True, in_def) or walk(
                            st.orelse, in_loop, in_def):
                        return True
                else:
                    for f in ("body", "orelse", "finalbody"):
                        if walk(getattr(st, f, []) or [], in_loop, in_def):
                            return True
                    for hd in getattr(st, "handlers", []) or []:
                        if walk(hd.body, in_loop, in_def):
                            return True
            return False
        self.free_exits = self.tree is None or walk(self.tree.body, False,
                                                    False)


class Verdict:
    """A text evaluated in one hole state."""

    def __init__(self):
        self.compile_error = None
        self.issues = []
        self.holes = []

    @property
    def bad(self):
        return bool(self.compile_error or self.issues)


class Record:
    def __init__(self, state, shape, hole, probe, result, verdict, witness,
                 inherited=False):
        self.state = state
        self.shape = shape
        self.hole = hole
        self.probe = probe
        self.result = result
        self.verdict = verdict
        self.witness = witness
        self.inherited = inherited

    def construct(self):
        role = self.shape.role(self.hole) if self.hole else "-"
        return f"{self.shape.cls}/{role}/{self.probe}"


MOD_SPELL = {"MonadicModifier": "v+", "DyadicModifier": "₌++",
             "TriadicModifier": "≬+++"}


class Explorer:
    def __init__(self, repo: Repo, tier: str, gen: Gen | None = None):
        self.repo = repo
        self.tier = tier
        self.gen = gen or Gen(repo)
        self.rel = ParseRelation(repo, self.gen)
        pp = self.gen.it.module("vyxal.parse")
        self.parse_mods = {n: list(pp.get(n)) for n in (
            "MONADIC_MODIFIERS", "DYADIC_MODIFIERS", "TRIADIC_MODIFIERS")}
        self.mod_parent_of_cls = {
            "MonadicModifier": self.rel.modifier_parent["MONADIC_MODIFIERS"],
            "DyadicModifier": self.rel.modifier_parent["DYADIC_MODIFIERS"],
            "TriadicModifier": self.rel.modifier_parent["TRIADIC_MODIFIERS"],
        }
        self.tail_parents = tuple(dict.fromkeys(
            self.mod_parent_of_cls.values()))
        self.shapes = make_shapes(self.gen, tier, self.parse_mods)
        self.states: dict[tuple, State] = {}
        self.cache: dict[tuple, Result] = {}
        self.n_compiled = 0
        self.n_evaluated = 0
        self.records: list[Record] = []
        self.bare_cache = {}
        self.verdicts = {}
        self.compiled = {}
        self._keep = []
        # loops nested inside one def: each further level adds the same
        # constant vector to the since-def height and resets the since-loop
        # height, so levels beyond the bound are uniform
        self.max_loop_depth = 3 if tier == "thorough" else 2
        self.capped = 0

    # -- generation (state independent, cached) ----------------------------------
    def generate(self, shape: Shape, hole, probe_label, mk) -> Result:
        key = (shape.label, hole, probe_label)
        if key in self.cache:
            return self.cache[key]
        r = Result()
        try:
            fill = {}
            if hole is not None:
                fill[hole] = mk(self.gen)
            struct = shape.build(self.gen, fill)
            r.text = self.gen.transpile_ast([struct], 0)
        except GeneratorRaised as exc:
            r.raised = exc
        if r.text is not None:
            try:
                r.tree = ast.parse(r.text)
            except SyntaxError:
                r.tree = None
            r.scan()
        self.cache[key] = r
        return r

    def evaluate(self, state: State, r: Result) -> Verdict:
        if r.text is None:
            return Verdict()
        ckey = (id(r), state.defkind, state.in_loop, state.h_def,
                state.h_loop, state.loop_depth)
        if ckey in self.verdicts:
            return self.verdicts[ckey]
        v = Verdict()
        self.verdicts[ckey] = v
        self.n_evaluated += 1
        # the python context only matters for compile() when the text has a
        # break/continue/return that is not enclosed by its own loop/def
        wkey = (id(r), state.defkind != "top", state.in_loop) \
            if r.free_exits else (id(r),)
        if wkey not in self.compiled:
            wrapped = wrapper(state, r.text) if r.free_exits else r.text
            try:
                compile(wrapped, "<generated>", "exec")
                self.n_compiled += 1
                self.compiled[wkey] = None
            except SyntaxError as exc:
                self.compiled[wkey] = (
                    f"{exc.msg} (line {exc.lineno}: "
                    f"{(exc.text or '').strip()})")
        if self.compiled[wkey]:
            v.compile_error = self.compiled[wkey]
            return v
        ha = HeightAnalysis()
        ha.run_text(r.tree.body, state.defkind, state.in_loop, state.h_def,
                    state.h_loop, state.loop_depth)
        v.issues = ha.issues
        v.holes = ha.holes
        return v

    # -- probes --------------------------------------------------------------------
    def probes(self, parent):
        """Early-exit statements admissible at a position whose parse parent
        is `parent` (its own parent's lowering, and - because everything after
        a modifier is parsed under the modifier class - the modifier ones)."""
        out = []
        seen = set()
        cands = [(parent, "")] + [(m, MOD_SPELL.get(m, "v+"))
                                  for m in self.tail_parents]
        for q, pre in cands:
            for which, ch in (("BreakStatement", "X"),
                              ("RecurseStatement", "x")):
                p = self.rel.stmt_parent(which, q)
                if (which, p) in seen:
                    continue
                seen.add((which, p))

                def b(g, which=which, p=p):
                    return g.struct(which, g.cls(p))
                out.append((f"{which}({p})", b, pre + ch))
        return out

    def bare(self, state: State, label, mk):
        """Does the bare early-exit statement already fail in `state`?"""
        key = (state.key(), label)
        if key not in self.bare_cache:
            r = Result()
            try:
                r.text = self.gen.transpile_ast([mk(self.gen)], 0)
                r.tree = ast.parse(r.text)
                r.scan()
            except GeneratorRaised as exc:
                r.raised = exc
            self._keep.append(r)
            self.bare_cache[key] = self.evaluate(state, r)
        return self.bare_cache[key]

    def child_parent(self, shape, st):
        if shape.cls in MOD_CLASSES:
            return self.mod_parent_of_cls[shape.cls]
        if shape.label.startswith("LambdaOf"):
            return self.mod_parent_of_cls[MOD_CLASSES[len(shape.holes) - 1]]
        return self.rel.child(shape.cls, st.parent)

    def explore(self, max_states=600):
        work = []
        for par, pre in [(None, "")] + [(m, MOD_SPELL.get(m, ""))
                                        for m in self.tail_parents]:
            s0 = State(par, "top", False, ZERO, None, pre, "")
            self.states[s0.key()] = s0
            work.append(s0)
        while work:
            st = work.pop(0)
            for shape in self.shapes:
                base = self.generate(shape, None, "skeleton", None)
                vb = self.evaluate(st, base)
                self.records.append(Record(st, shape, None, "skeleton", base,
                                           vb, st.pre + st.post))
                if base.text is None or vb.compile_error:
                    continue
                cpar = self.child_parent(shape, st)
                by_name = {}
                for hc in vb.holes:
                    by_name.setdefault(hc.name, []).append(hc)
                for h in shape.holes:
                    if h not in by_name:
                        raise AnalysisError(
                            f"hole {h} of {shape.label} does not appear in "
                            "the generated text")
                    pre, post = shape.spell.get(h, ("", ""))
                    slot = h in shape.slot_holes
                    plist = []
                    if not slot:
                        plist.append(("empty", lambda g: [], ""))
                    for label, mk, sp in self.probes(cpar):
                        plist.append((label, mk if slot else
                                      (lambda g, mk=mk: [mk(g)]), sp, mk))
                    if slot:
                        plist.append((
                            "slot-lambda",
                            lambda g: g.struct("Lambda", 2, Hole("inner")),
                            "λ2|1;"))
                        for ar, el in self.sample_leaves():
                            plist.append((
                                f"slot-leaf/arity{ar}",
                                lambda g, el=el: g.generic("GENERAL", el), el))
                        plist.append(("slot-literal",
                                      lambda g: g.generic("NUMBER", "5"), "5"))
                        plist.append(("slot-character",
                                      lambda g: g.generic("CHARACTER", "+"),
                                      "\\+"))
                        plist.append(("slot-varset",
                                      lambda g: g.generic("VARIABLE_SET", "x"),
                                      "→x"))
                    for item in plist:
                        label, mk, sp = item[0], item[1], item[2]
                        r = self.generate(shape, h, label, mk)
                        v = self.evaluate(st, r)
                        inherited = False
                        if v.bad and len(item) == 4:
                            # same frame as the enclosing position and the
                            # bare statement already fails there: the cause
                            # lies further out
                            hc0 = by_name[h][0]
                            same = (len(by_name[h]) == 1
                                    and hc0.nested_defs == 0
                                    and hc0.in_loop == st.in_loop
                                    and hc0.h_def == st.h_def
                                    and hc0.h_loop == st.h_loop
                                    and cpar == st.parent)
                            if same and self.bare(st, label, item[3]).bad:
                                inherited = True
                        self.records.append(Record(
                            st, shape, h, label, r, v,
                            st.pre + pre + sp + post + st.post, inherited))
                    for hc in by_name[h]:
                        for par in dict.fromkeys((cpar,) + self.tail_parents):
                            mpre = "" if par == cpar else MOD_SPELL.get(par, "")
                            ns = State(
                                par, hc.defkind,
                                hc.in_loop, hc.h_def, hc.h_loop,
                                st.pre + pre + mpre, post + st.post,
                                st.depth + 1, hc.loop_depth)
                            if ns.key() in self.states:
                                continue
                            if hc.loop_depth > self.max_loop_depth:
                                self.capped += 1
                                continue
                            if len(self.states) >= max_states:
                                raise AnalysisError(
                                    "hole-state space did not close within "
                                    f"{max_states} states")
                            if any(not -3 <= x <= 6 for x in ns.h_def):
                                continue  # runaway caused by a reported defect
                            self.states[ns.key()] = ns
                            work.append(ns)
        return self

    def sample_leaves(self):
        """One table element per arity value present in the table."""
        if not hasattr(self, "_leaves"):
            by = {}
            for k, v in self.gen.elements().items():
                if isinstance(v, tuple) and len(v) == 2:
                    by.setdefault(v[1], k)
            self._leaves = sorted(by.items(), key=lambda kv: str(kv[0]))
        return self._leaves
