"""E2 - generated-code grammar closure.

* `ParseRelation`: which `parent` the parser hands to the branches of each
  structure class (read off the recursive `parse(...)` calls in parse.parse).
* `Shapes`: the finite family of structure shapes (branch counts, parameter
  shapes, modifier keys) with symbolic holes.
* `Explorer`: worklist over *hole states*; for every state x shape x hole x
  early-exit lowering it produces the exact generated text (via templates.Gen),
  compiles it in a wrapper reproducing the python context (compile-fail
  witness) and runs the height analysis.
"""

from __future__ import annotations

import ast
import textwrap

from .core import AnalysisError, Repo, dotted
from .heights import HeightAnalysis, ZERO, CTX_LISTS, fmt, vadd
from .pe import Hole
from .templates import Gen, GeneratorRaised, MARK

MOD_CLASSES = ("MonadicModifier", "DyadicModifier", "TriadicModifier")


# ---------------------------------------------------------------------------
# parent propagation, from parse.py
# ---------------------------------------------------------------------------


class ParseRelation:
    """Which `parent` the parser hands to each branch of each structure, and to
    the structures that follow a modifier - obtained by interpreting the
    current parse.py on tiny token lists whose branches are a lone break
    token and reading `parent_structure` off the resulting BreakStatement.
    (Semantic extraction: independent of how parse() is written.)"""

    HOLE_FIELDS = {"condition": "cond", "body": "body", "items": "item",
                   "branches": "b", "truthy": "b", "falsey": "b",
                   "inbetween": "b"}

    def __init__(self, repo: Repo, gen: Gen):
        self.repo = repo
        self.gen = gen
        pp = gen.it.module("vyxal.parse")
        self.pp = pp
        self.parse = pp.get("parse")
        info = pp.get("STRUCTURE_INFORMATION")
        self.opener_class = {k: v[0].name for k, v in info.items()}
        self.closer = {k: v[1] for k, v in info.items()}
        unknown = [c for c in self.opener_class.values()
                   if c not in Gen_classes()]
        if unknown:
            raise AnalysisError(
                f"structure classes {unknown} are new: the shape family "
                "does not cover them")
        self.brk = pp.get("BREAK_CHARACTER")
        self.rec = pp.get("RECURSE_CHARACTER")
        self.mod_lists = {n: list(pp.get(n)) for n in (
            "MONADIC_MODIFIERS", "DYADIC_MODIFIERS", "TRIADIC_MODIFIERS")}
        self._memo = {}
        self._mod_memo = {}
        self.modifier_parent = {}
        for lname, lst in self.mod_lists.items():
            ps = {self._modifier_parents(m, None)[0] for m in lst}
            if len(ps) != 1:
                raise AnalysisError(
                    f"modifiers of {lname} hand different parents to their "
                    f"operands: {sorted(map(str, ps))}")
            self.modifier_parent[lname] = ps.pop()
        # break / recurse statements carry the parent they were parsed under
        for which, ch in (("BreakStatement", self.brk),
                          ("RecurseStatement", self.rec)):
            for par in (None, "ForLoop", "Lambda"):
                got = self._parse_tokens([self._g(ch)], par)
                ok = len(got) == 1 and got[0].cls.name == which and \
                    self._pname(got[0].d.get("parent_structure")) == par
                if not ok:
                    raise AnalysisError(
                        f"{which} no longer records the parent it was parsed "
                        f"under (parent {par})")

    # -- helpers -----------------------------------------------------------------
    def _g(self, v):
        return self.gen.token("GENERAL", v)

    @staticmethod
    def _pname(p):
        return None if p is None else getattr(p, "name", str(p))

    def _parse_tokens(self, toks, parent):
        from .pe import PRaise  # noqa: PLC0415
        self.gen.it.steps = 0
        try:
            return list(self.parse(list(toks), self.gen.cls(parent)))
        except PRaise as exc:
            raise AnalysisError(
                f"parse() raised {exc} on a grammar-derived token list")

    def _breaks_in(self, value):
        """parents recorded by BreakStatements found (recursively) in value"""
        out = []
        if isinstance(value, (list, tuple)):
            for v in value:
                out += self._breaks_in(v)
        elif hasattr(value, "cls") and hasattr(value, "d"):
            if value.cls.name == "BreakStatement":
                out.append(self._pname(value.d.get("parent_structure")))
            else:
                for k, v in value.d.items():
                    if k != "branches" or "body" not in value.d:
                        out += self._breaks_in(v)
        return out

    def _probe(self, opener, n_branches, parent):
        toks = [self._g(opener)]
        cls0 = self.opener_class[opener]
        first_is_meta = cls0 in ("FunctionCall", "Lambda") and n_branches > 1
        for i in range(n_branches):
            if i:
                toks.append(self._g("|"))
            if i == 0 and first_is_meta:
                toks.append(self.gen.token("NUMBER", "1")
                            if cls0 == "Lambda" else self._g("f"))
            elif i < n_branches - 1 and cls0 == "ForLoop":
                toks.append(self._g("v"))
            else:
                toks.append(self._g(self.brk))
        toks.append(self._g(self.closer[opener]))
        return self._parse_tokens(toks, parent)

    def relation(self, parent):
        """{(built class, hole role): child parent} under incoming `parent`"""
        if parent in self._memo:
            return self._memo[parent]
        rel = {}
        for opener, cls0 in self.opener_class.items():
            for nb in (1, 2, 3):
                res = self._probe(opener, nb, parent)
                if not res:
                    continue
                st = res[0]
                built = st.cls.name
                fields = dict(st.d)
                if "lam" in fields and hasattr(fields["lam"], "d"):
                    fields["body"] = fields["lam"].d.get("body")
                for fname, role in self.HOLE_FIELDS.items():
                    if fname not in fields:
                        continue
                    if fname == "branches" and any(
                            k in fields for k in ("body", "items", "truthy")):
                        continue
                    ps = set(self._breaks_in(fields[fname]))
                    for p in ps:
                        key = (built, role)
                        if key in rel and rel[key] != p:
                            raise AnalysisError(
                                f"{built}/{role} receives different parents "
                                f"({rel[key]} / {p}) under parent {parent}")
                        rel[key] = p
        self._memo[parent] = rel
        return rel

    def _modifier_parents(self, m, parent):
        """(parent handed to the operands, parent of the structures after)"""
        key = (m, parent)
        if key not in self._mod_memo:
            toks = [self._g(m)] + [self._g(self.brk) for _ in range(5)]
            res = self._parse_tokens(toks, parent)
            ps = self._breaks_in(res)
            if not ps:
                raise AnalysisError(f"modifier {m!r}: no operand parsed")
            if len(set(ps)) != 1:
                raise AnalysisError(
                    f"modifier {m!r} hands different parents to what follows "
                    f"it: {sorted(map(str, set(ps)))}")
            self._mod_memo[key] = (ps[0], ps[-1])
        return self._mod_memo[key]

    def child(self, cls: str, parent, hole_role="body"):
        rel = self.relation(parent)
        for role in (hole_role, "body", "b", "item", "cond"):
            if (cls, role) in rel:
                return rel[(cls, role)]
        raise AnalysisError(f"no parse probe builds structure.{cls}")

    def stmt_parent(self, which: str, parent):
        return parent


def Gen_classes():
    from .templates import STRUCT_CLASSES
    return set(STRUCT_CLASSES)


# ---------------------------------------------------------------------------
# shapes
# ---------------------------------------------------------------------------


class Shape:
    """One structure shape with named holes.

    build(gen, fill) -> structure instance, where fill maps hole name to
      None (leave symbolic) or a concrete content (list of structures for
      branch holes, a structure for modifier slots).
    """

    def __init__(self, cls, label, holes, build, spell, slot_holes=()):
        self.cls = cls
        self.label = label
        self.holes = holes  # list of hole names
        self.build = build
        self.spell = spell  # dict hole -> (prefix, suffix) vyxal text
        self.slot_holes = set(slot_holes)

    def role(self, hole):
        return hole.rstrip("0123456789")


def make_shapes(gen: Gen, tier: str, parse_mods: dict[str, list[str]]):
    H = Hole
    shapes: list[Shape] = []
    thorough = tier == "thorough"

    def fillv(fill, name):
        v = fill.get(name)
        return H(name) if v is None else v

    # If
    for n in range(1, (8 if thorough else 5) + 1):
        names = [f"b{i}" for i in range(n)]

        def build(g, fill, names=names):
            return g.struct("IfStatement", *[fillv(fill, x) for x in names])
        spell = {}
        for i, x in enumerate(names):
            pre = "1[" + "|".join("1" for _ in range(i)) + ("|" if i else "")
            post = "".join("|1" for _ in range(n - i - 1)) + "]"
            spell[x] = (pre, post)
        shapes.append(Shape("IfStatement", f"If/{n}", names, build, spell))
    # For
    for nm, src in (([], "3("), (["x"], "3(x|"), ([""], "3(|"),
                    (["a", "b"], "3(a|b|")):
        def build(g, fill, nm=nm):
            return g.struct("ForLoop", list(nm), fillv(fill, "body"))
        shapes.append(Shape("ForLoop", f"For/{len(nm)}names", ["body"], build,
                            {"body": (src, ")")}))
    # While

    def build_w1(g, fill):
        return g.struct("WhileLoop", [g.token("NUMBER", "1")],
                        fillv(fill, "body"))
    shapes.append(Shape("WhileLoop", "While/infinite", ["body"], build_w1,
                        {"body": ("{", "}")}))

    def build_w2(g, fill):
        return g.struct("WhileLoop", fillv(fill, "cond"), fillv(fill, "body"))
    shapes.append(Shape("WhileLoop", "While/cond", ["cond", "body"], build_w2,
                        {"cond": ("{", "|1}"), "body": ("{1|", "}")}))
    # FunctionCall
    # names as the lexer can hand them over: identifier characters, nothing,
    # a leading digit, and code-page / Unicode characters that are alphanumeric
    # for str methods and \w but not for a python identifier
    for name in ("f", "", "a_1", "9", "f²", "λ", "½x₁"):
        def build(g, fill, name=name):
            return g.struct("FunctionCall", name)
        shapes.append(Shape("FunctionCall", f"Call/{name!r}", [], build, {}))
    # FunctionDef
    atoms = ["2", "x", "*"]
    plists = [[]] + [[a] for a in atoms] + [[a, b] for a in atoms
                                            for b in atoms]
    if thorough:
        plists += [[a, b, c] for a in atoms for b in atoms for c in atoms]
        plists += [["0"], ["10", "y_z"], ["A9"]]
    for pl in plists:
        def build(g, fill, pl=pl):
            return g.struct("FunctionDef", "f", list(pl), fillv(fill, "body"))
        src = "@f" + "".join(":" + p for p in pl) + "|"
        shapes.append(Shape("FunctionDef", f"Def/{':'.join(pl) or '-'}",
                            ["body"], build, {"body": (src, ";")}))
    for fname in ("g²", "λ"):
        def build(g, fill, fname=fname):
            return g.struct("FunctionDef", fname, ["x"], fillv(fill, "body"))
        shapes.append(Shape("FunctionDef", f"Def/name={fname}", ["body"],
                            build, {"body": ("@" + fname + ":x|", ";")}))
    # Lambda
    for ar, src in ((0, "λ0|"), (1, "λ1|"), (2, "λ2|"), (3, "λ3|"),
                    ("default", "λ")):
        def build(g, fill, ar=ar):
            return g.struct("Lambda", ar, fillv(fill, "body"))
        shapes.append(Shape("Lambda", f"Lambda/{ar}", ["body"], build,
                            {"body": (src, ";")}))
    from .templates import LAMBDA_OP_EXTRA
    extra_ops = []
    if LAMBDA_OP_EXTRA:
        info = gen.it.module("vyxal.parse").get("STRUCTURE_INFORMATION")
        for op_, v_ in info.items():
            if v_[0].name in LAMBDA_OP_EXTRA:
                extra_ops.append((v_[0].name, op_))
    for cls, op in [("LambdaMap", "ƛ"), ("LambdaFilter", "'"),
                    ("LambdaSort", "µ")] + extra_ops:
        def build(g, fill, cls=cls):
            return g.struct(cls, fillv(fill, "body"))
        shapes.append(Shape(cls, cls, ["body"], build, {"body": (op, ";")}))
    # ListLiteral
    for n in range(0, (4 if thorough else 2) + 1):
        names = [f"item{i}" for i in range(n)]

        def build(g, fill, names=names):
            return g.struct("ListLiteral", *[fillv(fill, x) for x in names])
        spell = {}
        for i, x in enumerate(names):
            spell[x] = ("⟨" + "".join("1|" for _ in range(i)),
                        "".join("|1" for _ in range(n - i - 1)) + "⟩")
        shapes.append(Shape("ListLiteral", f"List/{n}", names, build, spell))
    # modifiers: slots are single structures
    slotnames = ["A", "B", "C"]
    for lname, cls, k in (("MONADIC_MODIFIERS", "MonadicModifier", 1),
                          ("DYADIC_MODIFIERS", "DyadicModifier", 2),
                          ("TRIADIC_MODIFIERS", "TriadicModifier", 3)):
        for key in parse_mods[lname] + ["<unknown>"]:
            names = slotnames[:k]

            def build(g, fill, cls=cls, key=key, names=names):
                slots = []
                for x in names:
                    v = fill.get(x)
                    slots.append(g.hole_struct(x) if v is None else v)
                return g.struct(cls, key, *slots)
            spell = {}
            for i, x in enumerate(names):
                spell[x] = (key + "+" * i, "+" * (k - i - 1))
            shapes.append(Shape(cls, f"{cls}/{key}", names, build, spell,
                                slot_holes=names))
    # the lambda-forming modifiers build Lambda(1, [s1..sk]) in the parser
    for k, key in ((1, "⁽"), (2, "‡"), (3, "≬")):
        names = slotnames[:k]

        def build(g, fill, names=names):
            body = []
            for x in names:
                v = fill.get(x)
                body.append(g.hole_struct(x) if v is None else v)
            return g.struct("Lambda", 1, body)
        spell = {}
        for i, x in enumerate(names):
            spell[x] = (key + "+" * i, "+" * (k - i - 1))
        shapes.append(Shape("Lambda", f"LambdaOf/{k}", names, build, spell,
                            slot_holes=names))
    return shapes


# ---------------------------------------------------------------------------
# exploration
# ---------------------------------------------------------------------------


class State:
    __slots__ = ("parent", "defkind", "in_loop", "h_def", "h_loop", "pre",
                 "post", "depth", "loop_depth")

    def __init__(self, parent, defkind, in_loop, h_def, h_loop, pre="",
                 post="", depth=0, loop_depth=0):
        self.loop_depth = loop_depth
        self.parent = parent
        self.defkind = defkind
        self.in_loop = in_loop
        self.h_def = h_def
        self.h_loop = h_loop
        self.pre = pre
        self.post = post
        self.depth = depth

    def key(self):
        return (self.parent, self.defkind, self.in_loop, self.h_def,
                self.h_loop)

    def describe(self):
        return (f"parent={self.parent} def={self.defkind} "
                f"in_loop={self.in_loop} pushed-since-def={fmt(self.h_def)}"
                + (f" pushed-since-loop={fmt(self.h_loop)}"
                   if self.h_loop is not None else ""))


def wrapper(state: State, text: str) -> str:
    lines = []
    ind = 0
    if state.defkind != "top":
        lines.append("def _w(stack, ctx, arg_stack=None, self=None):")
        ind += 1
    if state.in_loop:
        lines.append("    " * ind + "for _ in ():")
        ind += 1
    return "\n".join(lines) + ("\n" if lines else "") + textwrap.indent(
        text, "    " * ind)


class Result:
    """One generated text (state independent)."""

    def __init__(self):
        self.text = None
        self.raised = None
        self.tree = None
        self.free_exits = True

    def scan(self):
        """Does the text contain break/continue/return not enclosed by a
        loop / def of its own?"""
        def walk(stmts, in_loop, in_def):
            for st in stmts:
                if isinstance(st, (ast.Break, ast.Continue)) and not in_loop:
                    return True
                if isinstance(st, ast.Return) and not in_def:
                    return True
                if isinstance(st, ast.FunctionDef):
                    if walk(st.body, False, True):
                        return True
                elif isinstance(st, (ast.For, ast.While)):
                    if walk(st.body, True, in_def) or walk(
                            st.orelse, in_loop, in_def):
                        return True
                else:
                    for f in ("body", "orelse", "finalbody"):
                        if walk(getattr(st, f, []) or [], in_loop, in_def):
                            return True
                    for hd in getattr(st, "handlers", []) or []:
                        if walk(hd.body, in_loop, in_def):
                            return True
            return False
        self.free_exits = self.tree is None or walk(self.tree.body, False,
                                                    False)


class Verdict:
    """A text evaluated in one hole state."""

    def __init__(self):
        self.compile_error = None
        self.issues = []
        self.holes = []

    @property
    def bad(self):
        return bool(self.compile_error or self.issues)


class Record:
    def __init__(self, state, shape, hole, probe, result, verdict, witness,
                 inherited=False):
        self.state = state
        self.shape = shape
        self.hole = hole
        self.probe = probe
        self.result = result
        self.verdict = verdict
        self.witness = witness
        self.inherited = inherited

    def construct(self):
        role = self.shape.role(self.hole) if self.hole else "-"
        return f"{self.shape.cls}/{role}/{self.probe}"


MOD_SPELL = {"MonadicModifier": "v+", "DyadicModifier": "₌++",
             "TriadicModifier": "≬+++"}


class Explorer:
    def __init__(self, repo: Repo, tier: str, gen: Gen | None = None):
        self.repo = repo
        self.tier = tier
        self.gen = gen or Gen(repo)
        self.rel = ParseRelation(repo, self.gen)
        pp = self.gen.it.module("vyxal.parse")
        self.parse_mods = {n: list(pp.get(n)) for n in (
            "MONADIC_MODIFIERS", "DYADIC_MODIFIERS", "TRIADIC_MODIFIERS")}
        self.mod_parent_of_cls = {
            "MonadicModifier": self.rel.modifier_parent["MONADIC_MODIFIERS"],
            "DyadicModifier": self.rel.modifier_parent["DYADIC_MODIFIERS"],
            "TriadicModifier": self.rel.modifier_parent["TRIADIC_MODIFIERS"],
        }
        self.tail_parents = tuple(dict.fromkeys(
            self.mod_parent_of_cls.values()))
        self.shapes = make_shapes(self.gen, tier, self.parse_mods)
        self.states: dict[tuple, State] = {}
        self.cache: dict[tuple, Result] = {}
        self.n_compiled = 0
        self.n_evaluated = 0
        self.records: list[Record] = []
        self.bare_cache = {}
        self.verdicts = {}
        self.compiled = {}
        self._keep = []
        # loops nested inside one def: each further level adds the same
        # constant vector to the since-def height and resets the since-loop
        # height, so levels beyond the bound are uniform
        self.max_loop_depth = 3 if tier == "thorough" else 2
        self.capped = 0

    # -- generation (state independent, cached) ----------------------------------
    def generate(self, shape: Shape, hole, probe_label, mk) -> Result:
        key = (shape.label, hole, probe_label)
        if key in self.cache:
            return self.cache[key]
        r = Result()
        try:
            fill = {}
            if hole is not None:
                fill[hole] = mk(self.gen)
            struct = shape.build(self.gen, fill)
            r.text = self.gen.transpile_ast([struct], 0)
        except GeneratorRaised as exc:
            r.raised = exc
        if r.text is not None:
            try:
                r.tree = ast.parse(r.text)
            except SyntaxError:
                r.tree = None
            r.scan()
        self.cache[key] = r
        return r

    def evaluate(self, state: State, r: Result) -> Verdict:
        if r.text is None:
            return Verdict()
        ckey = (id(r), state.defkind, state.in_loop, state.h_def,
                state.h_loop, state.loop_depth)
        if ckey in self.verdicts:
            return self.verdicts[ckey]
        v = Verdict()
        self.verdicts[ckey] = v
        self.n_evaluated += 1
        # the python context only matters for compile() when the text has a
        # break/continue/return that is not enclosed by its own loop/def
        wkey = (id(r), state.defkind != "top", state.in_loop) \
            if r.free_exits else (id(r),)
        if wkey not in self.compiled:
            wrapped = wrapper(state, r.text) if r.free_exits else r.text
            try:
                compile(wrapped, "<generated>", "exec")
                self.n_compiled += 1
                self.compiled[wkey] = None
            except SyntaxError as exc:
                self.compiled[wkey] = (
                    f"{exc.msg} (line {exc.lineno}: "
                    f"{(exc.text or '').strip()})")
        if self.compiled[wkey]:
            v.compile_error = self.compiled[wkey]
            return v
        ha = HeightAnalysis()
        ha.run_text(r.tree.body, state.defkind, state.in_loop, state.h_def,
                    state.h_loop, state.loop_depth)
        v.issues = ha.issues
        v.holes = ha.holes
        return v

    # -- probes --------------------------------------------------------------------
    def probes(self, parent):
        """Early-exit statements admissible at a position whose parse parent
        is `parent` (its own parent's lowering, and - because everything after
        a modifier is parsed under the modifier class - the modifier ones)."""
        out = []
        seen = set()
        cands = [(parent, "")] + [(m, MOD_SPELL.get(m, "v+"))
                                  for m in self.tail_parents]
        for q, pre in cands:
            for which, ch in (("BreakStatement", "X"),
                              ("RecurseStatement", "x")):
                p = self.rel.stmt_parent(which, q)
                if (which, p) in seen:
                    continue
                seen.add((which, p))

                def b(g, which=which, p=p):
                    return g.struct(which, g.cls(p))
                out.append((f"{which}({p})", b, pre + ch))
        return out

    def bare(self, state: State, label, mk):
        """Does the bare early-exit statement already fail in `state`?"""
        key = (state.key(), label)
        if key not in self.bare_cache:
            r = Result()
            try:
                r.text = self.gen.transpile_ast([mk(self.gen)], 0)
                r.tree = ast.parse(r.text)
                r.scan()
            except GeneratorRaised as exc:
                r.raised = exc
            self._keep.append(r)
            self.bare_cache[key] = self.evaluate(state, r)
        return self.bare_cache[key]

    def child_parent(self, shape, st, hole=None):
        if shape.cls in MOD_CLASSES:
            return self.mod_parent_of_cls[shape.cls]
        if shape.label.startswith("LambdaOf"):
            return self.mod_parent_of_cls[MOD_CLASSES[len(shape.holes) - 1]]
        role = shape.role(hole) if hole else "body"
        return self.rel.child(shape.cls, st.parent, role)

    def explore(self, max_states=600):
        work = []
        for par, pre in [(None, "")] + [(m, MOD_SPELL.get(m, ""))
                                        for m in self.tail_parents]:
            s0 = State(par, "top", False, ZERO, None, pre, "")
            self.states[s0.key()] = s0
            work.append(s0)
        while work:
            st = work.pop(0)
            for shape in self.shapes:
                base = self.generate(shape, None, "skeleton", None)
                vb = self.evaluate(st, base)
                self.records.append(Record(st, shape, None, "skeleton", base,
                                           vb, st.pre + st.post))
                if base.text is None or vb.compile_error:
                    continue
                by_name = {}
                for hc in vb.holes:
                    by_name.setdefault(hc.name, []).append(hc)
                for h in shape.holes:
                    if h not in by_name:
                        raise AnalysisError(
                            f"hole {h} of {shape.label} does not appear in "
                            "the generated text")
                    cpar = self.child_parent(shape, st, h)
                    pre, post = shape.spell.get(h, ("", ""))
                    slot = h in shape.slot_holes
                    plist = []
                    if not slot:
                        plist.append(("empty", lambda g: [], ""))
                    for label, mk, sp in self.probes(cpar):
                        plist.append((label, mk if slot else
                                      (lambda g, mk=mk: [mk(g)]), sp, mk))
                    if slot:
                        plist.append((
                            "slot-lambda",
                            lambda g: g.struct("Lambda", 2, Hole("inner")),
                            "λ2|1;"))
                        for ar, el in self.sample_leaves():
                            plist.append((
                                f"slot-leaf/arity{ar}",
                                lambda g, el=el: g.generic("GENERAL", el), el))
                        plist.append(("slot-literal",
                                      lambda g: g.generic("NUMBER", "5"), "5"))
                        plist.append(("slot-character",
                                      lambda g: g.generic("CHARACTER", "+"),
                                      "\\+"))
                        plist.append(("slot-varset",
                                      lambda g: g.generic("VARIABLE_SET", "x"),
                                      "→x"))
                    for item in plist:
                        label, mk, sp = item[0], item[1], item[2]
                        r = self.generate(shape, h, label, mk)
                        v = self.evaluate(st, r)
                        inherited = False
                        if v.bad and len(item) == 4:
                            # same frame as the enclosing position and the
                            # bare statement already fails there: the cause
                            # lies further out
                            hc0 = by_name[h][0]
                            same = (len(by_name[h]) == 1
                                    and hc0.nested_defs == 0
                                    and hc0.in_loop == st.in_loop
                                    and hc0.h_def == st.h_def
                                    and hc0.h_loop == st.h_loop
                                    and cpar == st.parent)
                            if same and self.bare(st, label, item[3]).bad:
                                inherited = True
                        self.records.append(Record(
                            st, shape, h, label, r, v,
                            st.pre + pre + sp + post + st.post, inherited))
                    for hc in by_name[h]:
                        for par in dict.fromkeys((cpar,) + self.tail_parents):
                            mpre = "" if par == cpar else MOD_SPELL.get(par, "")
                            ns = State(
                                par, hc.defkind,
                                hc.in_loop, hc.h_def, hc.h_loop,
                                st.pre + pre + mpre, post + st.post,
                                st.depth + 1, hc.loop_depth)
                            if ns.key() in self.states:
                                continue
                            if hc.loop_depth > self.max_loop_depth:
                                self.capped += 1
                                continue
                            if len(self.states) >= max_states:
                                raise AnalysisError(
                                    "hole-state space did not close within "
                                    f"{max_states} states")
                            if any(not -3 <= x <= 6 for x in ns.h_def):
                                continue  # runaway caused by a reported defect
                            self.states[ns.key()] = ns
                            work.append(ns)
        return self

    def sample_leaves(self):
        """One table element per arity value present in the table."""
        if not hasattr(self, "_leaves"):
            by = {}
            for k, v in self.gen.elements().items():
                if isinstance(v, tuple) and len(v) == 2:
                    by.setdefault(v[1], k)
            self._leaves = sorted(by.items(), key=lambda kv: str(kv[0]))
        return self._leaves
