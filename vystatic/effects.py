"""E4 - parameter alias / effect analysis over the element library.

For every function of elements.py / helpers.py (nested functions and lambdas
included - closures capture the outer parameters):

  * alias sets: which locals may be the same object as (or an element of) a
    value parameter - through plain assignment, tuple swaps, conditional
    expressions, for-loop targets, indexing and calls to repo functions whose
    summary says they may return a parameter as is;
  * MUTATES sites on an alias: mutator method calls, subscript stores / del,
    attribute stores, in-place +=/*=, random.shuffle, and passing the alias to a
    callee whose summary mutates that parameter (fixpoint over the call graph);
  * FORCES sites on an alias (whole-list consumption), for C14.
"""

from __future__ import annotations

import ast

from .core import dotted

MUTATOR_METHODS = {"append", "extend", "insert", "pop", "remove", "sort",
                   "reverse", "clear", "update", "add", "discard",
                   "setdefault", "popitem", "appendleft", "popleft",
                   "__setitem__", "__delitem__"}
NON_VALUE_PARAMS = {"ctx", "_", "self", "cls", "context"}

FORCING_CALLS = {"len", "list", "tuple", "sorted", "set", "sum", "max", "min",
                 "reversed", "simplify", "vy_str", "vy_repr", "any", "all",
                 "frozenset", "dict", "join", "Counter"}
FORCING_METHODS = {"listify", "count", "reversed", "index", "__len__"}


# repo functions whose result is a fresh object although a `return <param>`
# exists (frozen, reasoned)
FRESH_RETURN = {
    "deep_copy": "returns its argument only for non-list values (immutable "
                 "scalars); lists / lazy lists are re-wrapped in a new "
                 "LazyList over itertools.tee (rule C10.deep-copy-fresh)",
    "simplify": "returns scalars as they are and builds a new list otherwise",
    "vy_eval": "returns the input string itself only when it could not be "
               "evaluated (strings are immutable)",
    "urlify": "strings are immutable",
}


class Site:
    def __init__(self, kind, param, node, desc, via=None, elem=False,
                 requires=(), root=None):
        self.kind = kind  # 'mutates' | 'forces'
        self.param = param
        self.node = node
        self.desc = desc
        self.via = via  # callee name for transitive sites
        self.elem = elem
        self.requires = tuple(requires)  # params that must be supplied
        self.root = root  # (function, description) of the direct site

    @property
    def line(self):
        return getattr(self.node, "lineno", 0)


class FnSummary:
    def __init__(self, name, node, modname):
        self.name = name
        self.node = node
        self.modname = modname
        a = node.args
        self.params = [p.arg for p in a.posonlyargs + a.args]
        self.kwonly = [p.arg for p in a.kwonlyargs]
        self.value_params = [p for p in self.params + self.kwonly
                             if p not in NON_VALUE_PARAMS]
        self.alias: dict[str, set] = {}
        self.mutates: dict[str, list[Site]] = {}
        self.forces: dict[str, list[Site]] = {}
        self.returns_alias: set[str] = set()
        self.is_generator_like = False


def _shadowing_names(fn):
    """parameter names of nested defs / lambdas / comprehensions (they shadow
    the outer names inside their own body)"""
    return {}


class EffectAnalysis:
    def __init__(self, repo, modules=("elements", "helpers")):
        self.repo = repo
        self.fns: dict[str, FnSummary] = {}
        for m in modules:
            mod = repo.mod(m)
            for name, node in mod.functions.items():
                # helpers star-imported into elements: elements' own
                # definitions win on a name clash
                if name not in self.fns or m == "elements":
                    self.fns[name] = FnSummary(name, node, m)
        self._changed = True

    # -- alias computation -------------------------------------------------------
    def aliases_of(self, e, fs: FnSummary, local_shadow=frozenset()):
        """set of (param, elem?) the expression may alias"""
        out = set()
        if isinstance(e, ast.Name):
            if e.id in local_shadow:
                return out
            return set(fs.alias.get(e.id, ()))
        if isinstance(e, ast.IfExp):
            return self.aliases_of(e.body, fs, local_shadow) | \
                self.aliases_of(e.orelse, fs, local_shadow)
        if isinstance(e, ast.BoolOp):
            for v in e.values:
                out |= self.aliases_of(v, fs, local_shadow)
            return out
        if isinstance(e, ast.NamedExpr):
            return self.aliases_of(e.value, fs, local_shadow)
        if isinstance(e, ast.Subscript):
            if isinstance(e.slice, ast.Slice):
                return out
            base = self.aliases_of(e.value, fs, local_shadow)
            return {(p, True) for p, _ in base}
        if isinstance(e, ast.Starred):
            return self.aliases_of(e.value, fs, local_shadow)
        if isinstance(e, ast.Call):
            callee = self.resolve(e)
            if callee is not None:
                g = self.fns[callee]
                for i, a in enumerate(e.args):
                    if i < len(g.params) and g.params[i] in g.returns_alias:
                        out |= self.aliases_of(a, fs, local_shadow)
                for kw in e.keywords:
                    if kw.arg in g.returns_alias:
                        out |= self.aliases_of(kw.value, fs, local_shadow)
            return out
        if isinstance(e, (ast.Tuple, ast.List)):
            return out  # a new container (elements handled at unpacking)
        return out

    def resolve(self, call: ast.Call):
        d = dotted(call.func)
        if d is None:
            return None
        short = d.split(".")[-1]
        if short in self.fns and (d == short or d.startswith("vyxal.")
                                  or d.split(".")[0] in ("helpers",
                                                         "elements")):
            return short
        return None

    def _assign(self, target, value, fs, shadow):
        """returns True if an alias set grew"""
        grew = False
        if isinstance(target, ast.Name):
            if target.id in shadow:
                return False
            new = self.aliases_of(value, fs, shadow)
            cur = fs.alias.setdefault(target.id, set())
            if not new <= cur:
                cur |= new
                grew = True
            return grew
        if isinstance(target, (ast.Tuple, ast.List)):
            vals = None
            if isinstance(value, (ast.Tuple, ast.List)) and len(
                    value.elts) == len(target.elts):
                vals = [value.elts]
            elif isinstance(value, ast.IfExp):
                alts = []
                for br in (value.body, value.orelse):
                    if isinstance(br, (ast.Tuple, ast.List)) and len(
                            br.elts) == len(target.elts):
                        alts.append(br.elts)
                if len(alts) == 2:
                    vals = alts
            if vals is not None:
                for elts in vals:
                    for t, v in zip(target.elts, elts):
                        grew |= self._assign(t, v, fs, shadow)
            else:
                # unpacking an arbitrary value: each target is an element
                base = self.aliases_of(value, fs, shadow)
                for t in target.elts:
                    if isinstance(t, ast.Name) and t.id not in shadow:
                        cur = fs.alias.setdefault(t.id, set())
                        new = {(p, True) for p, _ in base}
                        if not new <= cur:
                            cur |= new
                            grew = True
            return grew
        return False

    def compute_aliases(self, fs: FnSummary):
        fs.alias = {p: {(p, False)} for p in fs.value_params}
        for _ in range(10):
            grew = False
            for node, shadow in self.walk_scoped(fs.node):
                if isinstance(node, ast.Assign):
                    for t in node.targets:
                        grew |= self._assign(t, node.value, fs, shadow)
                elif isinstance(node, ast.AnnAssign) and node.value:
                    grew |= self._assign(node.target, node.value, fs, shadow)
                elif isinstance(node, ast.NamedExpr):
                    grew |= self._assign(node.target, node.value, fs, shadow)
                elif isinstance(node, (ast.For, ast.comprehension)):
                    base = self.aliases_of(node.iter, fs, shadow)
                    it = node.iter
                    # enumerate(x) / zip(x, y): targets are elements too
                    if isinstance(it, ast.Call) and dotted(it.func) in (
                            "enumerate", "zip", "reversed", "iter", "sorted",
                            "vy_zip"):
                        for a in it.args:
                            base |= self.aliases_of(a, fs, shadow)
                    for t in ast.walk(node.target):
                        if isinstance(t, ast.Name) and t.id not in shadow:
                            cur = fs.alias.setdefault(t.id, set())
                            new = {(p, True) for p, _ in base}
                            if not new <= cur:
                                cur |= new
                                grew = True
                elif isinstance(node, ast.With):
                    pass
            if not grew:
                break
        # returns
        ra = set()
        if fs.name in FRESH_RETURN:
            return ra
        for node, shadow in self.walk_scoped(fs.node, top_only_returns=True):
            if isinstance(node, ast.Return) and node.value is not None:
                for p, elem in self.aliases_of(node.value, fs, shadow):
                    if not elem:
                        ra.add(p)
        return ra

    def walk_scoped(self, fn, top_only_returns=False):
        """(node, names shadowed at that node) over fn including nested
        functions/lambdas (closures); with top_only_returns the Return nodes of
        nested defs are skipped."""
        out = []

        def rec(node, shadow, nested):
            for ch in ast.iter_child_nodes(node):
                if isinstance(ch, (ast.FunctionDef, ast.Lambda)):
                    a = ch.args
                    names = {p.arg for p in a.posonlyargs + a.args
                             + a.kwonlyargs}
                    if a.vararg:
                        names.add(a.vararg.arg)
                    # a nested def that rebinds an outer name by assignment
                    # without `nonlocal` has its own local
                    if isinstance(ch, ast.FunctionDef):
                        nl = set()
                        for s in ast.walk(ch):
                            if isinstance(s, ast.Nonlocal):
                                nl |= set(s.names)
                    rec(ch, shadow | frozenset(names), True)
                    continue
                if isinstance(ch, ast.Return) and nested and top_only_returns:
                    continue
                out.append((ch, shadow))
                rec(ch, shadow, nested)
        rec(fn, frozenset(), False)
        return out

    # -- effects -------------------------------------------------------------------
    def compute_effects(self, fs: FnSummary):
        muts: dict[str, list[Site]] = {}
        forces: dict[str, list[Site]] = {}

        def add(tbl, kind, aliases, node, desc, via=None, root=None):
            req = self._requires(node, fs)
            for p, elem in aliases:
                lst = tbl.setdefault(p, [])
                if not any(s.node is node for s in lst):
                    lst.append(Site(kind, p, node, desc, via, elem, req,
                                    root or (fs.name, desc)))

        for node, shadow in self.walk_scoped(fs.node):
            if isinstance(node, ast.Call):
                f = node.func
                if isinstance(f, ast.Attribute):
                    al = self.aliases_of(f.value, fs, shadow)
                    if al and f.attr in MUTATOR_METHODS:
                        add(muts, "mutates", al, node,
                            f"{ast.unparse(f.value)}.{f.attr}(...)")
                    if al and f.attr in FORCING_METHODS:
                        add(forces, "forces", al, node,
                            f"{ast.unparse(f.value)}.{f.attr}(...)")
                d = dotted(f) or ""
                short = d.split(".")[-1]
                if d in ("random.shuffle",) and node.args:
                    add(muts, "mutates",
                        self.aliases_of(node.args[0], fs, shadow), node,
                        "random.shuffle(...)")
                if short in FORCING_CALLS and not isinstance(
                        f, ast.Attribute) or (
                        isinstance(f, ast.Attribute) and f.attr == "join"):
                    for a in node.args:
                        tgt = a.value if isinstance(a, ast.Starred) else a
                        al = self.aliases_of(tgt, fs, shadow)
                        if al:
                            add(forces, "forces", al, node,
                                f"{short or 'join'}({ast.unparse(tgt)})")
                for a in node.args:
                    if isinstance(a, ast.Starred):
                        al = self.aliases_of(a.value, fs, shadow)
                        if al:
                            add(forces, "forces", al, node,
                                f"*{ast.unparse(a.value)}")
                callee = self.resolve(node)
                if callee is not None and callee != fs.name:
                    g = self.fns[callee]
                    for i, a in enumerate(node.args):
                        if i >= len(g.params):
                            break
                        self._transitive(g, g.params[i], a, fs, shadow, node,
                                         muts, forces, add)
                    for kw in node.keywords:
                        if kw.arg:
                            self._transitive(g, kw.arg, kw.value, fs, shadow,
                                             node, muts, forces, add)
                elif callee == fs.name:
                    # direct recursion: positional parameters map to themselves
                    pass
            elif isinstance(node, (ast.Assign, ast.AugAssign, ast.Delete,
                                   ast.AnnAssign)):
                targets = []
                if isinstance(node, ast.Assign):
                    targets = node.targets
                elif isinstance(node, ast.Delete):
                    targets = node.targets
                else:
                    targets = [node.target]
                for t in targets:
                    for e in (t.elts if isinstance(
                            t, (ast.Tuple, ast.List)) else [t]):
                        if isinstance(e, ast.Subscript):
                            al = self.aliases_of(e.value, fs, shadow)
                            if al:
                                add(muts, "mutates", al, node,
                                    f"{ast.unparse(e)} = ..." if not isinstance(
                                        node, ast.Delete)
                                    else f"del {ast.unparse(e)}")
                        elif isinstance(e, ast.Attribute):
                            al = self.aliases_of(e.value, fs, shadow)
                            if al:
                                add(muts, "mutates", al, node,
                                    f"{ast.unparse(e)} = ...")
                        elif isinstance(e, ast.Name) and isinstance(
                                node, ast.AugAssign) and isinstance(
                                node.op, (ast.Add, ast.Mult)) \
                                and e.id not in shadow:
                            al = {(p, el) for p, el in fs.alias.get(e.id, ())}
                            if al and self._dominating_fresh_def(node, e.id,
                                                                 fs):
                                al = set()  # rebound to a fresh value on
                                # every path that reaches this statement
                            if al:
                                add(muts, "mutates-if-list", al, node,
                                    f"{e.id} {'+=' if isinstance(node.op, ast.Add) else '*='} ... "
                                    "(in place when the value is a list)")
            elif isinstance(node, ast.Compare):
                # x in p / p == q force a lazy list
                for op, cmp_ in zip(node.ops, node.comparators):
                    if isinstance(op, (ast.In, ast.NotIn)):
                        al = self.aliases_of(cmp_, fs, shadow)
                        if al:
                            add(forces, "forces", al, node,
                                f"... in {ast.unparse(cmp_)}")
                    if isinstance(op, (ast.Eq, ast.NotEq)):
                        for side in (node.left, cmp_):
                            al = {x for x in self.aliases_of(side, fs, shadow)
                                  if not x[1]}
                            if al:
                                add(forces, "forces-eq", al, node,
                                    f"{ast.unparse(node)[:40]}")
            elif isinstance(node, ast.Subscript) and isinstance(
                    node.ctx, ast.Load):
                # negative index / reversing slice forces
                al = self.aliases_of(node.value, fs, shadow)
                if al:
                    sl = node.slice
                    neg = isinstance(sl, ast.UnaryOp) and isinstance(
                        sl.op, ast.USub)
                    rev = isinstance(sl, ast.Slice) and sl.step is not None \
                        and isinstance(sl.step, ast.UnaryOp)
                    if neg or rev:
                        add(forces, "forces", al, node,
                            f"{ast.unparse(node)[:40]}")
            elif isinstance(node, (ast.ListComp, ast.SetComp, ast.DictComp)):
                for g in node.generators:
                    al = self.aliases_of(g.iter, fs, shadow)
                    if al:
                        add(forces, "forces", al, node,
                            f"comprehension over {ast.unparse(g.iter)[:30]}")
        return muts, forces

    def _dominating_fresh_def(self, node, name, fs):
        """Is `name` (re)bound by an unconditional plain assignment of a
        value that aliases no parameter, earlier in one of the blocks that
        enclose `node`, with nothing in between that could bind it to an
        alias?  (Statements after the definition may only re-assign it
        through augmented assignments or other fresh values.)"""
        def binds(st):
            return [n for n in ast.walk(st) if isinstance(n, ast.Name)
                    and n.id == name and isinstance(n.ctx, ast.Store)]

        def fresh_value(v):
            # a constant, or a container / string built on the spot (growing
            # it in place changes the new object, not the argument)
            return isinstance(v, (ast.Constant, ast.List, ast.Tuple, ast.Dict,
                                  ast.Set, ast.ListComp, ast.SetComp,
                                  ast.DictComp, ast.JoinedStr))

        child = node
        cur = getattr(node, "_parent", None)
        while cur is not None:
            for field in ("body", "orelse", "finalbody"):
                seq = getattr(cur, field, None)
                if isinstance(seq, list) and any(child is x for x in seq):
                    i = [k for k, x in enumerate(seq) if x is child][0]
                    for prev in reversed(seq[:i]):
                        if isinstance(prev, ast.Assign) and len(
                                prev.targets) == 1 and isinstance(
                                prev.targets[0], ast.Name) \
                                and prev.targets[0].id == name:
                            return fresh_value(prev.value)
                        bs = binds(prev)
                        if bs and not all(isinstance(
                                getattr(b, "_parent", None), ast.AugAssign)
                                for b in bs):
                            return False
            if isinstance(cur, (ast.For, ast.While)):
                # a loop body may run after an earlier iteration re-bound
                # the name: only augmented re-bindings are tolerated
                bs = [b for st in cur.body for b in binds(st)]
                if not all(isinstance(getattr(b, "_parent", None),
                                      ast.AugAssign) for b in bs):
                    return False
            if cur is fs.node:
                break
            child = cur
            cur = getattr(cur, "_parent", None)
        return False

    def _requires(self, node, fs):
        """parameters of fs that must be `is not None` for `node` to run:
        `if p is not None:` body, `if p is None: ... else:` orelse, and what
        follows an `if p is None: <return/raise>` in the same block"""
        names = fs.params + fs.kwonly

        def none_test(t):
            """(+1, p) for `p is not None`, (-1, p) for `p is None`"""
            if isinstance(t, ast.Compare) and len(t.ops) == 1 \
                    and isinstance(t.left, ast.Name) \
                    and isinstance(t.comparators[0], ast.Constant) \
                    and t.comparators[0].value is None \
                    and t.left.id in names:
                if isinstance(t.ops[0], (ast.IsNot, ast.NotEq)):
                    return 1, t.left.id
                if isinstance(t.ops[0], (ast.Is, ast.Eq)):
                    return -1, t.left.id
            return 0, None

        def leaves(stmts):
            if not stmts:
                return False
            last = stmts[-1]
            if isinstance(last, (ast.Return, ast.Raise)):
                return True
            if isinstance(last, ast.If) and last.orelse:
                return leaves(last.body) and leaves(last.orelse)
            return False

        def rebinds(pname, stmts):
            return any(isinstance(n, ast.Name) and n.id == pname
                       and isinstance(n.ctx, ast.Store)
                       for st in stmts for n in ast.walk(st))

        req = []
        cur = getattr(node, "_parent", None)
        child = node
        while cur is not None and child is not fs.node:
            if isinstance(cur, (ast.If, ast.IfExp)):
                pol, pname = none_test(cur.test)
                body = cur.body if isinstance(cur.body, list) else [cur.body]
                orelse = cur.orelse if isinstance(cur.orelse, list) \
                    else [cur.orelse]
                if pol == 1 and any(child is b for b in body):
                    req.append(pname)
                elif pol == -1 and any(child is b for b in orelse):
                    req.append(pname)
            for field in ("body", "orelse", "finalbody"):
                seq = getattr(cur, field, None)
                if isinstance(seq, list) and any(child is x for x in seq):
                    i = [k for k, x in enumerate(seq) if x is child][0]
                    for prev in seq[:i]:
                        if isinstance(prev, ast.If) and not prev.orelse:
                            pol, pname = none_test(prev.test)
                            if pol == -1 and leaves(prev.body) \
                                    and not rebinds(pname, seq[:i]):
                                req.append(pname)
            if cur is fs.node:
                break
            child = cur
            cur = getattr(cur, "_parent", None)
        return req

    @staticmethod
    def _supplied(call, g, pname):
        if pname in g.params:
            i = g.params.index(pname)
            if i < len(call.args):
                return True
        return any(kw.arg == pname for kw in call.keywords)

    def _transitive(self, g, pname, arg, fs, shadow, node, muts, forces, add):
        tgt = arg.value if isinstance(arg, ast.Starred) else arg
        al = self.aliases_of(tgt, fs, shadow)
        if not al:
            return
        live = [s for s in g.mutates.get(pname, ())
                if all(self._supplied(node, g, r) for r in s.requires)]
        if live:
            kinds = {s.kind for s in live}
            kind = "mutates" if "mutates" in kinds else "mutates-if-list"
            add(muts, kind, al, node,
                f"passed to {g.name}({pname}=...), which "
                f"{live[0].desc}", g.name, live[0].root)
        livef = [s for s in g.forces.get(pname, ())
                 if all(self._supplied(node, g, r) for r in s.requires)]
        if livef:
            add(forces, "forces", al, node,
                f"passed to {g.name}({pname}=...), which "
                f"{livef[0].desc}", g.name, livef[0].root)

    # -- driver ------------------------------------------------------------------------
    def run(self, max_rounds=8):
        for fs in self.fns.values():
            fs.returns_alias = set()
        # returns_alias fixpoint (needs alias sets, which need returns_alias)
        for _ in range(max_rounds):
            changed = False
            for fs in self.fns.values():
                ra = self.compute_aliases(fs)
                if ra != fs.returns_alias:
                    fs.returns_alias = ra
                    changed = True
            if not changed:
                break
        for _ in range(max_rounds):
            changed = False
            for fs in self.fns.values():
                m, f = self.compute_effects(fs)
                if {k: len(v) for k, v in m.items()} != {
                        k: len(v) for k, v in fs.mutates.items()} or {
                        k: len(v) for k, v in f.items()} != {
                        k: len(v) for k, v in fs.forces.items()}:
                    changed = True
                fs.mutates, fs.forces = m, f
            if not changed:
                break
        return self
