"""Stack-height analysis for the interpreter's four bookkeeping lists
(JVM-verifier style) over a structured python AST.

Heights are vectors (context_values, inputs, stacks, function_stack) measured
relative to the entry of the innermost enclosing `def` of the analysed text
(or to the externally supplied def-entry height when the text starts inside a
def).  Exception edges are excluded ("finishes normally")."""

from __future__ import annotations

import ast

from .core import AnalysisError, dotted

CTX_LISTS = ("context_values", "inputs", "stacks", "function_stack")
ZERO = (0, 0, 0, 0)


def vadd(a, b):
    return tuple(x + y for x, y in zip(a, b))


def vsub(a, b):
    return tuple(x - y for x, y in zip(a, b))


def fmt(v):
    return "(" + ",".join(f"{x:+d}" if x else "0" for x in v) + ")"


class Issue:
    def __init__(self, kind, lists, detail, lineno):
        self.kind = kind  # break / continue / return / fallthrough / merge /
        #                   loop-back-edge / skeleton-exit / raw-write
        self.lists = lists  # names of the lists that are off
        self.detail = detail
        self.lineno = lineno

    def __repr__(self):
        return f"Issue({self.kind}, {self.lists}, {self.detail})"


class HoleCtx:
    def __init__(self, name, lineno, defkind, in_loop, h_def, h_loop,
                 defname, nested_defs=0, loop_depth=0):
        self.nested_defs = nested_defs
        self.loop_depth = loop_depth
        self.name = name
        self.lineno = lineno
        self.defkind = defkind
        self.in_loop = in_loop
        self.h_def = h_def
        self.h_loop = h_loop
        self.defname = defname


class Frame:
    def __init__(self, defkind, defname, loop_entry, nested_defs=0,
                 loop_depth=0):
        self.defkind = defkind  # 'top' or name class of the def
        self.defname = defname
        self.loop_entry = loop_entry  # absolute height at loop body entry
        self.nested_defs = nested_defs
        self.loop_depth = loop_depth


def ctx_effect_of_call(call: ast.Call, ctx_names=("ctx",)):
    """(list index, delta) for ctx.<L>.append(..)/pop(), else None."""
    f = call.func
    if not isinstance(f, ast.Attribute):
        return None
    tgt = f.value
    if not (isinstance(tgt, ast.Attribute) and tgt.attr in CTX_LISTS):
        return None
    base = dotted(tgt.value)
    if base is None or base.split(".")[0] not in ctx_names:
        return None
    idx = CTX_LISTS.index(tgt.attr)
    if f.attr == "append":
        return idx, +1, None
    if f.attr == "pop" and not call.args:
        return idx, -1, None
    if f.attr in ("extend", "insert", "clear", "remove", "pop", "sort",
                  "reverse"):
        return idx, 0, f"ctx.{tgt.attr}.{f.attr}(...)"
    return None


def classify_def(name: str) -> str:
    if name.startswith("_lambda"):
        return "lambda"
    if name.startswith("VAR_"):
        return "function"
    if name == "list_item":
        return "list_item"
    return "def:" + name


def _yields(st):
    stack = [st]
    while stack:
        n = stack.pop()
        if isinstance(n, (ast.Yield, ast.YieldFrom)):
            return True
        if isinstance(n, (ast.FunctionDef, ast.Lambda)) and n is not st:
            continue
        stack.extend(ast.iter_child_nodes(n))
    return False


class HeightAnalysis:
    def __init__(self, mark="HOLE_", ctx_names=("ctx",)):
        self.mark = mark
        self.ctx_names = ctx_names
        self.issues: list[Issue] = []
        self.holes: list[HoleCtx] = []
        self.effects = 0

    # -- entry points ---------------------------------------------------------
    def run_text(self, tree_body, defkind="top", in_loop=False,
                 h_def=ZERO, h_loop=None, loop_depth=0):
        """Analyse statements that start at height h_def since the enclosing
        def's entry (and h_loop since the innermost loop body entry)."""
        loop_entry = vsub(h_def, h_loop) if in_loop else None
        frame = Frame(defkind, None, loop_entry, 0, loop_depth)
        end = self.block(tree_body, h_def, frame)
        if end is not None and end != h_def:
            self.off("skeleton-exit", end, h_def,
                     "construct does not restore the depth it started with",
                     getattr(tree_body[-1], "lineno", 0))
        return end

    def run_function(self, fn: ast.FunctionDef):
        frame = Frame("def:" + fn.name, fn.name, None)
        end = self.block(fn.body, ZERO, frame)
        if end is not None and end != ZERO:
            self.off("fallthrough", end, ZERO,
                     f"{fn.name} falls off its end with a changed depth",
                     fn.body[-1].lineno)

    # -- helpers -----------------------------------------------------------------
    def off(self, kind, have, want, detail, lineno):
        lists = [CTX_LISTS[i] for i in range(4) if have[i] != want[i]]
        self.issues.append(Issue(
            kind, lists, f"{detail}: depth {fmt(vsub(have, want))} relative to "
            "the required one", lineno))

    def stmt_effects(self, st, h):
        """Apply append/pop effects of a simple statement (evaluation order is
        irrelevant for +-1 sums).  The per-node summary is cached on the node."""
        summ = getattr(st, "_ctx_summary", None)
        if summ is None or summ[0] != self.ctx_names:
            summ = (self.ctx_names,) + self._summarise(st)
            st._ctx_summary = summ
        _, delta, raws, n, err = summ
        if err:
            raise AnalysisError(err)
        self.effects += n
        for kind, lists, detail, lineno in raws:
            self.issues.append(Issue(kind, lists, detail, lineno))
        if delta == ZERO:
            return h
        return vadd(h, delta)

    def _summarise(self, st):
        delta = [0, 0, 0, 0]
        raws = []
        n_eff = 0
        err = None
        calls = [n for n in ast.walk(st) if isinstance(n, ast.Call)
                 and ctx_effect_of_call(n, self.ctx_names) is not None]
        if calls:
            skip = set()
            cond = set()
            for n in ast.walk(st):
                if isinstance(n, (ast.Lambda, ast.FunctionDef)) \
                        and n is not st:
                    for m in ast.walk(n):
                        skip.add(id(m))
                elif isinstance(n, ast.IfExp):
                    for part in (n.body, n.orelse):
                        for m in ast.walk(part):
                            cond.add(id(m))
                elif isinstance(n, ast.BoolOp):
                    for part in n.values[1:]:
                        for m in ast.walk(part):
                            cond.add(id(m))
                elif isinstance(n, (ast.ListComp, ast.SetComp, ast.DictComp,
                                    ast.GeneratorExp)):
                    for m in ast.walk(n):
                        if m is not n:
                            cond.add(id(m))
            for n in calls:
                if id(n) in skip:
                    continue
                idx, d, raw = ctx_effect_of_call(n, self.ctx_names)
                n_eff += 1
                if raw:
                    raws.append((
                        "raw-write", [CTX_LISTS[idx]],
                        f"{raw} changes a bookkeeping list outside the "
                        "append/pop discipline", n.lineno))
                    continue
                if id(n) in cond:
                    err = ("conditional push/pop inside an expression at "
                           f"line {n.lineno}: {ast.unparse(n)}")
                delta[idx] += d
        # raw stores: ctx.L = ..., ctx.L += ..., del ctx.L[..]
        targets = []
        if isinstance(st, ast.Assign):
            targets = st.targets
        elif isinstance(st, (ast.AugAssign, ast.AnnAssign)):
            targets = [st.target]
        elif isinstance(st, ast.Delete):
            targets = [t.value if isinstance(t, ast.Subscript) else t
                       for t in st.targets]
        for t in targets:
            for e in (t.elts if isinstance(t, (ast.Tuple, ast.List)) else [t]):
                if isinstance(e, ast.Attribute) and e.attr in CTX_LISTS:
                    base = dotted(e.value)
                    if base and base.split(".")[0] in self.ctx_names:
                        raws.append((
                            "raw-write", [e.attr],
                            f"`{ast.unparse(st)}` rebinds/resizes ctx.{e.attr} "
                            "outside the append/pop discipline", st.lineno))
        return tuple(delta), raws, n_eff, err

    def is_hole(self, st):
        return (isinstance(st, ast.Expr) and isinstance(st.value, ast.Name)
                and st.value.id.startswith(self.mark))

    # -- the walk ------------------------------------------------------------------
    def block(self, stmts, h, frame):
        for st in stmts:
            if h is None:
                return None  # unreachable rest
            h = self.stmt(st, h, frame)
        return h

    def stmt(self, st, h, frame):
        if self.is_hole(st):
            self.holes.append(HoleCtx(
                st.value.id[len(self.mark):], st.lineno, frame.defkind,
                frame.loop_entry is not None, h,
                None if frame.loop_entry is None
                else vsub(h, frame.loop_entry), frame.defname,
                frame.nested_defs, frame.loop_depth))
            return h
        if isinstance(st, ast.If):
            h = self.stmt_effects(st.test, h)
            a = self.block(st.body, h, frame)
            b = self.block(st.orelse, h, frame)
            if a is None:
                return b
            if b is None:
                return a
            if a != b:
                self.off("merge", a, b,
                         "the two arms of an `if` leave different depths",
                         st.lineno)
            return a
        if isinstance(st, (ast.For, ast.While)):
            h = self.stmt_effects(
                st.test if isinstance(st, ast.While) else st.iter, h)
            inner = Frame(frame.defkind, frame.defname, h, frame.nested_defs,
                          frame.loop_depth + 1)
            end = self.block(st.body, h, inner)
            if end is not None and end != h:
                self.off("loop-back-edge", end, h,
                         "one full iteration of the loop body changes the "
                         "depth", st.lineno)
            if st.orelse:
                self.block(st.orelse, h, frame)
            return h
        if isinstance(st, ast.FunctionDef):
            inner = Frame(classify_def(st.name), st.name, None,
                          frame.nested_defs + 1, 0)
            end = self.block(st.body, ZERO, inner)
            if end is not None and end != ZERO:
                self.off("fallthrough", end, ZERO,
                         f"def {st.name} falls off its end", st.lineno)
            return h
        if isinstance(st, ast.Return):
            if st.value is not None:
                h = self.stmt_effects(st, h)
            if h != ZERO:
                self.off("return", h, ZERO,
                         "return leaves the enclosing def with bookkeeping "
                         "entries it pushed (or pops entries it did not push)",
                         st.lineno)
            return None
        if isinstance(st, ast.Break):
            if frame.loop_entry is not None and h != frame.loop_entry:
                self.off("break", h, frame.loop_entry,
                         "break leaves the loop body", st.lineno)
            return None
        if isinstance(st, ast.Continue):
            if frame.loop_entry is not None and h != frame.loop_entry:
                self.off("continue", h, frame.loop_entry,
                         "continue jumps to the next iteration", st.lineno)
            return None
        if isinstance(st, ast.Raise):
            return None
        if isinstance(st, ast.Try):
            before = self.effects
            body_end = self.block(st.body, h, frame)
            body_has_effects = self.effects != before
            ends = []
            if body_end is not None:
                e2 = self.block(st.orelse, body_end, frame)
                if e2 is not None:
                    ends.append(e2)
            for hd in st.handlers:
                if body_has_effects:
                    raise AnalysisError(
                        f"push/pop inside a try body with handlers (line "
                        f"{st.lineno}) is outside the modelled subset")
                e3 = self.block(hd.body, h, frame)
                if e3 is not None:
                    ends.append(e3)
            if not ends:
                if st.finalbody:
                    self.block(st.finalbody, h, frame)
                return None
            for e in ends[1:]:
                if e != ends[0]:
                    self.off("merge", e, ends[0],
                             "try/except arms leave different depths",
                             st.lineno)
            out = ends[0]
            if st.finalbody:
                out = self.block(st.finalbody, out, frame)
            return out
        if isinstance(st, ast.With):
            return self.block(st.body, h, frame)
        if isinstance(st, (ast.ClassDef,)):
            return h
        if isinstance(st, (ast.Expr, ast.Assign, ast.AugAssign, ast.AnnAssign,
                           ast.Delete, ast.Pass, ast.Assert, ast.Import,
                           ast.ImportFrom, ast.Global, ast.Nonlocal)):
            h = self.stmt_effects(st, h)
            if h != ZERO and _yields(st):
                # a generator is suspended here: its consumer (and whatever
                # runs until the next item is requested, possibly never)
                # sees the entries it pushed
                self.off("yield", h, ZERO,
                         "the generator yields while bookkeeping entries it "
                         "pushed are still registered; they stay until the "
                         "next item is requested (for ever, if the consumer "
                         "stops early)", st.lineno)
            return h
        raise AnalysisError(
            f"statement kind {type(st).__name__} not modelled by the height "
            f"analysis (line {st.lineno})")
