"""Small flow utilities shared by the checks, so that rules talk about *what
holds on a path* and not about how the source happens to be laid out.

* path_conditions(node, fn): the tests known true / false where `node` runs
  (enclosing if/else arms, conditional expressions, and the early-exit idiom
  `if T: return ...` earlier in the same block).
* copy_env(fn) / subst(expr, env): single-assignment pure locals are replaced
  by their definition (`missing = ind - len(c) + 1; range(missing)`).
* Exhaustion: a structured must-analysis "the lazy list's source iterator is
  exhausted here" over the statement kinds LazyList.py uses.
"""

from __future__ import annotations

import ast
import copy

from .core import dotted


# ---------------------------------------------------------------------------
def leaves(stmts) -> bool:
    """every path through the statement list ends in return / raise /
    break / continue"""
    if not stmts:
        return False
    last = stmts[-1]
    if isinstance(last, (ast.Return, ast.Raise, ast.Break, ast.Continue)):
        return True
    if isinstance(last, ast.If) and last.orelse:
        return leaves(last.body) and leaves(last.orelse)
    if isinstance(last, ast.Try):
        return leaves(last.body) and all(leaves(h.body)
                                         for h in last.handlers)
    if isinstance(last, ast.While) and isinstance(last.test, ast.Constant) \
            and last.test.value is True and not any(
            isinstance(n, ast.Break) for n in _own_loop_nodes(last)):
        return True
    return False


def _own_loop_nodes(loop):
    """nodes of the loop body that belong to this loop (not nested loops /
    defs)"""
    out = []

    def walk(n):
        for c in ast.iter_child_nodes(n):
            if isinstance(c, (ast.FunctionDef, ast.Lambda, ast.ClassDef)):
                continue
            out.append(c)
            if isinstance(c, (ast.For, ast.While)):
                # breaks inside belong to the inner loop; its else doesn't
                for s in c.orelse:
                    out.append(s)
                    walk(s)
                continue
            walk(c)
    for s in loop.body:
        out.append(s)
        walk(s)
    return out


def path_conditions(node, fn):
    """[(test, polarity)] - tests that are known true (polarity True) or
    false (False) whenever `node` is evaluated inside `fn`."""
    out = []
    child = node
    cur = getattr(node, "_parent", None)
    while cur is not None:
        if isinstance(cur, (ast.If, ast.IfExp)):
            body = cur.body if isinstance(cur.body, list) else [cur.body]
            orelse = cur.orelse if isinstance(cur.orelse, list) \
                else [cur.orelse]
            if any(child is b for b in body):
                out.append((cur.test, True))
            elif any(child is b for b in orelse):
                out.append((cur.test, False))
        if isinstance(cur, ast.BoolOp):
            idx = [i for i, v in enumerate(cur.values) if v is child]
            if idx:
                for v in cur.values[:idx[0]]:
                    out.append((v, isinstance(cur.op, ast.And)))
        for field in ("body", "orelse", "finalbody"):
            seq = getattr(cur, field, None)
            if isinstance(seq, list) and any(child is x for x in seq):
                i = [k for k, x in enumerate(seq) if x is child][0]
                for prev in seq[:i]:
                    if not isinstance(prev, ast.If):
                        continue
                    if leaves(prev.body) and not leaves(prev.orelse):
                        out.append((prev.test, False))
                    elif prev.orelse and leaves(prev.orelse) \
                            and not leaves(prev.body):
                        out.append((prev.test, True))
        if cur is fn:
            break
        child = cur
        cur = getattr(cur, "_parent", None)
    # split `A and B` known true / `A or B` known false into their parts,
    # strip `not`
    flat = []
    work = list(out)
    while work:
        t, pol = work.pop()
        if isinstance(t, ast.UnaryOp) and isinstance(t.op, ast.Not):
            work.append((t.operand, not pol))
        elif isinstance(t, ast.BoolOp) and isinstance(t.op, ast.And) and pol:
            work.extend((v, True) for v in t.values)
        elif isinstance(t, ast.BoolOp) and isinstance(t.op, ast.Or) \
                and not pol:
            work.extend((v, False) for v in t.values)
        else:
            flat.append((t, pol))
    return flat


# ---------------------------------------------------------------------------
PURE_CALLS = {"len", "abs", "min", "max", "int", "range", "type",
              "isinstance"}


def _pure(e) -> bool:
    for n in ast.walk(e):
        if isinstance(n, ast.Call):
            if (dotted(n.func) or "") not in PURE_CALLS:
                return False
        elif isinstance(n, (ast.Yield, ast.YieldFrom, ast.Await,
                            ast.NamedExpr, ast.Lambda, ast.ListComp,
                            ast.GeneratorExp, ast.DictComp, ast.SetComp)):
            return False
    return True


def copy_env(fn) -> dict:
    """{name: expr} for locals assigned exactly once, by a plain assignment
    whose right-hand side is pure, and never a parameter / loop variable /
    augmented target."""
    stores: dict[str, list] = {}
    params = {a.arg for a in fn.args.posonlyargs + fn.args.args
              + fn.args.kwonlyargs}
    if fn.args.vararg:
        params.add(fn.args.vararg.arg)
    if fn.args.kwarg:
        params.add(fn.args.kwarg.arg)
    for n in ast.walk(fn):
        if isinstance(n, ast.Name) and isinstance(n.ctx, (ast.Store,
                                                           ast.Del)):
            stores.setdefault(n.id, []).append(n)
    env = {}
    for name, sites in stores.items():
        if name in params or len(sites) != 1:
            continue
        par = getattr(sites[0], "_parent", None)
        if isinstance(par, ast.Assign) and len(par.targets) == 1 \
                and par.targets[0] is sites[0] and _pure(par.value):
            # the definition must not depend on something re-assigned
            deps = {m.id for m in ast.walk(par.value)
                    if isinstance(m, ast.Name)}
            if all(len(stores.get(d, [])) <= (0 if d in params else 1)
                   or d in params and not stores.get(d)
                   for d in deps):
                env[name] = par.value
        elif isinstance(par, ast.Tuple):
            asg = getattr(par, "_parent", None)
            if isinstance(asg, ast.Assign) and isinstance(
                    asg.value, ast.Tuple) and len(asg.value.elts) == len(
                    par.elts) and asg.targets[0] is par:
                v = asg.value.elts[par.elts.index(sites[0])]
                if _pure(v):
                    env[name] = v
    return env


def subst(expr, env, depth=0):
    """`expr` with the names of env replaced by their definitions"""
    if depth > 6:
        return expr

    class T(ast.NodeTransformer):
        def visit_Name(self, n):
            if isinstance(n.ctx, ast.Load) and n.id in env:
                return subst(copy.deepcopy(env[n.id]), env, depth + 1)
            return n
    return ast.fix_missing_locations(T().visit(copy.deepcopy(expr)))


# ---------------------------------------------------------------------------
class Exhaustion:
    """Must-analysis over one method of LazyList: is `self`'s source iterator
    known to be exhausted when a statement starts?

    Sources of the fact:
      * the handler of a `try` whose body can only raise StopIteration by
        pulling from self (next(self), self.__next__(), next(self.raw_object));
      * completion of `for ... in self` without break;
      * a call that exhausts: list(self) / tuple(self) / sorted(self) /
        len(self) / self.<m>() for the methods in `exhausting`.
    Meets are logical and; `while True` is left only through its breaks."""

    def __init__(self, fn, exhausting=(), selfname="self",
                 source="raw_object"):
        self.fn = fn
        self.exhausting = set(exhausting)
        self.selfname = selfname
        self.source = source
        self.at: dict[int, bool] = {}      # id(stmt) -> fact at entry
        self.returns: list[tuple[ast.Return, bool]] = []
        self._loops: list[list[bool]] = []
        out = self.block(fn.body, False)
        self.falls_through = out  # None: cannot fall through

    # -- expressions -------------------------------------------------------------
    def _is_self(self, e):
        return isinstance(e, ast.Name) and e.id == self.selfname

    def pulls_self(self, call):
        if not isinstance(call, ast.Call):
            return False
        d = dotted(call.func) or ""
        if d == "next" and call.args and (self._is_self(call.args[0]) or (
                isinstance(call.args[0], ast.Attribute)
                and call.args[0].attr == self.source
                and self._is_self(call.args[0].value))) \
                and len(call.args) == 1:
            return True
        return d == f"{self.selfname}.__next__"

    def exhausts(self, stmt_or_expr):
        for n in ast.walk(stmt_or_expr):
            if isinstance(n, ast.Call):
                d = dotted(n.func) or ""
                if d in ("list", "tuple", "sorted", "len", "sum", "max",
                         "min", "set") and n.args and self._is_self(
                        n.args[0]):
                    return True
                if d.startswith(self.selfname + ".") and d.split(".")[1] in \
                        self.exhausting and len(d.split(".")) == 2:
                    return True
            if isinstance(n, (ast.ListComp, ast.SetComp)) and any(
                    self._is_self(g.iter) for g in n.generators):
                return True
        return False

    def foreign_stop(self, stmts):
        """may the statements raise StopIteration from something other than
        a pull on self?"""
        for st in stmts:
            for n in ast.walk(st):
                if isinstance(n, ast.Call):
                    d = dotted(n.func) or ""
                    if d == "next" and len(n.args) == 1 \
                            and not self.pulls_self(n):
                        return True
                    if d.endswith(".__next__") and not self.pulls_self(n):
                        return True
                if isinstance(n, ast.Raise) and n.exc is not None and \
                        "StopIteration" in ast.unparse(n.exc):
                    return True
        return False

    # -- statements ----------------------------------------------------------------
    def block(self, stmts, fact):
        """returns the fact after the block, or None if it cannot complete
        normally"""
        for st in stmts:
            if fact is None:
                break
            fact = self.stmt(st, fact)
        return fact

    @staticmethod
    def meet(*facts):
        live = [f for f in facts if f is not None]
        if not live:
            return None
        return all(live)

    def stmt(self, st, fact):
        self.at[id(st)] = fact
        if isinstance(st, ast.Return):
            f = fact or (st.value is not None and self.exhausts(st.value))
            self.returns.append((st, f))
            return None
        if isinstance(st, ast.Raise):
            return None
        if isinstance(st, ast.Break):
            if self._loops:
                self._loops[-1].append(fact)
            return None
        if isinstance(st, ast.Continue):
            return None
        if isinstance(st, ast.If):
            pre = fact or self.exhausts(st.test)
            return self.meet(self.block(st.body, pre),
                             self.block(st.orelse, pre))
        if isinstance(st, ast.Try):
            body_out = self.block(st.body, fact)
            outs = [self.block(st.orelse, body_out)
                    if body_out is not None else None]
            for h in st.handlers:
                t = ast.unparse(h.type) if h.type is not None else ""
                catches_stop = h.type is None or any(
                    k in t for k in ("StopIteration", "Exception"))
                only_stop = h.type is not None and t == "StopIteration"
                pulls = any(self.pulls_self(n) for s in st.body
                            for n in ast.walk(s))
                hfact = fact or (catches_stop and only_stop and pulls
                                 and not self.foreign_stop(st.body))
                outs.append(self.block(h.body, hfact))
            out = self.meet(*outs)
            if st.finalbody:
                out = self.block(st.finalbody, out if out is not None
                                 else False)
            return out
        if isinstance(st, ast.While):
            self._loops.append([])
            infinite = isinstance(st.test, ast.Constant) and \
                st.test.value is True
            # facts are monotone (once exhausted, always exhausted): one pass
            body_out = self.block(st.body, fact)
            breaks = self._loops.pop()
            if infinite:
                out = self.meet(*breaks) if breaks else None
            else:
                out = self.meet(fact, body_out, *breaks)
            if st.orelse and not infinite:
                out = self.meet(self.block(st.orelse, self.meet(
                    fact, body_out)), *breaks)
            return out
        if isinstance(st, ast.For):
            self._loops.append([])
            over_self = self._is_self(st.iter)
            body_out = self.block(st.body, fact)
            breaks = self._loops.pop()
            done = True if over_self else self.meet(fact, body_out)
            if st.orelse:
                done = self.block(st.orelse, done)
            return self.meet(done, *breaks)
        if isinstance(st, ast.With):
            return self.block(st.body, fact)
        if isinstance(st, (ast.FunctionDef, ast.ClassDef)):
            return fact
        # simple statements
        return fact or self.exhausts(st)

    def exhausts_on_return(self):
        """every normal exit (return / fall-through) has the fact"""
        facts = [f for _, f in self.returns]
        if self.falls_through is not None:
            facts.append(self.falls_through)
        return bool(facts) and all(facts)
