"""Semantic laws of the lexer, checked on the class-exhaustive probe model
(`lexprobe.LexProbe`).  Each law is stated over token sequences, not over the
shape of the lexer's code."""

from __future__ import annotations

import itertools

from .kinds import Lang, ANYSET
from .lexprobe import LexProbe


def value_languages_probe(lp: LexProbe) -> dict[str, Lang]:
    return {k: Lang(lp.alphabet(k), None) for k in lp.kinds}


class Frames:
    """Literal forms discovered by probing."""

    def __init__(self, lp: LexProbe):
        o = lp.other
        self.delimited = []  # (delimiter, kind)
        self.prefix1 = []  # (prefix, kind): one payload character
        self.prefix2 = []  # (prefix, kind): two payload characters
        self.comment = []  # head
        for h in lp.reps:
            r = lp.run(h + o + o + h)
            if isinstance(r, list) and len(r) == 1 and r[0][0] != "GENERAL" \
                    and r[0][1] == o + o:
                rr = lp.run(h + o + o + h + o)
                if isinstance(rr, list) and len(rr) == 2:
                    self.delimited.append((h, r[0][0]))
                    continue
            r1 = lp.run(h + o)
            r2 = lp.run(h + o + o)
            if isinstance(r2, list) and len(r2) == 1 and \
                    r2[0][0] != "GENERAL" and r2[0][1] == o + o:
                r3 = lp.run(h + o + o + o)
                if isinstance(r3, list) and len(r3) == 2:
                    self.prefix2.append((h, r2[0][0]))
                    continue
            if isinstance(r1, list) and len(r1) == 1 and \
                    r1[0][0] != "GENERAL" and r1[0][1] == o and \
                    isinstance(r2, list) and len(r2) == 2:
                self.prefix1.append((h, r1[0][0]))
                continue
            # a comment head swallows the text after it up to the end of the
            # program (that it stops at the end of its line is the law
            # checked on it, not part of the discovery)
            if r1 == [] and r2 == [] and lp.run(o) != []:
                self.comment.append(h)
        # block comments: a comment head plus one character after which the
        # end of the line no longer ends the comment, and some closer of one
        # or two characters does
        self.block_comment = []  # (opener, closer)
        tail = "|" + o
        for h in self.comment:
            for c in lp.reps:
                if c == "\n" or lp.run(h + c + o + "\n" + tail) == lp.run(tail):
                    continue
                op = h + c
                found = None
                for cl in list(lp.reps) + [a + b for a in lp.reps
                                           for b in lp.reps]:
                    if lp.run(op + o + cl + tail) == lp.run(tail) and \
                            lp.run(op + o + "\n" + o + cl + tail) == \
                            lp.run(tail):
                        found = cl
                        break
                self.block_comment.append((op, found))
        # literal forms with an opener (one character, or a digraph head and
        # one character) and a *different* closer: opener + payload runs to
        # the end of the program as one token, some closer ends it
        self.bracketed = []  # (opener, closer, kind)
        known = {d for d, _ in self.delimited} | {p for p, _ in self.prefix1} \
            | {p for p, _ in self.prefix2} | set(self.comment)
        dig = [h for h in lp.reps
               if lp.run(h + o) == [("GENERAL", h + o)]]
        openers = [h for h in lp.reps if h not in known] + [
            a + b for a in dig for b in lp.reps]
        for op in openers:
            r = lp.run(op + o + o)
            if not (isinstance(r, list) and len(r) == 1
                    and r[0][0] != "GENERAL" and r[0][1] == o + o):
                continue
            r5 = lp.run(op + o + o + o + o + o)
            if not (isinstance(r5, list) and len(r5) == 1):
                continue  # a fixed-width form, not an open one
            for cl in lp.reps:
                if cl in op:
                    continue
                rc = lp.run(op + o + o + cl)
                rr = lp.run(op + o + o + cl + o)
                if isinstance(rc, list) and len(rc) == 1 and \
                        rc[0] == r[0] and isinstance(rr, list) \
                        and len(rr) == 2:
                    self.bracketed.append((op, cl, r[0][0]))


def law_stateless(chk, lp, rule, file):
    """Lexing a text does not depend on what was lexed before: every probe of
    length <= 2 is run again, in the opposite order and after a few texts that
    end inside a literal, and must give what it gave the first time (a scratch
    buffer in a default argument, a module-level pool...)."""
    keys = [k for k in lp._cache if isinstance(k, tuple) and len(k[0]) <= 2]
    first = {k: lp._cache[k] for k in keys}
    bad = None
    primers = [h + lp.other for h in lp.reps][:40]
    for k in reversed(keys):
        for pr in primers[:3]:
            lp._cache.pop((pr, k[1]), None)
            lp.run(pr, k[1])
        primers = primers[1:] + primers[:1]
        lp._cache.pop(k, None)
        again = lp.run(k[0], k[1])
        if again != first[k]:
            bad = bad or (k[0], first[k], again)
    # ... and each alone in a *fresh* copy of the lexer module: a pool that
    # keeps whatever it saw first is saturated by now and repeats itself
    # faithfully in the same process
    from .pe import Interp  # noqa: PLC0415
    for k in keys:
        it2 = Interp(lp.repo)
        tok2 = it2.module("vyxal.lexer").get("tokenise")
        again = lp.run_with(it2, tok2, k[0], k[1])
        if again != first[k]:
            bad = bad or (k[0], first[k], again)
    chk.ob(rule, "tokenise run twice", bad is None,
           (f"{bad[0]!r} was lexed as {bad[1]} the first time and as {bad[2]} "
            "when lexed again (after other texts, or alone in a fresh copy "
            "of the lexer module): the lexer keeps state between calls")
           if bad else "", file,
           witness=repr(bad[0]) if bad else None,
           sample={"probes repeated": len(keys)})
    return bad is None


def law_left_to_right(chk, lp, rule, file):
    """What follows a finished token does not change it: when a text p plus a
    blank lexes as tokens(p) followed by the blank's own token, then p, the
    blank and any further character c lex as that followed by tokens(c).  (A
    scanner that first looks at the whole program - a fast path for texts
    without literal heads, a pre-pass - lexes the same literal differently
    depending on text far to its right.)"""
    sp = " "
    rs = lp.run(sp)
    if not (isinstance(rs, list) and len(rs) == 1):
        chk.info(rule, "tokenise", "a blank is not a token of its own; law "
                 "not applicable")
        return 0
    keys = [k[0] for k in list(lp._cache) if isinstance(k, tuple)
            and k[1] == 0 and len(k[0]) <= 2]
    bad = None
    n = 0
    for p_ in keys:
        rp = lp.run(p_)
        base = lp.run(p_ + sp)
        if not (isinstance(rp, list) and isinstance(base, list)
                and base == rp + rs):
            continue
        for c in lp.reps:
            rc = lp.run(c)
            if not isinstance(rc, list):
                continue
            n += 1
            r = lp.run(p_ + sp + c)
            if r != base + rc:
                bad = bad or (p_ + sp + c, base + rc, r)
    chk.ob(rule, "tokenise left to right", bad is None,
           (f"{bad[0]!r} is lexed as {bad[2]}, but its first part alone as "
            f"{bad[1][:-1]}: how a literal is lexed depends on the text that "
            "follows it") if bad else "", file,
           witness=repr(bad[0]) if bad else None,
           sample={"continuations": n})
    return n


def law_total(chk, lp, rule, file):
    chk.ob(rule, "lexer on every probe", not lp.raised,
           "the lexer raises on some input (e.g. "
           + "; ".join(f"{s!r}: {e}" for s, e in lp.raised[:3])
           + "): a program cut off at that point is rejected instead of "
           "being lexed as if it were closed", file,
           witness=repr(lp.raised[0][0]) if lp.raised else None,
           sample={"probes": lp.n_probes})


def law_closer_optional(chk, lp, fr: Frames, rule, file):
    n = 0
    for d, kind in fr.delimited:
        # escape characters: taken together with the character after them
        escapes = {e for e in lp.reps if e != d
                   and lp.run(d + e + lp.other + d) == [(kind, e + lp.other)]
                   and lp.run(d + e + d + d) == [(kind, e + d)]}
        payloads = [""] + [c for c in lp.reps if c != d] + [
            a + b for a in lp.reps for b in lp.reps if d not in a + b]
        bad = None
        for s in payloads:
            # a payload ending in an unpaired escape character swallows the
            # delimiter after it; that case is the payload s + d
            if s and s[-1] in escapes and (len(s) == 1
                                           or s[-2] not in escapes):
                s = s + d
            n += 1
            if lp.run(d + s) != lp.run(d + s + d):
                bad = s
                break
        chk.ob(rule, f"{kind} literal {d!r}…{d!r}", bad is None,
               f"{d + (bad or '')!r} at the end of a program is lexed as "
               f"{lp.run(d + (bad or ''))} but closed as "
               f"{lp.run(d + (bad or '') + d)}: leaving the closing "
               "delimiter off changes the tokens", file,
               witness=repr(d + (bad or "")),
               sample={"literal": kind, "payloads": len(payloads)})
    for op, cl, kind in fr.bracketed:
        payloads = [""] + [c for c in lp.reps if c != cl] + [
            a + b for a in lp.reps for b in lp.reps if cl not in a + b]
        bad = None
        for s in payloads:
            n += 1
            if lp.run(op + s) != lp.run(op + s + cl):
                # an escape character before the closer is the payload's
                # business, not the closer's: compare with the closer doubled
                if s and lp.run(op + s + cl) == lp.run(op + s + cl + cl):
                    continue
                bad = s
                break
        chk.ob(rule, f"{kind} literal {op!r}…{cl!r}", bad is None,
               f"{op + (bad or '')!r} at the end of a program is lexed as "
               f"{lp.run(op + (bad or ''))} but closed as "
               f"{lp.run(op + (bad or '') + cl)}: leaving the closing "
               "delimiter off changes the tokens", file,
               witness=repr(op + (bad or "")),
               sample={"literal": kind, "payloads": len(payloads)})
    return n


def law_payload_opaque(chk, lp, fr: Frames, rule, file, tag=""):
    """Replacing a literal's payload by another payload never changes the
    sequence of token kinds around it."""
    if tag:
        real = chk

        class _Tagged:
            def ob(self, r, construct, *a, **k):
                return real.ob(r, construct + tag, *a, **k)
        chk = _Tagged()
    o = lp.other
    tail = "|" + o
    tail_kinds = lp.kinds_of(tail)
    n = 0
    for d, kind in fr.delimited:
        want = [kind] + tail_kinds
        escapes = []
        for c in lp.reps:
            if c == d:
                continue
            n += 1
            r = lp.run(d + c + d + tail)
            if isinstance(r, list) and [k for k, _ in r] == want \
                    and r[0][1] == c:
                continue
            escapes.append(c)
        for e in escapes:
            # a legitimate escape character keeps itself and the next
            # character in the payload, whatever that character is
            bad = None
            for x in lp.reps:
                n += 1
                r = lp.run(d + e + x + d + tail)
                if not (isinstance(r, list) and [k for k, _ in r] == want
                        and r[0][1] == e + x):
                    bad = x
                    break
            chk.ob(rule, f"{kind} literal {d!r}: payload {e!r}", bad is None,
                   f"inside a {kind} literal the payload character {e!r} "
                   f"changes how the text is tokenised: {d + e + (bad or '') + d + tail!r} "
                   f"gives {lp.run(d + e + (bad or '') + d + tail)}", file,
                   witness=repr(d + e + (bad or "") + d + tail))
        # multi-character texts the lexer itself mentions are payload too
        bad = None
        for atom in lp.atoms():
            if d in atom or any(e in atom for e in escapes):
                continue
            n += 1
            r = lp.run(d + atom + d + tail)
            if not (isinstance(r, list) and [k for k, _ in r] == want
                    and r[0][1] == atom):
                bad = atom
                break
        chk.ob(rule, f"{kind} literal {d!r}: multi-character payloads",
               bad is None,
               f"inside a {kind} literal the text {bad!r} is not kept as "
               f"payload: {d + (bad or '') + d + tail!r} gives "
               f"{lp.run(d + (bad or '') + d + tail)}", file,
               witness=repr(d + (bad or "") + d + tail))
        chk.ob(rule, f"{kind} literal {d!r}…{d!r}", True,
               sample={"literal": kind, "escape characters": escapes})
    for p, kind in fr.prefix1:
        want = [kind] + tail_kinds
        bad = None
        for c in lp.reps:
            n += 1
            r = lp.run(p + c + tail)
            if not (isinstance(r, list) and [k for k, _ in r] == want
                    and r[0][1] == c):
                bad = c
                break
        chk.ob(rule, f"{kind} literal {p!r}+1", bad is None,
               f"{p + (bad or '') + tail!r} is lexed as "
               f"{lp.run(p + (bad or '') + tail)}: the payload character "
               f"{bad!r} of a {kind} literal acts as syntax", file,
               witness=repr(p + (bad or "") + tail),
               sample={"literal": kind})
    for p, kind in fr.prefix2:
        want = [kind] + tail_kinds
        bad = None
        for a, b in itertools.product(lp.reps, repeat=2):
            n += 1
            r = lp.run(p + a + b + tail)
            if not (isinstance(r, list) and [k for k, _ in r] == want
                    and r[0][1] == a + b):
                bad = a + b
                break
        chk.ob(rule, f"{kind} literal {p!r}+2", bad is None,
               f"{p + (bad or '') + tail!r} is lexed as "
               f"{lp.run(p + (bad or '') + tail)}: a payload character of the "
               "two-character string acts as syntax", file,
               witness=repr(p + (bad or "") + tail), sample={"literal": kind})
    blocks = {op: cl for op, cl in fr.block_comment}
    for op, cl in fr.block_comment:
        # a block comment ends at its first closer whatever its text is
        bad = None
        if cl is None:
            bad = ""
        else:
            pays = [""] + list(lp.reps) + [a + b for a in lp.reps
                                            for b in lp.reps]
            for p in pays:
                if cl in p + cl[:-1] or (p + cl).index(cl) != len(p):
                    continue
                n += 1
                if lp.run(op + p + cl + tail) != lp.run(tail):
                    bad = p
                    break
        chk.ob(rule, f"block comment {op!r}…{cl!r}", bad is None,
               f"the block comment {op + (bad or '') + (cl or '')!r} does "
               "not end at its closer" if cl is not None else
               f"after {op!r} the end of the line no longer ends the comment "
               "and no closer of one or two characters does", file,
               witness=repr(op + (bad or "") + (cl or "") + tail),
               sample="block comment")
    for h in fr.comment:
        bad = None
        for c in lp.reps:
            if c == "\n" or h + c in blocks:
                continue
            n += 1
            if lp.run(h + c + "\n" + tail) != lp.run(tail):
                bad = c
                break
        chk.ob(rule, f"comment {h!r}", bad is None,
               f"comment text {bad!r} leaks into the token stream: "
               f"{lp.run(h + (bad or '') + chr(10) + tail)}", file,
               witness=repr(h + (bad or "") + "\n" + tail),
               sample="comment")
    return n


def law_number_splitting(chk, lp, rule_prefix, file):
    """C05: adjacent numeric literals split as documented."""
    alpha = "07.°"
    n = 0
    findings = {}
    for ln in range(1, 6):
        for tup in itertools.product(alpha, repeat=ln):
            s = "".join(tup)
            n += 1
            r = lp.run(s)
            if isinstance(r, tuple):
                findings.setdefault("raises", s)
                continue
            if any(k != "NUMBER" for k, _ in r):
                findings.setdefault("kinds", s)
                continue
            vals = [v for _, v in r]
            if "".join(vals) != s:
                findings.setdefault("characters-kept", s)
                continue
            for v in vals:
                if v.count("°") > 1 or any(p.count(".") > 1
                                           for p in v.split("°")):
                    findings.setdefault("one-point-per-part", s)
                if v[0] == "0" and len(v) > 1 and v[1] not in ".°":
                    findings.setdefault("leading-zero-alone", s)
            for v, w in zip(vals, vals[1:]):
                cand = v + w[0]
                legal = cand.count("°") <= 1 and all(
                    p.count(".") <= 1 for p in cand.split("°")) and not (
                    v == "0" and w[0] not in ".°")
                if legal:
                    findings.setdefault("maximal-munch", s)
    # a NUMBER token is a contiguous piece of the program text: nothing
    # (a comment, a pre-pass) joins digits that other text separates
    for atom in lp.atoms():
        for s in ("7" + atom + "7", "1.5" + atom + "5"):
            n += 1
            r = lp.run(s)
            if isinstance(r, tuple):
                continue
            for k, v in r:
                if k == "NUMBER" and v not in s:
                    findings.setdefault("contiguous", s)
    laws = {
        "contiguous": "a NUMBER token is not a contiguous piece of the "
                      "program text (digits separated by other text were "
                      "joined)",
        "raises": "the lexer raises on a digit string",
        "kinds": "a digit string produces a token that is not a NUMBER",
        "characters-kept": "the number tokens do not spell the input "
                           "(a character is dropped or duplicated)",
        "one-point-per-part": "a NUMBER token holds two points in one part "
                              "(or two °)",
        "leading-zero-alone": "a leading 0 swallows the digits after it",
        "maximal-munch": "a literal stops although the next character could "
                         "still belong to it",
    }
    for key, text in laws.items():
        s = findings.get(key)
        chk.ob(f"{rule_prefix}.number-splitting-{key}", "lexer on digit strings",
               s is None, f"{text}: {s!r} is lexed as {lp.run(s) if s else ''}",
               file, witness=repr(s) if s else None,
               sample={"digit strings": n} if key == "kinds" else None)
    return n
