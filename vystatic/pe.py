"""E1 - a restricted AST interpreter ("partial evaluator") for the pure subset
of Python in which the repository's *code generator* and its module-level
constants are written.

It is used to
  * fold module-level constants (code page, alphabets, parser tables, ...),
  * instantiate the code generator on shape-concrete, leaf-symbolic inputs
    (synthetic structure objects whose sub-branches are `Hole`s) to obtain the
    exact template text every transpiled program is assembled from.

The repository is never imported: values come from evaluating syntax trees.
Anything outside the supported subset raises `Unsupported` (-> exit status 2,
never a violation).
"""

from __future__ import annotations

import ast
import collections
import math as _math
import bisect as _bisect
import decimal as _decimal
import fractions as _fractions
import operator as _operator
import io as _io
import functools as _functools
import itertools as _itertools
import re
import string as _string
import textwrap as _textwrap

from .core import AnalysisError, Repo


class Unsupported(AnalysisError):
    pass


class _Return(Exception):
    def __init__(self, value):
        self.value = value


class _Break(Exception):
    pass


class _Continue(Exception):
    pass


class PRaise(Exception):
    """An exception raised by interpreted code."""

    def __init__(self, cls_name, args=(), node=None):
        super().__init__(cls_name, *args)
        self.cls_name = cls_name
        self.pargs = args
        self.node = node


class Opaque:
    """A value the interpreter knows nothing about (third-party module...)."""

    def __init__(self, name):
        self._name = name

    def __repr__(self):
        return f"<opaque {self._name}>"


class FunctionTypeMarker:
    __name__ = "FunctionType"


FUNCTION_TYPE = FunctionTypeMarker()


class Hole(list):
    """A symbolic sub-branch.  Subclass of list so that shape tests such as
    ``isinstance(x, list)`` / ``len`` keep working; the content is irrelevant
    because `transpile_ast(Hole)` is intercepted."""

    def __init__(self, name):
        super().__init__(["<hole>"])
        self.name = name

    def __repr__(self):
        return f"Hole({self.name})"

    def __hash__(self):
        return id(self)

    def __eq__(self, other):
        return self is other


class PFunc:
    def __init__(self, interp, node, module, closure=None, owner=None):
        self.interp = interp
        self.node = node
        self.module = module
        self.closure = closure  # Env or None
        self.owner = owner  # defining PClass for methods
        self.attrs = {}
        self.__name__ = getattr(node, "name", "<lambda>")
        self.defaults = None
        self.kw_defaults = None
        self.decorators = []

    def __call__(self, *args, **kwargs):
        return self.interp.call_function(self, list(args), kwargs)

    def __repr__(self):
        return f"<pfunc {self.module.name}.{self.__name__}>"


class BoundMethod:
    def __init__(self, func, self_obj):
        self.func = func
        self.self_obj = self_obj
        self.__name__ = func.__name__

    def __call__(self, *args, **kwargs):
        return self.func(self.self_obj, *args, **kwargs)


class PClass:
    def __init__(self, name, bases, ns, module):
        self.__name__ = name
        self.name = name
        self.bases = bases
        self.ns = ns
        self.module = module

    def mro(self):
        out = [self]
        for b in self.bases:
            if isinstance(b, PClass):
                for c in b.mro():
                    if c not in out:
                        out.append(c)
        return out

    def lookup(self, attr, after=None):
        mro = self.mro()
        if after is not None:
            mro = mro[mro.index(after) + 1:]
        for c in mro:
            if attr in c.ns:
                return c.ns[attr]
        return None

    def __repr__(self):
        return f"<pclass {self.name}>"


class PEnumMember:
    def __init__(self, cls, name, value):
        self.cls = cls
        self.name = name
        self.value = value

    def __repr__(self):
        return f"{self.cls.name}.{self.name}"


class PInstance:
    def __init__(self, cls):
        object.__setattr__(self, "cls", cls)
        object.__setattr__(self, "d", {})

    def __eq__(self, other):
        eq = self.cls.lookup("__eq__")
        if eq is not None:
            res = eq(self, other)
            if res is NotImplemented:
                return self is other
            return res
        return self is other

    def __ne__(self, other):
        return not self.__eq__(other)

    def __hash__(self):
        return id(self)

    def __repr__(self):
        r = self.cls.lookup("__repr__")
        if r is not None:
            return r(self)
        return f"<{self.cls.name} instance>"

    def __str__(self):
        r = self.cls.lookup("__str__")
        if r is not None:
            return r(self)
        return self.__repr__()


class SuperProxy:
    def __init__(self, owner, obj):
        self.owner = owner
        self.obj = obj


class Env:
    def __init__(self, parent=None):
        self.vars = {}
        self.parent = parent

    def lookup(self, name):
        if name in self.vars:
            return self.vars[name], True
        if self.parent is not None:
            return self.parent.lookup(name)
        return None, False


EXC_CHILDREN = {
    "LookupError": ("IndexError", "KeyError"),
    "ArithmeticError": ("ZeroDivisionError", "OverflowError"),
    "RuntimeError": ("RecursionError", "NotImplementedError"),
    "ValueError": ("UnicodeError",),
}


class PProperty:
    """@property on an interpreted class"""

    def __init__(self, fget):
        self.fget = fget

    def setter(self, fn):
        return self


class PStatic:
    def __init__(self, fn):
        self.fn = fn


class StubModule:
    def __init__(self, name, attrs):
        self._name = name
        self._attrs = attrs

    def get(self, attr):
        if attr in self._attrs:
            return self._attrs[attr]
        return Opaque(f"{self._name}.{attr}")


class PPackage:
    def __init__(self, interp, name):
        self.interp = interp
        self.name = name


class PModule:
    """Lazily evaluated module namespace."""

    def __init__(self, interp, name, mod):
        self.interp = interp
        self.name = name
        self.mod = mod
        self.ns = {}
        self.writers: dict[str, list[int]] = {}
        self.done: set[int] = set()
        self.running: set[int] = set()
        self.star: list[str] = []
        self.imports = {}
        for i, st in enumerate(mod.tree.body):
            for nm in self._bound_names(st):
                self.writers.setdefault(nm, []).append(i)
            if isinstance(st, ast.Import):
                for al in st.names:
                    if al.asname:
                        self.imports[al.asname] = ("module", al.name)
                    else:
                        self.imports[al.name.split(".")[0]] = (
                            "package", al.name.split(".")[0], al.name)
            elif isinstance(st, ast.ImportFrom):
                if st.module == "__future__":
                    continue
                for al in st.names:
                    if al.name == "*":
                        self.star.append(st.module)
                    else:
                        self.imports[al.asname or al.name] = (
                            "from", st.module, al.name)

    @staticmethod
    def _bound_names(st):
        names = []

        def targets(t):
            if isinstance(t, ast.Name):
                names.append(t.id)
            elif isinstance(t, (ast.Tuple, ast.List)):
                for e in t.elts:
                    targets(e)
            elif isinstance(t, ast.Starred):
                targets(t.value)

        if isinstance(st, (ast.FunctionDef, ast.ClassDef)):
            names.append(st.name)
        elif isinstance(st, ast.Assign):
            for t in st.targets:
                targets(t)
        elif isinstance(st, (ast.AugAssign, ast.AnnAssign)):
            targets(st.target)
        elif isinstance(st, ast.For):
            targets(st.target)
            for sub in st.body:
                names.extend(PModule._bound_names(sub))
        return names

    def has(self, name):
        try:
            self.get(name)
            return True
        except KeyError:
            return False

    def get(self, name):
        # while a top-level statement of this module is being executed, a
        # name means what the statements *before* it made of it (python
        # executes a module top to bottom): `x = a; x += b; x += c` must not
        # run `x += c` while evaluating the right-hand side of `x += b`
        limit = min(self.running) if self.running else None
        writers = list(self.writers.get(name, ()))
        if limit is not None and name in self.ns:
            earlier = [i for i in writers if i < limit]
            if earlier or any(i in self.running for i in writers):
                writers = earlier
        if name in self.ns and not any(
            i not in self.done and i not in self.running for i in writers
        ):
            return self.ns[name]
        if name in self.writers:
            for i in writers:
                if i in self.done or i in self.running:
                    continue
                self.running.add(i)
                try:
                    self.interp.exec_stmt(self.mod.tree.body[i],
                                          ModuleEnv(self), self)
                finally:
                    self.running.discard(i)
                self.done.add(i)
            if name in self.ns:
                return self.ns[name]
        if name in self.imports:
            val = self.interp.resolve_import(self.imports[name])
            self.ns[name] = val
            return val
        for modname in self.star:
            tgt = self.interp.any_module(modname)
            if isinstance(tgt, PModule) and not name.startswith("_"):
                try:
                    return tgt.get(name)
                except KeyError:
                    pass
        raise KeyError(name)


class ModuleEnv(Env):
    """Environment whose variables are the module namespace."""

    def __init__(self, pmod):
        super().__init__(None)
        self.pmod = pmod
        self.vars = pmod.ns

    def lookup(self, name):
        try:
            return self.pmod.get(name), True
        except KeyError:
            return None, False


_token_counter = [0]


def _token_hex(n=16):
    _token_counter[0] += 1
    return f"HEX{_token_counter[0]:04d}"


class _Uuid:
    """stand-in for uuid.uuid4(): str() has dashes, .hex does not"""

    def __init__(self, *a):
        self.hex = _token_hex(16).lower()

    def __str__(self):
        return "1b4e28ba-2fa1-11d2-883f-" + self.hex


def _identity_decorator(*a, **k):
    if len(a) == 1 and callable(a[0]) and not k:
        return a[0]
    return lambda f: f


def _re_sub(pattern, repl, s, count=0, flags=0):
    return re.sub(pattern, repl, s, count=count, flags=flags)


class Interp:
    STEP_BUDGET = 5_000_000

    def __init__(self, repo: Repo):
        self.repo = repo
        self.modules: dict[str, PModule] = {}
        self.steps = 0
        self.intercepts = {}  # (module, function) -> callable(args, kwargs)
        self.raise_log = []
        self.return_hits: set = set()  # (module, function, lineno) reached
        self.stubs = {
            "string": StubModule("string", {
                k: getattr(_string, k) for k in (
                    "ascii_letters", "ascii_lowercase", "ascii_uppercase",
                    "digits", "printable", "punctuation", "whitespace",
                    "hexdigits", "octdigits")}),
            "textwrap": StubModule("textwrap", {"indent": _textwrap.indent}),
            "re": StubModule("re", {
                k: getattr(re, k) for k in dir(re) if not k.startswith("_")}),
            "secrets": StubModule("secrets", {
                "token_hex": _token_hex,
                "token_urlsafe": lambda n=16: "u-R_l" + _token_hex(n)}),
            "uuid": StubModule("uuid", {"uuid4": _Uuid, "uuid1": _Uuid}),
            "time": StubModule("time", {"time": lambda: 1700000000.25,
                                        "time_ns": lambda: 1700000000250000000,
                                        "monotonic": lambda: 12345.5}),
            "random": StubModule("random", {
                "randint": lambda a, b: a, "getrandbits": lambda k: 12345,
                "random": lambda: 0.5}),
            "math": StubModule("math", {
                k: getattr(_math, k) for k in dir(_math)
                if not k.startswith("_")}),
            "collections": StubModule(
                "collections", {"deque": collections.deque,
                                "defaultdict": collections.defaultdict,
                                "OrderedDict": collections.OrderedDict,
                                "Counter": collections.Counter}),
            "io": StubModule("io", {"StringIO": _io.StringIO,
                                    "BytesIO": _io.BytesIO}),
            "functools": StubModule("functools", {
                "partial": _functools.partial, "reduce": _functools.reduce,
                "lru_cache": _identity_decorator, "cache": lambda f: f,
                "wraps": lambda f: (lambda g: g)}),
            "itertools": StubModule("itertools", {
                k: getattr(_itertools, k) for k in dir(_itertools)
                if not k.startswith("_")}),
            "types": StubModule("types", {"FunctionType": FUNCTION_TYPE}),
            # pure value libraries of the standard library run as they are
            "decimal": StubModule("decimal", {
                k: getattr(_decimal, k) for k in dir(_decimal)
                if not k.startswith("_")}),
            "fractions": StubModule("fractions", {
                "Fraction": _fractions.Fraction}),
            "operator": StubModule("operator", {
                k: getattr(_operator, k) for k in dir(_operator)
                if not k.startswith("_")}),
            "bisect": StubModule("bisect", {
                k: getattr(_bisect, k) for k in dir(_bisect)
                if not k.startswith("_")}),
            "enum": StubModule("enum", {"Enum": "ENUM_BASE"}),
        }
        self.builtins = {
            "len": len, "str": str, "int": int, "range": range,
            "list": list, "tuple": tuple, "dict": dict, "set": set,
            "bool": bool, "repr": self._b_repr, "chr": chr, "ord": ord,
            "enumerate": enumerate, "zip": zip, "map": map, "filter": filter,
            "any": any, "all": all, "min": min, "max": max, "sum": sum,
            "sorted": sorted, "reversed": reversed, "abs": abs,
            "iter": iter, "next": next, "isinstance": self._b_isinstance,
            "type": self._b_type, "True": True, "False": False, "None": None,
            "NotImplemented": NotImplemented, "divmod": divmod,
            "float": float, "frozenset": frozenset, "print": lambda *a, **k: None,
            "complex": complex, "bytes": bytes, "object": object,
            "property": PProperty, "staticmethod": PStatic,
            "slice": slice, "round": round, "pow": pow, "callable": callable,
            "bin": bin, "hex": hex, "oct": oct, "ascii": ascii,
            "bytearray": bytearray,
            "dir": self._b_dir, "hasattr": self._b_hasattr,
            "getattr": self._b_getattr,
            "ValueError": "EXC:ValueError", "TypeError": "EXC:TypeError",
            "Exception": "EXC:Exception", "StopIteration": "EXC:StopIteration",
            "IndexError": "EXC:IndexError", "KeyError": "EXC:KeyError",
            "AssertionError": "EXC:AssertionError",
            "NotImplementedError": "EXC:NotImplementedError",
            "BaseException": "EXC:BaseException",
            "LookupError": "EXC:LookupError",
            "ArithmeticError": "EXC:ArithmeticError",
            "ZeroDivisionError": "EXC:ZeroDivisionError",
            "OverflowError": "EXC:OverflowError",
            "AttributeError": "EXC:AttributeError",
            "SyntaxError": "EXC:SyntaxError",
            "RecursionError": "EXC:RecursionError",
            "RuntimeError": "EXC:RuntimeError",
            "MemoryError": "EXC:MemoryError",
            "UnicodeError": "EXC:UnicodeError",
        }

    # -- module handling -----------------------------------------------------
    def module(self, name) -> PModule:
        if name not in self.modules:
            self.modules[name] = PModule(self, name, self.repo.mod(name))
        return self.modules[name]

    def any_module(self, name):
        if name in self.stubs:
            return self.stubs[name]
        if name == "vyxal":
            return PPackage(self, "vyxal")
        if name.startswith("vyxal.") and self.repo.has(name):
            return self.module(name)
        return Opaque(f"module {name}")

    def resolve_import(self, spec):
        if spec[0] == "module":
            return self.any_module(spec[1])
        if spec[0] == "package":
            if spec[1] == "vyxal":
                return PPackage(self, "vyxal")
            return self.any_module(spec[1])
        _, modname, attr = spec
        if modname == "vyxal" and self.repo.has(f"vyxal.{attr}"):
            return self.module(f"vyxal.{attr}")
        tgt = self.any_module(modname)
        return self.getattr(tgt, attr)

    # -- builtins needing interpreter knowledge --------------------------------
    def _b_str(self, *a, **k):
        if not a:
            return ""
        return str(a[0])

    def _b_repr(self, x):
        return repr(x)

    def _b_dir(self, x):
        if isinstance(x, PInstance):
            return list(x.d) + [k for c in x.cls.mro() for k in c.ns]
        if isinstance(x, PFunc):
            return list(x.attrs)
        raise Unsupported("dir() of native value")

    def _b_hasattr(self, x, name):
        try:
            self.getattr(x, name)
            return True
        except (Unsupported, PRaise, AttributeError):
            return False

    def _b_getattr(self, x, name, *default):
        try:
            return self.getattr(x, name)
        except (Unsupported, AttributeError):
            if default:
                return default[0]
            raise

    def _b_type(self, x):
        if isinstance(x, PInstance):
            return x.cls
        if isinstance(x, PEnumMember):
            return x.cls
        if isinstance(x, PFunc):
            return FUNCTION_TYPE
        return type(x)

    def _b_isinstance(self, x, t):
        if isinstance(t, tuple):
            return any(self._b_isinstance(x, u) for u in t)
        if isinstance(t, PClass):
            if isinstance(x, PInstance):
                return t in x.cls.mro()
            if isinstance(x, PEnumMember):
                return x.cls is t
            return False
        if t is FUNCTION_TYPE:
            return isinstance(x, (PFunc, BoundMethod))
        if isinstance(t, type):
            if isinstance(x, (PInstance, PFunc, PClass, PEnumMember)):
                return False
            return isinstance(x, t)
        if isinstance(t, Opaque):
            return False
        raise Unsupported(f"isinstance against {t!r}")

    # -- attribute access ------------------------------------------------------
    def getattr(self, obj, attr):
        if isinstance(obj, PInstance):
            if attr in obj.d:
                return obj.d[attr]
            if attr == "__class__":
                return obj.cls
            v = obj.cls.lookup(attr)
            if v is None:
                raise PRaise("AttributeError", (f"{obj.cls.name}.{attr}",))
            if isinstance(v, PProperty):
                return self.call(v.fget, [obj], {})
            if isinstance(v, PStatic):
                return v.fn
            if isinstance(v, PFunc):
                return BoundMethod(v, obj)
            return v
        if isinstance(obj, PModule):
            try:
                return obj.get(attr)
            except KeyError:
                raise PRaise("AttributeError", (f"{obj.name}.{attr}",))
        if isinstance(obj, PPackage):
            full = f"{obj.name}.{attr}"
            if self.repo.has(full):
                return self.module(full)
            raise Unsupported(f"unknown submodule {full}")
        if isinstance(obj, StubModule):
            return obj.get(attr)
        if isinstance(obj, PClass):
            if attr in ("__name__",):
                return obj.name
            v = obj.lookup(attr)
            if v is None:
                raise PRaise("AttributeError", (f"{obj.name}.{attr}",))
            return v
        if isinstance(obj, PEnumMember):
            if attr == "name":
                return obj.name
            if attr == "value":
                return obj.value
            raise PRaise("AttributeError", (attr,))
        if isinstance(obj, PFunc):
            if attr == "__name__":
                return obj.__name__
            if attr in obj.attrs:
                return obj.attrs[attr]
            raise PRaise("AttributeError", (attr,))
        if isinstance(obj, SuperProxy):
            v = obj.obj.cls.lookup(attr, after=obj.owner)
            if v is None:
                if attr == "__init__":
                    return lambda *a, **k: None
                raise PRaise("AttributeError", (attr,))
            if isinstance(v, PFunc):
                return BoundMethod(v, obj.obj)
            return v
        if isinstance(obj, Opaque):
            return Opaque(f"{obj._name}.{attr}")
        if isinstance(obj, FunctionTypeMarker):
            if attr == "__name__":
                return "function"
        if isinstance(obj, (str, list, tuple, dict, set, frozenset, int,
                            collections.deque, bytes, range, re.Pattern, re.Match,
                            _io.StringIO, _io.BytesIO,
                            _Uuid,
                            type(iter([])),
                            type(iter("")), type(iter(())), float,
                            _decimal.Decimal, _fractions.Fraction,
                            complex)) \
                or type(obj).__name__.endswith("iterator") \
                or isinstance(obj, type):
            if attr.startswith("__") and attr not in ("__name__", "__len__"):
                raise Unsupported(f"dunder attribute {attr} on native value")
            return getattr(obj, attr)
        raise Unsupported(f"attribute {attr} of {type(obj).__name__}")

    def setattr(self, obj, attr, val):
        if isinstance(obj, PInstance):
            obj.d[attr] = val
        elif isinstance(obj, PFunc):
            if attr == "__name__":
                obj.__name__ = val
            obj.attrs[attr] = val
        else:
            raise Unsupported(f"attribute store on {type(obj).__name__}")

    # -- calls -------------------------------------------------------------------
    def call(self, fn, args, kwargs, node=None):
        if isinstance(fn, PFunc):
            return self.call_function(fn, args, kwargs)
        if isinstance(fn, BoundMethod):
            return self.call(fn.func, [fn.self_obj] + list(args), kwargs)
        if isinstance(fn, PClass):
            return self.instantiate(fn, args, kwargs)
        if isinstance(fn, Opaque):
            raise Unsupported(f"call of opaque {fn._name}")
        if isinstance(fn, str) and fn.startswith("EXC:"):
            return PRaise(fn[4:], tuple(args))
        if callable(fn):
            try:
                return fn(*args, **kwargs)
            except (_Return, _Break, _Continue, AnalysisError, PRaise):
                raise
            except StopIteration:
                raise
            except Exception as exc:  # native exception -> interpreted raise
                raise PRaise(type(exc).__name__, exc.args) from exc
        raise Unsupported(f"call of {fn!r}")

    def instantiate(self, cls, args, kwargs):
        if "ENUM_BASE" in cls.bases:
            raise Unsupported("enum instantiation")
        inst = PInstance(cls)
        init = cls.lookup("__init__")
        if init is not None:
            self.call_function(init, [inst] + list(args), kwargs)
        return inst

    def call_function(self, fn: PFunc, args, kwargs):
        key = (fn.module.name, fn.__name__)
        hook = self.intercepts.get(key)
        if hook is not None:
            res = hook(fn, args, kwargs)
            if res is not NotImplemented:
                return res
        node = fn.node
        env = Env(fn.closure if fn.closure is not None
                  else ModuleEnv(fn.module))
        self.bind_args(fn, node.args, args, kwargs, env)
        if fn.owner is not None:
            env.vars["__class__"] = fn.owner
        if isinstance(node, ast.Lambda):
            return self.eval(node.body, env, fn.module)
        try:
            self.exec_block(node.body, env, fn.module)
        except _Return as r:
            self.return_hits.add((fn.module.name, fn.__name__, r.lineno))
            return r.value
        return None

    def bind_args(self, fn, a: ast.arguments, args, kwargs, env):
        if fn.defaults is None:
            denv = fn.closure if fn.closure is not None else ModuleEnv(fn.module)
            fn.defaults = [self.eval(d, denv, fn.module) for d in a.defaults]
            fn.kw_defaults = [
                None if d is None else self.eval(d, denv, fn.module)
                for d in a.kw_defaults]
        params = [p.arg for p in a.posonlyargs + a.args]
        args = list(args)
        kwargs = dict(kwargs)
        n_def = len(fn.defaults)
        for i, p in enumerate(params):
            if i < len(args):
                env.vars[p] = args[i]
            elif p in kwargs:
                env.vars[p] = kwargs.pop(p)
            else:
                di = i - (len(params) - n_def)
                if di < 0:
                    raise PRaise("TypeError", (f"missing argument {p} of "
                                               f"{fn.__name__}",))
                env.vars[p] = fn.defaults[di]
        extra = args[len(params):]
        if a.vararg:
            env.vars[a.vararg.arg] = tuple(extra)
        elif extra:
            raise PRaise("TypeError", (f"too many arguments for {fn.__name__}",))
        for p, d in zip(a.kwonlyargs, fn.kw_defaults):
            if p.arg in kwargs:
                env.vars[p.arg] = kwargs.pop(p.arg)
            elif d is not None or True:
                env.vars[p.arg] = d
        if a.kwarg:
            env.vars[a.kwarg.arg] = kwargs
        elif kwargs:
            raise PRaise("TypeError",
                         (f"unexpected keyword {list(kwargs)} for "
                          f"{fn.__name__}",))

    # -- statements ----------------------------------------------------------
    def tick(self):
        self.steps += 1
        if self.steps > self.STEP_BUDGET:
            raise Unsupported("interpreter step budget exhausted")

    def exec_block(self, stmts, env, mod):
        for st in stmts:
            self.exec_stmt(st, env, mod)

    def exec_stmt(self, st, env, mod):
        self.tick()
        m = getattr(self, "x_" + type(st).__name__, None)
        if m is None:
            raise Unsupported(
                f"statement {type(st).__name__} at {mod.name}:{st.lineno}")
        return m(st, env, mod)

    def x_Expr(self, st, env, mod):
        self.eval(st.value, env, mod)

    def x_Pass(self, st, env, mod):
        pass

    def x_Import(self, st, env, mod):
        for al in st.names:
            if al.asname:
                env.vars[al.asname] = self.any_module(al.name)
            else:
                top = al.name.split(".")[0]
                env.vars[top] = self.any_module(top)

    def x_ImportFrom(self, st, env, mod):
        for al in st.names:
            if al.name == "*":
                raise Unsupported("star import inside function")
            env.vars[al.asname or al.name] = self.resolve_import(
                ("from", st.module, al.name))

    def x_Assign(self, st, env, mod):
        val = self.eval(st.value, env, mod)
        for t in st.targets:
            self.assign(t, val, env, mod)

    def x_AnnAssign(self, st, env, mod):
        if st.value is not None:
            self.assign(st.target, self.eval(st.value, env, mod), env, mod)

    def x_AugAssign(self, st, env, mod):
        load = ast.copy_location(
            type(st.target)(**{**{f: getattr(st.target, f)
                                  for f in st.target._fields}, "ctx": ast.Load()}),
            st.target)
        cur = self.eval(load, env, mod)
        rhs = self.eval(st.value, env, mod)
        if isinstance(cur, list) and isinstance(st.op, ast.Add):
            cur.extend(rhs)  # in-place semantics of list +=
            val = cur
        else:
            val = self.binop(st.op, cur, rhs)
        self.assign(st.target, val, env, mod)

    def assign(self, t, val, env, mod):
        if isinstance(t, ast.Name):
            self.store_name(t.id, val, env)
        elif isinstance(t, (ast.Tuple, ast.List)):
            vals = list(val)
            star = [i for i, e in enumerate(t.elts)
                    if isinstance(e, ast.Starred)]
            if star:
                i = star[0]
                after = len(t.elts) - i - 1
                self.assign_seq(t.elts[:i], vals[:i], env, mod)
                self.assign(t.elts[i].value,
                            vals[i:len(vals) - after], env, mod)
                self.assign_seq(t.elts[i + 1:], vals[len(vals) - after:],
                                env, mod)
            else:
                if len(vals) != len(t.elts):
                    raise PRaise("ValueError", ("unpack length mismatch",))
                self.assign_seq(t.elts, vals, env, mod)
        elif isinstance(t, ast.Attribute):
            self.setattr(self.eval(t.value, env, mod), t.attr, val)
        elif isinstance(t, ast.Subscript):
            obj = self.eval(t.value, env, mod)
            idx = self.eval_index(t.slice, env, mod)
            if isinstance(obj, (list, dict, collections.deque)):
                obj[idx] = val
            else:
                raise Unsupported("subscript store on non-container")
        else:
            raise Unsupported(f"assignment target {type(t).__name__}")

    def assign_seq(self, elts, vals, env, mod):
        for e, v in zip(elts, vals):
            self.assign(e, v, env, mod)

    def store_name(self, name, val, env):
        scope = env
        nl = getattr(env, "nonlocals", None)
        if nl and name in nl:
            e = env.parent
            while e is not None:
                if name in e.vars:
                    e.vars[name] = val
                    return
                e = e.parent
        scope.vars[name] = val

    def x_If(self, st, env, mod):
        if self.truth(self.eval(st.test, env, mod)):
            self.exec_block(st.body, env, mod)
        else:
            self.exec_block(st.orelse, env, mod)

    def x_For(self, st, env, mod):
        it = self.eval(st.iter, env, mod)
        broke = False
        for v in self.iterate(it):
            self.tick()
            self.assign(st.target, v, env, mod)
            try:
                self.exec_block(st.body, env, mod)
            except _Break:
                broke = True
                break
            except _Continue:
                continue
        if not broke:
            self.exec_block(st.orelse, env, mod)

    def x_While(self, st, env, mod):
        while self.truth(self.eval(st.test, env, mod)):
            self.tick()
            try:
                self.exec_block(st.body, env, mod)
            except _Break:
                return
            except _Continue:
                continue
        self.exec_block(st.orelse, env, mod)

    def x_Break(self, st, env, mod):
        raise _Break()

    def x_Continue(self, st, env, mod):
        raise _Continue()

    def x_Return(self, st, env, mod):
        r = _Return(None if st.value is None else self.eval(st.value, env, mod))
        r.lineno = st.lineno
        raise r

    def x_Raise(self, st, env, mod):
        if st.exc is None:
            raise Unsupported("bare raise")
        exc = self.eval(st.exc, env, mod)
        if isinstance(exc, str) and exc.startswith("EXC:"):
            exc = PRaise(exc[4:], ())
        if isinstance(exc, PRaise):
            exc.node = st
            self.raise_log.append((mod.name, st.lineno, exc.cls_name))
            raise exc
        raise Unsupported("raise of non-exception value")

    def x_Assert(self, st, env, mod):
        if not self.truth(self.eval(st.test, env, mod)):
            self.raise_log.append((mod.name, st.lineno, "AssertionError"))
            raise PRaise("AssertionError", (), st)

    def x_Try(self, st, env, mod):
        try:
            try:
                self.exec_block(st.body, env, mod)
            except (PRaise, StopIteration) as exc:
                name = (exc.cls_name if isinstance(exc, PRaise)
                        else "StopIteration")
                for h in st.handlers:
                    if self.handler_matches(h, name, env, mod):
                        if h.name:
                            env.vars[h.name] = exc
                        self.exec_block(h.body, env, mod)
                        break
                else:
                    raise
            else:
                self.exec_block(st.orelse, env, mod)
        finally:
            self.exec_block(st.finalbody, env, mod)

    def handler_matches(self, h, name, env, mod):
        if h.type is None:
            return True
        t = self.eval(h.type, env, mod)
        ts = t if isinstance(t, tuple) else (t,)
        for u in ts:
            if isinstance(u, str) and u.startswith("EXC:"):
                if u[4:] in (name, "Exception", "BaseException") \
                        or name in EXC_CHILDREN.get(u[4:], ()):
                    return True
        return False

    def x_FunctionDef(self, st, env, mod):
        closure = None if isinstance(env, ModuleEnv) else env
        fn = PFunc(self, st, mod, closure)
        fn.decorators = [ast.unparse(d) for d in st.decorator_list]
        val = fn
        for dec in reversed(st.decorator_list):
            try:
                d = self.eval(dec, env, mod)
                val = self.call(d, [val], {})
            except Unsupported:
                val = fn  # unknown decorator: keep the raw function
        self.store_name(st.name, val, env)

    def x_ClassDef(self, st, env, mod):
        bases = [self.eval(b, env, mod) for b in st.bases]
        cenv = Env(env)
        cls = PClass(st.name, bases, cenv.vars, mod)
        if "ENUM_BASE" in bases:
            for sub in st.body:
                if isinstance(sub, ast.Assign) and isinstance(
                        sub.targets[0], ast.Name):
                    nm = sub.targets[0].id
                    cenv.vars[nm] = PEnumMember(
                        cls, nm, self.eval(sub.value, cenv, mod))
        else:
            for sub in st.body:
                if isinstance(sub, ast.FunctionDef):
                    fn = PFunc(self, sub, mod,
                               None if isinstance(env, ModuleEnv) else env,
                               owner=cls)
                    fn.decorators = [ast.unparse(d)
                                     for d in sub.decorator_list]
                    if "property" in fn.decorators:
                        cenv.vars[sub.name] = PProperty(fn)
                    elif "staticmethod" in fn.decorators:
                        cenv.vars[sub.name] = PStatic(fn)
                    elif any(d.endswith(".setter") for d in fn.decorators):
                        pass  # keep the getter
                    else:
                        cenv.vars[sub.name] = fn
                elif isinstance(sub, ast.Expr) and isinstance(
                        sub.value, ast.Constant):
                    continue
                else:
                    self.exec_stmt(sub, cenv, mod)
        self.store_name(st.name, cls, env)

    def x_Nonlocal(self, st, env, mod):
        if not hasattr(env, "nonlocals"):
            env.nonlocals = set()
        env.nonlocals.update(st.names)

    def x_Global(self, st, env, mod):
        raise Unsupported("global statement")

    def x_Delete(self, st, env, mod):
        for t in st.targets:
            if isinstance(t, ast.Subscript):
                obj = self.eval(t.value, env, mod)
                del obj[self.eval_index(t.slice, env, mod)]
            elif isinstance(t, ast.Name):
                env.vars.pop(t.id, None)
            else:
                raise Unsupported("del target")

    # -- expressions -----------------------------------------------------------
    def truth(self, v):
        if isinstance(v, Opaque):
            raise Unsupported(f"truth value of {v!r}")
        return bool(v)

    def iterate(self, it):
        if isinstance(it, (PInstance, Opaque, PFunc)):
            raise Unsupported(f"iteration over {it!r}")
        return iter(it)

    def eval(self, node, env, mod):
        self.tick()
        m = getattr(self, "e_" + type(node).__name__, None)
        if m is None:
            raise Unsupported(
                f"expression {type(node).__name__} at "
                f"{mod.name}:{getattr(node, 'lineno', '?')}")
        return m(node, env, mod)

    def e_Constant(self, node, env, mod):
        return node.value

    def e_Name(self, node, env, mod):
        val, ok = env.lookup(node.id)
        if ok:
            return val
        e = env
        while e is not None and not isinstance(e, ModuleEnv):
            e = e.parent
        if e is None:
            try:
                return mod.get(node.id)
            except KeyError:
                pass
        if node.id in self.builtins:
            return self.builtins[node.id]
        if node.id == "super":
            return "SUPER"
        raise PRaise("NameError", (node.id,))

    def e_Attribute(self, node, env, mod):
        return self.getattr(self.eval(node.value, env, mod), node.attr)

    def eval_index(self, sl, env, mod):
        if isinstance(sl, ast.Slice):
            return slice(
                None if sl.lower is None else self.eval(sl.lower, env, mod),
                None if sl.upper is None else self.eval(sl.upper, env, mod),
                None if sl.step is None else self.eval(sl.step, env, mod))
        if isinstance(sl, ast.Tuple):
            return tuple(self.eval_index(e, env, mod) for e in sl.elts)
        return self.eval(sl, env, mod)

    def e_Subscript(self, node, env, mod):
        obj = self.eval(node.value, env, mod)
        if isinstance(obj, (Opaque, type)):
            return Opaque("subscripted type")
        idx = self.eval_index(node.slice, env, mod)
        if isinstance(obj, (PInstance, PFunc, PClass)):
            raise Unsupported("subscript of interpreted object")
        try:
            return obj[idx]
        except (IndexError, KeyError, TypeError) as exc:
            raise PRaise(type(exc).__name__, exc.args) from exc

    def e_List(self, node, env, mod):
        return self.seq(node.elts, env, mod)

    def e_Tuple(self, node, env, mod):
        return tuple(self.seq(node.elts, env, mod))

    def e_Set(self, node, env, mod):
        return set(self.seq(node.elts, env, mod))

    def seq(self, elts, env, mod):
        out = []
        for e in elts:
            if isinstance(e, ast.Starred):
                out.extend(self.iterate(self.eval(e.value, env, mod)))
            else:
                out.append(self.eval(e, env, mod))
        return out

    def e_Dict(self, node, env, mod):
        out = {}
        for k, v in zip(node.keys, node.values):
            if k is None:
                out.update(self.eval(v, env, mod))
            else:
                out[self.eval(k, env, mod)] = self.eval(v, env, mod)
        return out

    def e_JoinedStr(self, node, env, mod):
        parts = []
        for v in node.values:
            if isinstance(v, ast.Constant):
                parts.append(str(v.value))
            else:
                parts.append(self.e_FormattedValue(v, env, mod))
        return "".join(parts)

    def e_FormattedValue(self, node, env, mod):
        val = self.eval(node.value, env, mod)
        if isinstance(val, Opaque):
            raise Unsupported("formatting an opaque value")
        if node.conversion == 114:
            val = repr(val)
        elif node.conversion == 115:
            val = str(val)
        elif node.conversion == 97:
            val = ascii(val)
        spec = ""
        if node.format_spec is not None:
            spec = self.eval(node.format_spec, env, mod)
        return format(val, spec)

    def binop(self, op, a, b):
        if isinstance(a, Opaque) or isinstance(b, Opaque):
            raise Unsupported("arithmetic on opaque value")
        try:
            if isinstance(op, ast.Add):
                return a + b
            if isinstance(op, ast.Sub):
                return a - b
            if isinstance(op, ast.Mult):
                return a * b
            if isinstance(op, ast.Mod):
                return a % b
            if isinstance(op, ast.FloorDiv):
                return a // b
            if isinstance(op, ast.Div):
                return a / b
            if isinstance(op, ast.Pow):
                return a ** b
            if isinstance(op, ast.BitOr):
                return a | b
            if isinstance(op, ast.BitAnd):
                return a & b
            if isinstance(op, ast.LShift):
                return a << b
            if isinstance(op, ast.RShift):
                return a >> b
        except (TypeError, ValueError, ZeroDivisionError) as exc:
            raise PRaise(type(exc).__name__, exc.args) from exc
        raise Unsupported(f"operator {type(op).__name__}")

    def e_BinOp(self, node, env, mod):
        return self.binop(node.op, self.eval(node.left, env, mod),
                          self.eval(node.right, env, mod))

    def e_UnaryOp(self, node, env, mod):
        v = self.eval(node.operand, env, mod)
        if isinstance(node.op, ast.Not):
            return not self.truth(v)
        if isinstance(node.op, ast.USub):
            return -v
        if isinstance(node.op, ast.UAdd):
            return +v
        raise Unsupported("unary operator")

    def e_BoolOp(self, node, env, mod):
        if isinstance(node.op, ast.And):
            v = True
            for e in node.values:
                v = self.eval(e, env, mod)
                if not self.truth(v):
                    return v
            return v
        v = False
        for e in node.values:
            v = self.eval(e, env, mod)
            if self.truth(v):
                return v
        return v

    def e_IfExp(self, node, env, mod):
        if self.truth(self.eval(node.test, env, mod)):
            return self.eval(node.body, env, mod)
        return self.eval(node.orelse, env, mod)

    def e_Compare(self, node, env, mod):
        left = self.eval(node.left, env, mod)
        for op, right_n in zip(node.ops, node.comparators):
            right = self.eval(right_n, env, mod)
            if not self.compare(op, left, right):
                return False
            left = right
        return True

    def compare(self, op, a, b):
        if isinstance(a, Opaque) or isinstance(b, Opaque):
            if isinstance(op, (ast.Is, ast.IsNot)):
                return (a is b) == isinstance(op, ast.Is)
            raise Unsupported("comparison with opaque value")
        try:
            if isinstance(op, ast.Eq):
                return a == b
            if isinstance(op, ast.NotEq):
                return a != b
            if isinstance(op, ast.Lt):
                return a < b
            if isinstance(op, ast.LtE):
                return a <= b
            if isinstance(op, ast.Gt):
                return a > b
            if isinstance(op, ast.GtE):
                return a >= b
            if isinstance(op, ast.Is):
                return a is b
            if isinstance(op, ast.IsNot):
                return a is not b
            if isinstance(op, ast.In):
                return a in b
            if isinstance(op, ast.NotIn):
                return a not in b
        except TypeError as exc:
            raise PRaise("TypeError", exc.args) from exc
        raise Unsupported("comparison operator")

    def e_Call(self, node, env, mod):
        if isinstance(node.func, ast.Name) and node.func.id == "super" \
                and not node.args:
            owner, ok = env.lookup("__class__")
            if not ok:
                raise Unsupported("super() outside method")
            # first positional parameter of the enclosing function
            e = env
            while e is not None and "__class__" not in e.vars:
                e = e.parent
            self_obj = next(iter(e.vars.values()))
            return SuperProxy(owner, self_obj)
        fn = self.eval(node.func, env, mod)
        args = self.seq(node.args, env, mod)
        kwargs = {}
        for kw in node.keywords:
            if kw.arg is None:
                kwargs.update(self.eval(kw.value, env, mod))
            else:
                kwargs[kw.arg] = self.eval(kw.value, env, mod)
        return self.call(fn, args, kwargs, node)

    def e_Lambda(self, node, env, mod):
        return PFunc(self, node, mod,
                     None if isinstance(env, ModuleEnv) else env)

    def comp(self, gens, env, mod, emit):
        def rec(i, e):
            if i == len(gens):
                emit(e)
                return
            g = gens[i]
            for v in self.iterate(self.eval(g.iter, e, mod)):
                self.tick()
                e2 = Env(e)
                self.assign(g.target, v, e2, mod)
                if all(self.truth(self.eval(c, e2, mod)) for c in g.ifs):
                    rec(i + 1, e2)
        rec(0, env)

    def e_ListComp(self, node, env, mod):
        out = []
        self.comp(node.generators, env, mod,
                  lambda e: out.append(self.eval(node.elt, e, mod)))
        return out

    def e_GeneratorExp(self, node, env, mod):
        return iter(self.e_ListComp(node, env, mod))

    def e_SetComp(self, node, env, mod):
        return set(self.e_ListComp(node, env, mod))

    def e_DictComp(self, node, env, mod):
        out = {}

        def emit(e):
            out[self.eval(node.key, e, mod)] = self.eval(node.value, e, mod)
        self.comp(node.generators, env, mod, emit)
        return out

    def e_Starred(self, node, env, mod):
        raise Unsupported("starred expression outside call/sequence")

    def e_NamedExpr(self, node, env, mod):
        v = self.eval(node.value, env, mod)
        self.assign(node.target, v, env, mod)
        return v


def fold_constant(repo: Repo, modname: str, name: str, interp: Interp = None):
    """Value of a module-level name, by evaluating its defining statements."""
    interp = interp or Interp(repo)
    try:
        return interp.module(
            modname if "." in modname else f"vyxal.{modname}").get(name)
    except KeyError:
        raise AnalysisError(f"anchor vanished: {modname}.{name}")
