"""./check selftest [-j N] [--only PID] [--match LABEL-SUBSTRING]

Tests the checkers both ways on scratch copies of the repository (outside
/repo and /verif, removed afterwards):
  * mutants: one construct broken per copy - the named check must exit 1 and
    report the named rule;
  * benign twins: behaviour-preserving edits - every listed check must stay
    silent (exit 0).
Not part of any property's quick/thorough exit status."""

from __future__ import annotations

import concurrent.futures as cf
import os
import shutil
import subprocess
import sys
import tempfile

from .core import REPO_ROOT, VERIF_ROOT
from .selftest_cases import CASES


def run_case(case):
    pid, label, path, old, new, expect, rule = case
    d = tempfile.mkdtemp(prefix="vyselftest.")
    try:
        subprocess.run(["rsync", "-a", "--exclude", ".git", "--exclude",
                        "__pycache__", REPO_ROOT + "/", d + "/"], check=True)
        if path == "<patch>":
            r = subprocess.run(["patch", "-p1", "-s", "-i", old], cwd=d,
                               capture_output=True, text=True)
            if r.returncode != 0:
                return (case, "STALE", "patch does not apply: "
                        + (r.stdout + r.stderr)[:200])
            return _verdict(case, d)
        fp = os.path.join(d, path)
        with open(fp, encoding="utf-8") as fh:
            src = fh.read()
        if callable(old):
            out = old(src)
        else:
            if src.count(old) < 1:
                return (case, "STALE", f"pattern not found in {path}")
            out = src.replace(old, new, 1)
        if out == src:
            return (case, "STALE", "edit changed nothing")
        with open(fp, "w", encoding="utf-8") as fh:
            fh.write(out)
        if path.endswith(".py"):
            try:
                compile(out, fp, "exec")
            except SyntaxError as exc:
                return (case, "STALE", f"mutant does not compile: {exc}")
        return _verdict(case, d)
    finally:
        shutil.rmtree(d, ignore_errors=True)


def _verdict(case, d):
    pid, label, path, old, new, expect, rule = case
    if True:
        env = dict(os.environ)
        env["VERIF_REPO"] = d
        env["VERIF_NOEVIDENCE"] = "1"
        env["TMPDIR"] = d
        pids = pid if isinstance(pid, (list, tuple)) else [pid]
        outs = []
        worst = 0
        for p in pids:
            r = subprocess.run([os.path.join(VERIF_ROOT, "check"), p, "quick"],
                               cwd=VERIF_ROOT, env=env, capture_output=True,
                               text=True, timeout=600)
            outs.append(r.stdout + r.stderr)
            worst = max(worst, r.returncode)
        text = "\n".join(outs)
        if expect == "documented-miss":
            # value-level change outside what the clause-level check decides
            # (DESIGN.md section 5/6); reported if it ever gets caught
            return (case, "OK" if worst == 0 else "NOW-CAUGHT", "")
        if expect == "violation":
            if worst == 1 and (rule is None or rule in text):
                return (case, "OK", "")
            return (case, "MISSED",
                    f"exit {worst}; " + " | ".join(
                        ln for ln in text.splitlines()
                        if ln.startswith(("finding", "ANALYSIS")))[:300])
        if worst == 0:
            return (case, "OK", "")
        return (case, "FALSE-ALARM" if worst == 1 else "BROKE",
                " | ".join(ln for ln in text.splitlines()
                           if ln.startswith(("finding", "ANALYSIS")))[:400])


def main(argv):
    jobs = 16
    only = None
    match = None
    i = 0
    while i < len(argv):
        if argv[i] == "-j":
            jobs = int(argv[i + 1])
            i += 1
        elif argv[i] == "--only":
            only = argv[i + 1].upper()
            i += 1
        elif argv[i] == "--match":  # substring of the case label
            match = argv[i + 1]
            i += 1
        i += 1
    cases = [c for c in CASES if only is None or only in (
        c[0] if isinstance(c[0], (list, tuple)) else [c[0]])]
    if match:
        cases = [c for c in cases if match in c[1]]
    bad = 0
    counts = {}
    with cf.ThreadPoolExecutor(max_workers=jobs) as ex:
        for case, verdict, msg in ex.map(run_case, cases):
            counts[verdict] = counts.get(verdict, 0) + 1
            pid, label, *_ = case
            tag = ",".join(pid) if isinstance(pid, (list, tuple)) else pid
            if verdict != "OK":
                bad += 1
                print(f"{verdict:12s} {tag:8s} {label}: {msg}")
            else:
                print(f"ok           {tag:8s} {label} [{case[5]}]")
    print("selftest:", ", ".join(f"{k}={v}" for k, v in sorted(counts.items())),
          f"({len(cases)} cases)")
    return 1 if bad else 0


if __name__ == "__main__":
    sys.exit(main(sys.argv[1:]))
