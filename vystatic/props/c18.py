"""C18 - generated Python contains program text only as constants.

Taint / sanitiser analysis of transpile.py: every flow of program text
(token values, structure names / parameters / arity) into returned code must
carry a sanitiser class adequate for the python context the surrounding
template text puts it in."""

from __future__ import annotations

import ast
import itertools

from ..core import AnalysisError, dotted
from ..kinds import ANYSET
from ..lexlaws import value_languages_probe
from ..lexprobe import LexProbe
from ..pe import Interp, ModuleEnv
from ..taint import TaintInterp, Obj, check_template
from ..templates import Gen, GeneratorRaised

level = "other"


def literal_escape_ok(body: str, quote='"'):
    """Can `body`, pasted between two quotes, leave the literal while the
    code stays syntactically valid?  (bare quote / odd trailing backslash)"""
    esc = False
    for ch in body:
        if esc:
            esc = False
            continue
        if ch == "\\":
            esc = True
        elif ch == quote:
            return False, "bare quote ends the literal early"
    if esc:
        return False, "trailing backslash escapes the closing quote"
    return True, ""


def _masked_shape(text):
    """ast dump of generated code with every constant masked; None when the
    text does not parse (then nothing can execute - C02's business)."""
    import warnings  # noqa: PLC0415
    try:
        with warnings.catch_warnings():
            warnings.simplefilter("ignore")
            tree = ast.parse(text)
    except (SyntaxError, ValueError):
        return None
    class Mask(ast.NodeTransformer):
        def visit_Constant(self, n):
            return ast.Constant(value=0)

        def visit_UnaryOp(self, n):
            # a signed number literal is still a number constant
            if isinstance(n.op, (ast.USub, ast.UAdd)) and isinstance(
                    n.operand, ast.Constant) and isinstance(
                    n.operand.value, (int, float)):
                return ast.Constant(value=0)
            return self.generic_visit(n)
    return ast.dump(Mask().visit(tree))


def _token_shape(text):
    """kinds of the python tokens of the generated text (names and operators
    spelled out, literals only by kind); "broken" when a literal does not
    end where the template ends it.  Unlike the syntax tree this exists for
    text that does not parse: a payload that closes the quoted literal early
    shows as extra tokens even if the remainder is (not yet) valid code."""
    import io  # noqa: PLC0415
    import tokenize  # noqa: PLC0415
    out = []
    try:
        for t in tokenize.generate_tokens(io.StringIO(text).readline):
            if t.type in (tokenize.NL, tokenize.NEWLINE, tokenize.INDENT,
                          tokenize.DEDENT, tokenize.ENDMARKER,
                          tokenize.COMMENT):
                if t.type == tokenize.COMMENT:
                    out.append("COMMENT")
                continue
            if t.type in (tokenize.STRING, tokenize.NUMBER):
                out.append(tokenize.tok_name[t.type])
            elif t.type == tokenize.OP and t.string in "+-" and out \
                    and out[-1] in ("(", ","):
                continue  # sign of a number literal
            else:
                out.append(t.string if t.type in (tokenize.NAME, tokenize.OP)
                           else tokenize.tok_name[t.type])
    except (tokenize.TokenError, SyntaxError, IndentationError,
            UnicodeError, ValueError):
        return "broken"
    return tuple(out)


FREE_TEXT_KINDS = ("STRING", "COMPRESSED_STRING", "COMPRESSED_NUMBER",
                   "CHARACTER", "CODEPAGE_NUMBER")


def verify_token_arms(chk, gen, tier, TF):
    """E5b: for every free-text token kind the *shape* of the emitted code
    (its AST with constants masked) is the same for every payload over the
    class alphabet - program text can only have landed inside constants."""
    fn = gen.repo.mod("transpile").function("transpile_token")
    consts = set()
    for n in ast.walk(gen.repo.mod("transpile").tree):
        if isinstance(n, ast.Compare):
            for k in n.comparators:
                if isinstance(k, ast.Constant) and isinstance(k.value, str) \
                        and len(k.value) == 1:
                    consts.add(k.value)
    sigma = sorted(consts | set("\\`\"'\n\r\0a)(#{%\t;:[^ +,") | {"é", "\u2028"})
    maxlen = 3 if tier == "thorough" else 2
    out = {}
    total = 0
    for kind in FREE_TEXT_KINDS:
        ok, why = True, ""
        lens = range(0, maxlen + 1)
        if kind in ("CHARACTER", "CODEPAGE_NUMBER"):
            lens = range(1, 2)
        for dc in ((False, True) if kind == "STRING" else (True,)):
            try:
                ref_text = gen.transpile_token(
                    gen.token(kind, "a"), 0, dict_compress=dc)
                ref = _masked_shape(ref_text)
                ref_tokens = _token_shape(ref_text)
            except GeneratorRaised as exc:
                ok, why = False, f"raised {exc} on 'a'"
                continue
            small = ['"', "'", "\\", "+", ")", "(", "a", "\n", ","]
            for ln in list(lens) + ([3] if maxlen == 2 and len(lens) > 2
                                    else []):
                for tup in itertools.product(
                        small if ln == 3 and maxlen == 2 else sigma,
                        repeat=ln):
                    s = "".join(tup)
                    total += 1
                    try:
                        text = gen.transpile_token(gen.token(kind, s), 0,
                                                   dict_compress=dc)
                    except GeneratorRaised:
                        continue  # no code returned
                    shape = _masked_shape(text)
                    good = shape is None or shape == ref
                    if shape is None and "\0" not in text \
                            and _token_shape(text) != ref_tokens:
                        # does not parse *and* the payload is no longer
                        # inside one literal token: a longer payload can
                        # complete it to valid code
                        good = False
                    chk.ob("C18.emitted-shape-independent-of-payload",
                           f"transpile_token/{kind}", good,
                           f"{kind} payload {s!r} is emitted as "
                           f"{text.strip()!r}, whose syntax tree differs from "
                           "the one for a plain payload: program text has "
                           "left the constant", TF, witness=repr(s),
                           sample={"kind": kind, "payload": s,
                                   "emitted": text.strip()}
                           if ln == 2 and total % 211 == 0 else None)
                    if not good and ok:
                        ok, why = False, (f"payload {s!r} changes the shape "
                                          "of the emitted code")
        out[kind] = (ok, why)
    chk.unit("payloads checked for shape independence", total)
    chk.unit("payload class alphabet", "".join(
        c if c.isprintable() else repr(c)[1:-1] for c in sigma))
    return out


def returns_int(mod, fname, seen=()):
    """Every return of helpers.<fname> is an int expression."""
    if fname in seen or fname not in mod.functions:
        return False
    fn = mod.functions[fname]
    intvars = set()
    changed = True

    def is_int(e):
        if isinstance(e, ast.Constant):
            return isinstance(e.value, int) and not isinstance(e.value, bool)
        if isinstance(e, ast.Name):
            return e.id in intvars
        if isinstance(e, ast.BinOp) and isinstance(
                e.op, (ast.Add, ast.Sub, ast.Mult, ast.FloorDiv, ast.Mod,
                       ast.Pow)):
            return is_int(e.left) and is_int(e.right)
        if isinstance(e, ast.Call):
            d = dotted(e.func) or ""
            short = d.split(".")[-1]
            if short in ("len", "int", "ord", "find", "index", "count"):
                return True
            if short in mod.functions:
                return returns_int(mod, short, seen + (fname,))
        return False

    while changed:
        changed = False
        for n in ast.walk(fn):
            if isinstance(n, ast.Assign) and len(n.targets) == 1 \
                    and isinstance(n.targets[0], ast.Name):
                nm = n.targets[0].id
                others = [m for m in ast.walk(fn)
                          if isinstance(m, (ast.Assign, ast.AugAssign))
                          and any(isinstance(t, ast.Name) and t.id == nm
                                  for t in (m.targets if isinstance(
                                      m, ast.Assign) else [m.target]))]
                if nm not in intvars and all(
                        is_int(m.value) or (
                            isinstance(m.value, ast.BinOp)
                            and _mentions_only(m.value, nm, is_int))
                        for m in others):
                    intvars.add(nm)
                    changed = True
    rets = [n for n in ast.walk(fn) if isinstance(n, ast.Return)]
    return bool(rets) and all(r.value is not None and is_int(r.value)
                              for r in rets)


def _mentions_only(e, nm, is_int):
    """int arithmetic over nm itself and int expressions"""
    if isinstance(e, ast.Name) and e.id == nm:
        return True
    if isinstance(e, ast.BinOp) and isinstance(
            e.op, (ast.Add, ast.Sub, ast.Mult, ast.FloorDiv, ast.Mod)):
        return _mentions_only(e.left, nm, is_int) and _mentions_only(
            e.right, nm, is_int)
    return is_int(e)


def uncompress_summary(repo):
    """kind -> 'INT' | 'STR' for helpers.uncompress(token): INT only if
    *every* return that can be taken for that kind is a call of a reader
    that provably returns an int (a return outside the per-kind arms - an
    early exit, a fall-through - counts for every kind)."""
    from ..flow import path_conditions
    mod = repo.mod("helpers")
    fn = mod.function("uncompress")
    rets = []  # (is_int, positive kind or None, kinds excluded on the path)
    kinds_seen = set()
    for r in ast.walk(fn):
        if not isinstance(r, ast.Return):
            continue
        is_int = isinstance(r.value, ast.Call) and returns_int(
            mod, (dotted(r.value.func) or "").split(".")[-1])
        pos, neg = None, set()
        for test, pol in path_conditions(r, fn):
            if isinstance(test, ast.Compare) and len(test.ops) == 1 \
                    and isinstance(test.ops[0], (ast.Eq, ast.Is)):
                d = dotted(test.comparators[0]) or ""
                if "TokenType." in d:
                    kinds_seen.add(d.split(".")[-1])
                    if pol:
                        pos = d.split(".")[-1]
                    else:
                        neg.add(d.split(".")[-1])
        rets.append((is_int, pos, neg))
    out = {}
    for kind in kinds_seen:
        vals = [i for i, pos, neg in rets
                if pos == kind or (pos is None and kind not in neg)]
        out[kind] = "INT" if vals and all(vals) else "STR"
    return out


def lambda_arity_sites(chk, repo):
    """Every structure.Lambda(arity, ...) construction passes an int literal,
    the constant "default", int(...), or an element-table arity."""
    ok_all = True
    n = 0
    for modname in ("parse", "transpile", "structure"):
        mod = repo.mod(modname)
        for fn in list(mod.functions.values()) + [
                m for c in mod.classes.values() for m in c.body
                if isinstance(m, ast.FunctionDef)]:
            for call in ast.walk(fn):
                if not isinstance(call, ast.Call):
                    continue
                d = dotted(call.func) or ""
                if d.split(".")[-1] != "Lambda" or not call.args:
                    continue
                n += 1
                a = call.args[0]
                ok = arity_expr_ok(a, fn)
                chk.ob("C18.lambda-arity-is-int",
                       f"{modname}.{fn.name}:Lambda({ast.unparse(a)}, ...)",
                       ok, "lambda arity (pasted into generated code as "
                       "bare text) is not provably an int or the constant "
                       "'default'", mod.rel, call.lineno,
                       sample=ast.unparse(a))
                ok_all = ok_all and ok
    chk.floor("structure.Lambda construction sites", n, 8)
    # any other structure class that carries an `arity` taken from a
    # constructor parameter: the same demand on its construction sites
    smod = repo.mod("structure")
    carriers = {}
    for cname, cls in smod.classes.items():
        if cname == "Lambda":
            continue
        init = next((m for m in cls.body if isinstance(m, ast.FunctionDef)
                     and m.name == "__init__"), None)
        if init is None:
            continue
        params = [a.arg for a in init.args.args][1:]
        for st in ast.walk(init):
            if isinstance(st, ast.Assign) and any(
                    isinstance(t, ast.Attribute) and t.attr == "arity"
                    and dotted(t.value) == "self" for t in st.targets) \
                    and isinstance(st.value, ast.Name) \
                    and st.value.id in params:
                carriers[cname] = params.index(st.value.id), st.value.id
    for modname in ("parse", "transpile", "structure"):
        mod = repo.mod(modname)
        for call in ast.walk(mod.tree):
            if not isinstance(call, ast.Call):
                continue
            short = (dotted(call.func) or "").split(".")[-1]
            if short not in carriers:
                continue
            pos, pname = carriers[short]
            fn = next((f for f in ast.walk(mod.tree)
                       if isinstance(f, ast.FunctionDef)
                       and any(m is call for m in ast.walk(f))), mod.tree)
            starred = any(isinstance(a, ast.Starred) for a in call.args) \
                or any(k.arg is None for k in call.keywords)
            a = call.args[pos] if len(call.args) > pos else next(
                (k.value for k in call.keywords if k.arg == pname), None)
            if starred:
                ok = False
            elif a is None:
                ok = True  # the parameter's default (checked below)
            else:
                ok = arity_expr_ok(a, fn) or (
                    isinstance(a, ast.Constant) and a.value is None)
            chk.ob("C18.lambda-arity-is-int",
                   f"{modname}:{short}(... {pname}=...)@"
                   f"{' '.join(ast.unparse(call).split())[:50]}", ok,
                   f"the arity of a {short} structure (pasted into generated "
                   "code as bare text) is not provably an int, 'default' or "
                   "None: the construction site passes program text",
                   mod.rel, call.lineno)
            ok_all = ok_all and ok
    return ok_all


def arity_expr_ok(a, fn):
    if isinstance(a, ast.Constant):
        return (isinstance(a.value, int) and not isinstance(a.value, bool)) \
            or a.value == "default"
    if isinstance(a, ast.Call) and dotted(a.func) == "int":
        return True
    if isinstance(a, ast.Subscript) and isinstance(a.value, ast.Call) \
            and (dotted(a.value.func) or "").endswith("elements.get") \
            and isinstance(a.slice, ast.Constant) and a.slice.value == 1:
        dflt = a.value.args[1] if len(a.value.args) > 1 else None
        return isinstance(dflt, ast.Tuple) and len(dflt.elts) == 2 \
            and isinstance(dflt.elts[1], ast.Constant) \
            and isinstance(dflt.elts[1].value, int)
    if isinstance(a, ast.Name):
        writes = [n for n in ast.walk(fn) if isinstance(n, ast.Assign)
                  and any(isinstance(t, ast.Name) and t.id == a.id
                          for t in n.targets)]
        return bool(writes) and all(arity_expr_ok(w.value, fn)
                                    for w in writes)
    return False


PRODUCERS = ("transpile_token", "transpile_structure", "transpile_lambda")
JOINERS = ("transpile", "transpile_ast", "transpile_single")


def joiners_only_join(chk, repo, TF):
    """transpile / transpile_ast / transpile_single return nothing but the
    results of the three producers (analysed by the taint interpretation),
    constant text and joins of those: no program text enters generated code
    beside the producers."""
    tmod = repo.mod("transpile")

    def impure(e, fn, depth=0):
        """sub-expressions of a returned expression that are neither
        producer results, constants nor joins of them"""
        if isinstance(e, ast.Constant) and isinstance(e.value, str):
            return []
        if isinstance(e, ast.BinOp) and isinstance(e.op, ast.Add):
            return impure(e.left, fn, depth) + impure(e.right, fn, depth)
        if isinstance(e, ast.IfExp):
            return impure(e.body, fn, depth) + impure(e.orelse, fn, depth)
        if isinstance(e, ast.JoinedStr):
            out = []
            for v in e.values:
                if isinstance(v, ast.FormattedValue):
                    out += impure(v.value, fn, depth)
            return out
        if isinstance(e, (ast.ListComp, ast.GeneratorExp)):
            return impure(e.elt, fn, depth)
        if isinstance(e, (ast.List, ast.Tuple)):
            return [x for v in e.elts for x in impure(v, fn, depth)]
        if isinstance(e, ast.Attribute) and e.attr == "__name__" and \
                isinstance(e.value, ast.Call) and dotted(
                e.value.func) == "type":
            return []  # a class name of the implementation
        if isinstance(e, ast.Call):
            d = dotted(e.func) or ""
            short = e.func.attr if isinstance(e.func, ast.Attribute) \
                else d.split(".")[-1]
            if short in PRODUCERS or short in JOINERS:
                return []
            if short == "indent_str" and e.args:
                return impure(e.args[0], fn, depth)
            if short == "join" and isinstance(e.func, ast.Attribute) \
                    and e.args:
                out = impure(e.func.value, fn, depth)
                a = e.args[0]
                if isinstance(a, (ast.GeneratorExp, ast.ListComp)):
                    return out + impure(a.elt, fn, depth)
                if isinstance(a, (ast.List, ast.Tuple)):
                    for x in a.elts:
                        out += impure(x, fn, depth)
                    return out
                return out + impure(a, fn, depth)
            if isinstance(e.func, ast.Name) and short in tmod.functions \
                    and depth < 3:
                out = []
                callee = tmod.functions[short]
                for r in ast.walk(callee):
                    if isinstance(r, ast.Return) and r.value is not None:
                        out += impure(r.value, callee, depth + 1)
                return out
            return [e]
        if isinstance(e, ast.Name):
            # a local holding pure text
            defs = [n for n in ast.walk(fn) if isinstance(n, (
                ast.Assign, ast.AugAssign)) and any(
                isinstance(t, ast.Name) and t.id == e.id
                for t in (n.targets if isinstance(n, ast.Assign)
                          else [n.target]))]
            if defs and not any(a.arg == e.id for a in fn.args.args):
                out = []
                for d_ in defs:
                    out += impure(d_.value, fn, depth)
                return out
            return [e]
        return [e]

    n = 0
    for name in JOINERS:
        fn = tmod.functions.get(name)
        if fn is None:
            raise AnalysisError(f"anchor vanished: transpile.{name}")
        for r in ast.walk(fn):
            if not (isinstance(r, ast.Return) and r.value is not None):
                continue
            n += 1
            bad = impure(r.value, fn)
            chk.ob("C18.joiners-only-join", f"transpile.{name}/return@"
                   f"{' '.join(ast.unparse(r.value).split())[:40]}", not bad,
                   f"{name} adds text to the generated code that does not "
                   "come from transpile_token / transpile_structure / "
                   "transpile_lambda or a constant: "
                   + "; ".join(' '.join(ast.unparse(b).split())[:60]
                               for b in bad[:3])
                   + " - program-derived text there is outside the taint "
                   "analysis of the producers", TF, r.lineno)
    chk.floor("returns of the joining functions examined", n, 4)


def pipeline_vocabulary(chk, repo, gen, tier, TF):
    """Bounded whole-pipeline cross-check: the interpreted tokenise -> parse ->
    transpile_ast is run on every raw string of length <= 2 (3 thorough) over
    an adversarial alphabet; wherever the output parses, every identifier in
    it must come from the fixed vocabulary of the templates or be a
    fixed-prefix name with an identifier tail."""
    import re  # noqa: PLC0415
    import warnings  # noqa: PLC0415
    from ..grammar import make_shapes  # noqa: PLC0415
    vocab = set()

    def harvest(text):
        try:
            with warnings.catch_warnings():
                warnings.simplefilter("ignore")
                tree = ast.parse(text)
        except SyntaxError:
            return
        for n in ast.walk(tree):
            if isinstance(n, ast.Name):
                vocab.add(n.id)
            elif isinstance(n, ast.Attribute):
                vocab.add(n.attr)
            elif isinstance(n, ast.arg):
                vocab.add(n.arg)
            elif isinstance(n, ast.keyword) and n.arg:
                vocab.add(n.arg)
            elif isinstance(n, ast.FunctionDef):
                vocab.add(n.name)
    for v in gen.elements().values():
        if isinstance(v, tuple) and isinstance(v[0], str):
            harvest(v[0])
    for v in gen.modifiers().values():
        if isinstance(v, str):
            harvest(v)
    for kind in gen.kinds():
        for val in ("1", "1.5", "°", "1°2", "a", "", "_a", "ab"):
            try:
                harvest(gen.transpile_token(gen.token(kind, val), 0))
            except Exception:  # noqa: BLE001
                pass
    pp = gen.it.module("vyxal.parse")
    parse_mods = {n: list(pp.get(n)) for n in (
        "MONADIC_MODIFIERS", "DYADIC_MODIFIERS", "TRIADIC_MODIFIERS")}
    for shape in make_shapes(gen, "quick", parse_mods):
        try:
            harvest(gen.transpile_ast([shape.build(gen, {})], 0))
        except Exception:  # noqa: BLE001
            pass
    for which in ("BreakStatement", "RecurseStatement"):
        for cls in ("Lambda", "ForLoop", "FunctionDef", "MonadicModifier",
                    None):
            try:
                harvest(gen.transpile_ast([gen.struct(which, gen.cls(cls))], 0))
            except Exception:  # noqa: BLE001
                pass
    vocab = {v for v in vocab if not v.startswith(("VAR_", "_lambda_",
                                                   "HOLE_"))}
    allowed = re.compile(r"^(VAR_[A-Za-z0-9_]*|_lambda_[0-9A-Za-z]+)$")
    marker = "pwn"
    alphabet = ['"', "'", "\\", "\n", "`", "[", "]", "(", ")", "^", ":", ";",
                "|", "@", "λ", "→", "←", "‛", "»", "«", "⁺", "#", "k", "X",
                "v", "0", ".", " ", marker]
    tokenise = gen.it.module("vyxal.lexer").get("tokenise")
    parse = pp.get("parse")
    maxlen = 3 if tier == "thorough" else 2
    n = 0
    parsed = 0
    bad = None
    import itertools as _it  # noqa: PLC0415
    from ..pe import PRaise  # noqa: PLC0415
    for ln in range(1, maxlen + 1):
        # length 3: drop the characters that only matter pairwise
        alpha = alphabet if ln < 3 else [c for c in alphabet
                                         if c not in "]|k.0 :←«"]
        for tup in _it.product(alpha, repeat=ln):
            prog = "".join(tup)
            n += 1
            gen.it.steps = 0
            try:
                code = gen.transpile_ast(list(parse(tokenise(prog))), 0)
            except (GeneratorRaised, PRaise, StopIteration):
                continue  # no code returned
            try:
                with warnings.catch_warnings():
                    warnings.simplefilter("ignore")
                    tree = ast.parse(code)
            except (SyntaxError, ValueError):
                continue
            parsed += 1
            for node in ast.walk(tree):
                ident = None
                if isinstance(node, ast.Name):
                    ident = node.id
                elif isinstance(node, ast.Attribute):
                    ident = node.attr
                elif isinstance(node, ast.FunctionDef):
                    ident = node.name
                if ident is None or ident in vocab or allowed.match(ident):
                    continue
                bad = bad or (prog, ident, code.strip()[:120])
    chk.ob("C18.pipeline-identifiers-from-vocabulary", "tokenise+parse+transpile",
           bad is None,
           f"program {bad[0]!r} transpiles to code containing the identifier "
           f"`{bad[1]}`, which is neither template vocabulary nor a "
           f"fixed-prefix name: {bad[2]!r}" if bad else "", TF,
           witness=repr(bad[0]) if bad else None,
           sample={"raw programs": n, "outputs that parse": parsed,
                   "template vocabulary": len(vocab)})
    chk.unit("raw programs through the interpreted pipeline", n)


def check(chk, repo, tier):
    gen = Gen(repo)
    it = gen.it
    tmod = repo.mod("transpile")
    TF = tmod.rel
    lp = LexProbe(repo, it)
    langs = value_languages_probe(lp)
    chk.trusted_base += ["CPython ast", "re._parser (regex class contents)",
                         "vystatic.pe interpreter subset"]

    shape_ok = verify_token_arms(chk, gen, tier, TF)
    arity_ok = lambda_arity_sites(chk, repo)
    unc = uncompress_summary(repo)
    chk.unit("uncompress() return classes", unc)
    # element arities are ints (pasted by lambda_wrap)
    bad_ar = [k for k, v in gen.elements().items()
              if not (isinstance(v, tuple) and isinstance(v[1], int))]
    chk.ob("C18.table-arity-is-int", "elements[*][1]", not bad_ar,
           f"table arities that are not ints: {bad_ar[:5]}",
           repo.mod("elements").rel, sample={"entries": len(gen.elements())})

    ptr = it.module("vyxal.transpile")

    def fold(node):
        return it.eval(node, ModuleEnv(ptr), ptr)

    facts = {"shape_ok": shape_ok,
             "arity_is_int": arity_ok and not bad_ar,
             "uncompress_returns": unc}
    ti = TaintInterp(tmod, fold, langs, facts)
    ti.run_function(tmod.function("transpile_token"), {"token": Obj("token")})
    ti.run_function(tmod.function("transpile_structure"),
                    {"struct": Obj("struct")})
    ti.run_function(tmod.function("transpile_lambda"), {"lam": Obj("lam")})
    n_slots = 0
    n_ret = 0
    by_class = {}
    for fname, label, tpl, line in ti.returns:
        n_ret += 1
        for alt in tpl.alts:
            for s, ctx, ok, why in check_template(alt):
                n_slots += 1
                by_class[s.cls] = by_class.get(s.cls, 0) + 1
                cons = f"{label}:{s.origin}"
                chk.ob("C18.flow-sanitised", cons, ok,
                       f"{s.cls} text from `{s.origin}` reaches generated code "
                       f"in {ctx[0]} context: {why}", TF, s.line or line,
                       sample={"arm": label, "source": s.origin,
                               "class": s.cls, "context": ctx[0]})
    chk.floor("returns of the transpile functions analysed", n_ret, 25)
    chk.floor("program-text slots found in returned templates", n_slots, 12)
    chk.unit("slots by sanitiser class", by_class)
    for note in ti.notes:
        chk.info("C18.note", "taint interpreter", note)

    # upstream facts the LEX class relies on: VARIABLE / NUMBER languages
    for k in ("VARIABLE_GET", "VARIABLE_SET", "NUMBER"):
        lang = langs.get(k)
        chk.ob("C18.lexer-language", f"TokenType.{k}",
               lang is not None and lang.chars is not ANYSET,
               f"{k} values are no longer restricted to a character set",
               repo.mod("lexer").rel,
               sample={"kind": k, "language": lang.describe() if lang else None})

    pipeline_vocabulary(chk, repo, gen, tier, TF)
    joiners_only_join(chk, repo, TF)

    chk.explanation = (
        "Decides, for every string given to the transpiler, that program "
        "text can reach returned code only inside string/number constants or "
        "as the tail of an identifier with a fixed prefix: an abstract "
        "interpretation of transpile_token / transpile_structure / "
        "transpile_lambda in a template domain tracks each program-derived "
        "value with its sanitiser class (int conversion, !r, negated-class "
        "re.sub with its kept character set read from the regex AST, token "
        "value language from the lexer; for free-text token kinds the shape "
        "of the emitted code - its syntax tree with constants masked - is "
        "shown independent of the payload over a class alphabet) and "
        "compares it with the python "
        "context given by the surrounding constant template text. Element "
        "and modifier code comes only from table lookups (fixed vocabulary).")
    chk.assumptions += [
        "the three transpile_* functions are the only producers of generated "
        "code (transpile_ast/transpile_single only join their results)",
        "free-text arms: behaviour on strings follows from behaviour on "
        "class characters and adjacent pairs (escaping is character-wise up "
        "to backslash pairs)",
    ]
