"""C06 - quoting a string and evaluating the quoted text returns the same
string.

Decided over a character-class abstraction: the writer (quotify's str arm),
the reader (the back-quote branch of the lexer), dictionary decompression and
the transpiler's escaping loop are each character-wise (checked
structurally), so their composition on all strings follows from their
composition on class representatives and adjacent pairs.  The composition is
computed by interpreting the *current sources* of the four stages on every
string of length <= 2 (3 in the thorough tier) over the class alphabet."""

from __future__ import annotations

import ast
import itertools
import string as _string

from ..core import AnalysisError, dotted
from ..pe import Env, ModuleEnv, PRaise
from ..templates import Gen, GeneratorRaised

level = "other"


def quotify_str_arm(repo):
    fn = repo.mod("elements").function("quotify")
    for n in ast.walk(fn):
        if isinstance(n, ast.Dict):
            for k, v in zip(n.keys, n.values):
                if isinstance(k, ast.Name) and k.id == "str" and isinstance(
                        v, ast.Lambda):
                    return fn, v
    raise AnalysisError("anchor vanished: str arm of elements.quotify")


def replace_chain(expr):
    """[(old, new), ...] of a `x.replace(a, b).replace(c, d)` chain, in
    execution order"""
    chain = []
    cur = expr
    while isinstance(cur, ast.Call) and isinstance(cur.func, ast.Attribute) \
            and cur.func.attr == "replace" and len(cur.args) == 2 \
            and all(isinstance(a, ast.Constant) for a in cur.args):
        chain.append((cur.args[0].value, cur.args[1].value))
        cur = cur.func.value
    return list(reversed(chain)), cur


def mode_threaded(chk, repo):
    """The compression mode chosen for a program holds for all of it: every
    call from one transpile function to another that also takes
    `dict_compress` passes the caller's value on (the parameter defaults to
    True, so an omitted argument silently switches decompression back on for
    that subtree)."""
    mod = repo.mod("transpile")
    takes = {name: fn for name, fn in mod.functions.items()
             if any(a.arg == "dict_compress"
                    for a in fn.args.args + fn.args.kwonlyargs)}
    n = 0
    for cname, caller in takes.items():
        for call in ast.walk(caller):
            if not (isinstance(call, ast.Call) and isinstance(
                    call.func, ast.Name) and call.func.id in takes):
                continue
            callee = takes[call.func.id]
            params = [a.arg for a in callee.args.args]
            passed = None
            for k in call.keywords:
                if k.arg == "dict_compress":
                    passed = k.value
            if passed is None and "dict_compress" in params:
                i = params.index("dict_compress")
                if i < len(call.args):
                    passed = call.args[i]
            n += 1
            ok = isinstance(passed, ast.Name) and passed.id == "dict_compress"
            chk.ob("C06.compression-mode-threaded",
                   f"transpile.{cname}:{ast.unparse(call)[:50]}", ok,
                   f"`{ast.unparse(call)[:70]}` does not pass the caller's "
                   "dict_compress on"
                   + (" (it passes `" + ast.unparse(passed) + "`)"
                      if passed is not None else
                      ": the callee falls back to its default, True")
                   + ", so with compression switched off (flag D) strings in "
                   "that part of the program are still decompressed",
                   mod.rel, call.lineno,
                   witness="flag D: ⟨`λƛ`⟩ pushes a dictionary word")
    chk.unit("calls between transpile functions taking dict_compress", n)
    chk.floor("calls between transpile functions taking dict_compress", n, 8)


def memo_keys(chk, repo, P="C06"):
    """A result remembered in a module-level table must be keyed by every
    input it was computed from: the pipeline is run in two compression modes
    (and with / without digraph variables) on the same text, and tokens of
    different kinds can carry the same text.  A parameter counts as covered
    when it is in the key as a whole; if only attributes of it are
    (`token.value`), every attribute of it the function reads must be."""
    from ..flow import copy_env, subst
    n = 0
    for modname in ("transpile", "lexer", "parse", "helpers"):
        mod = repo.mod(modname)
        tables = set()
        for st in mod.tree.body:
            tgt = val = None
            if isinstance(st, ast.Assign) and len(st.targets) == 1:
                tgt, val = st.targets[0], st.value
            elif isinstance(st, ast.AnnAssign) and st.value is not None:
                tgt, val = st.target, st.value
            if isinstance(tgt, ast.Name) and (
                    (isinstance(val, ast.Dict) and not val.keys)
                    or (isinstance(val, ast.Call) and dotted(val.func) in (
                        "dict", "collections.OrderedDict", "OrderedDict",
                        "weakref.WeakValueDictionary"))):
                tables.add(tgt.id)
        for fn in mod.functions.values():
            params = [a.arg for a in fn.args.posonlyargs + fn.args.args
                      + fn.args.kwonlyargs]
            env = copy_env(fn)
            for node in ast.walk(fn):
                key = None
                if isinstance(node, ast.Assign) and len(node.targets) == 1 \
                        and isinstance(node.targets[0], ast.Subscript) \
                        and isinstance(node.targets[0].value, ast.Name) \
                        and node.targets[0].value.id in tables:
                    key = node.targets[0].slice
                    table = node.targets[0].value.id
                elif isinstance(node, ast.Call) and isinstance(
                        node.func, ast.Attribute) and node.func.attr == \
                        "setdefault" and isinstance(node.func.value, ast.Name) \
                        and node.func.value.id in tables and len(node.args) == 2:
                    key = node.args[0]
                    table = node.func.value.id
                if key is None:
                    continue
                # memoisation = the same function also looks the table up
                # (a registry that is only written is something else)
                looked_up = any(
                    (isinstance(m, ast.Subscript) and isinstance(
                        m.ctx, ast.Load) and isinstance(m.value, ast.Name)
                     and m.value.id == table)
                    or (isinstance(m, ast.Compare) and any(
                        isinstance(o, (ast.In, ast.NotIn)) for o in m.ops)
                        and any(isinstance(c, ast.Name) and c.id == table
                                for c in m.comparators))
                    or (isinstance(m, ast.Call) and isinstance(
                        m.func, ast.Attribute) and m.func.attr in (
                            "get", "setdefault") and isinstance(
                            m.func.value, ast.Name)
                        and m.func.value.id == table)
                    for m in ast.walk(fn))
                if not looked_up:
                    continue
                n += 1
                key = subst(key, env)
                attrs = {}
                for m in ast.walk(key):
                    if isinstance(m, ast.Attribute) and isinstance(
                            m.value, ast.Name):
                        attrs.setdefault(m.value.id, set()).add(m.attr)
                whole = set()
                attr_bases = set()
                for m in ast.walk(key):
                    if isinstance(m, ast.Attribute) and isinstance(
                            m.value, ast.Name):
                        attr_bases.add(id(m.value))
                for m in ast.walk(key):
                    if isinstance(m, ast.Name) and id(m) not in attr_bases:
                        whole.add(m.id)
                missing = []
                for p_ in params:
                    used_whole = False
                    used_attrs = set()
                    for m in ast.walk(fn):
                        if isinstance(m, ast.Attribute) and isinstance(
                                m.value, ast.Name) and m.value.id == p_:
                            used_attrs.add(m.attr)
                    bases = {id(m.value) for m in ast.walk(fn)
                             if isinstance(m, ast.Attribute)
                             and isinstance(m.value, ast.Name)}
                    for m in ast.walk(fn):
                        if isinstance(m, ast.Name) and m.id == p_ \
                                and isinstance(m.ctx, ast.Load) \
                                and id(m) not in bases:
                            used_whole = True
                    if not used_whole and not used_attrs:
                        continue
                    if p_ in whole:
                        continue
                    if used_whole:
                        missing.append(p_)
                        continue
                    lacking = sorted(used_attrs - attrs.get(p_, set()))
                    missing += [f"{p_}.{a_}" for a_ in lacking]
                chk.ob(P + ".memo-key-covers-inputs",
                       f"{modname}.{fn.name}:{table}[...]", not missing,
                       f"{fn.name} remembers its result in the module-level "
                       f"table `{table}` under `{ast.unparse(key)[:50]}`, but "
                       f"the result also depends on {missing}: a later call "
                       "that differs only there gets the first answer",
                       mod.rel, node.lineno,
                       witness="the same text transpiled with dict_compress "
                               "on, then off / two tokens of different kinds "
                               "with the same text")
    chk.unit("module-level memo tables written", n)


def check(chk, repo, tier):
    chk.trusted_base += ["CPython ast", "ast.literal_eval as the python "
                         "string-literal semantics",
                         "vystatic.pe interpreter subset"]
    gen = Gen(repo)
    it = gen.it
    EF = repo.mod("elements").rel
    TF = repo.mod("transpile").rel
    LF = repo.mod("lexer").rel

    # ---- writer table ---------------------------------------------------------
    qfn, arm = quotify_str_arm(repo)
    chain = None
    for n in ast.walk(arm.body):
        if isinstance(n, ast.Call) and isinstance(n.func, ast.Attribute) \
                and n.func.attr == "replace":
            c, base = replace_chain(n)
            if chain is None or len(c) > len(chain):
                chain = c
    chain = chain or []
    chk.unit("quotify escape table", chain)
    olds = [a for a, _ in chain]
    ok = "\\" in olds and "`" in olds and olds.index("\\") < olds.index("`") \
        and dict(chain).get("\\") == "\\\\" and dict(chain).get("`") == "\\`"
    limited = [n for n in ast.walk(arm.body) if isinstance(n, ast.Call)
               and (dotted(n.func) or "") in ("re.sub", "re.subn")
               and (len(n.args) >= 4 or any(k.arg == "count"
                                            for k in n.keywords))]
    limited += [n for n in ast.walk(arm.body) if isinstance(n, ast.Call)
                and isinstance(n.func, ast.Attribute)
                and n.func.attr == "replace" and len(n.args) >= 3]
    if chain:
        chk.ob("C06.writer-table", "quotify:str escape chain", ok,
               f"quotify must escape the backslash first (\\ -> \\\\) and "
               f"then the back-quote (` -> \\`); found {chain}", EF,
               qfn.lineno, witness="a string containing \\ or `",
               sample={"chain": chain})
    else:
        chk.info("C06.writer-table", "quotify:str arm",
                 "not a chain of str.replace calls: the escaping is decided "
                 "by the interpreted round trip below")
    chk.ob("C06.writer-escapes-every-occurrence", "quotify:str arm",
           not limited,
           "the escaping call is limited by a count ("
           + (ast.unparse(limited[0])[:60] if limited else "")
           + "; the 4th positional argument of re.sub is `count`, not "
           "`flags`): special characters beyond it stay unescaped", EF,
           limited[0].lineno if limited else qfn.lineno,
           witness="a string with 17 backslashes")

    memo_keys(chk, repo)
    mode_threaded(chk, repo)

    # ---- the stages, interpreted from source ---------------------------------------
    el = it.module("vyxal.elements")
    lx = it.module("vyxal.lexer")
    tokenise = lx.get("tokenise")
    enc = it.module("vyxal.encoding")
    comp = enc.get("compression")

    # the writer is the *element* q as the table defines it (its template is
    # run on a one-entry stack), not just the function behind it
    q_entry = gen.elements().get("q")
    if not (isinstance(q_entry, tuple) and isinstance(q_entry[0], str)):
        raise AnalysisError("anchor vanished: element table entry 'q'")
    try:
        q_code = ast.parse(q_entry[0]).body
    except SyntaxError as exc:
        raise AnalysisError(f"template of 'q' does not parse: {exc}") from None
    q_ctx = it.instantiate(it.module("vyxal.context").get("Context"), [], {})

    def quote(s):
        env = Env(ModuleEnv(el))
        env.vars["stack"] = [s]
        env.vars["ctx"] = q_ctx
        it.exec_block(q_code, env, el)
        return env.vars["stack"][-1]

    sigma = ["\\", "`", '"', "'", "\n", "a", "n", "x", "0", " ", comp[0],
             "{", "%"]
    # characters the STRING arm of the transpiler and the lexer mention in
    # short constants are special to somebody: they join the alphabet
    extra = []
    sources = [n_ for n_ in ast.walk(repo.mod("lexer").tree)]
    tfn = repo.mod("transpile").functions.get("transpile_token")
    if tfn is not None:
        sources += list(ast.walk(tfn))
    for n_ in sources:
        if isinstance(n_, ast.Constant) and isinstance(n_.value, str) \
                and 1 <= len(n_.value) <= 4:
            for ch in n_.value:
                if ch not in sigma and ch not in extra:
                    extra.append(ch)
    extra = extra[:40]
    chk.unit("alphabet characters taken from lexer / STRING-arm constants",
             len(extra))
    maxlen = 3 if tier == "thorough" else 2
    n = 0
    for ln in range(0, maxlen + 1):
        alpha = sigma + extra if ln <= 2 else sigma[:9]
        for tup in itertools.product(alpha, repeat=ln):
            s = "".join(tup)
            n += 1
            try:
                it.steps = 0
                q = quote(s)
                toks = tokenise(q)
            except (PRaise, Exception) as exc:  # noqa: BLE001
                chk.ob("C06.roundtrip", "quote∘lex", False,
                       f"quoting / lexing {s!r} raised {exc}", EF,
                       witness=repr(s))
                continue
            kinds = [t.d.get("name").name for t in toks]
            if kinds != ["STRING"]:
                chk.ob("C06.reader-one-literal", "quoted text is one literal", False,
                       f"the quoted text {q!r} is lexed as {kinds}, not as "
                       "one string literal: the reader's terminator/escape "
                       "table disagrees with the writer's", LF,
                       witness=repr(s))
                continue
            chk.ob("C06.reader-one-literal", "quoted text is one literal",
                   True)
            modes = [False]
            if all(c in _string.printable for c in s):
                modes.append(True)
            for dc in modes:
                try:
                    text = gen.transpile_token(toks[0], 0, dict_compress=dc)
                    val = literal_value(text)
                except (GeneratorRaised, ValueError, SyntaxError) as exc:
                    chk.ob("C06.roundtrip", "escape∘python", False,
                           f"transpiling / evaluating the literal for {s!r} "
                           f"failed: {exc}", TF, witness=repr(s))
                    continue
                cons = ("quote∘lex∘decompress∘escape∘python" if dc
                        else "quote∘lex∘escape∘python")
                chk.ob("C06.roundtrip", cons, val == s,
                       f"string {s!r} is quoted as {q!r}, emitted as "
                       f"{text.strip()!r} and evaluates to {val!r}"
                       + (" (dictionary compression on)" if dc else ""),
                       TF, witness=repr(s),
                       sample={"string": s, "quoted": q,
                               "emitted": text.strip()}
                       if ln == 2 and n % 23 == 0 else None)
    chk.unit("class strings composed", n)
    chk.unit("class alphabet", [c if c.isprintable() else repr(c)
                                for c in sigma])

    # ---- character-wise structure of the stages -----------------------------------------
    # (a) the escaping stage is a homomorphism on lexer *units* (a plain
    # character, or a backslash with the character after it): the value
    # pushed for u+v is the value for u followed by the value for v.  With
    # that, identity on units and pairs extends to all strings by induction.
    # only the units the writer produces: a plain character, an escaped
    # backslash, an escaped back-quote (raw user-written escapes such as \0
    # followed by a digit merge under python's literal rules and are not
    # part of the round trip)
    plain = [c for c in sigma if c not in "\\`"]
    units = plain + ["\\\\", "\\`"]
    cache = {}

    def pushed(val):
        if val not in cache:
            try:
                cache[val] = literal_value(gen.transpile_token(
                    gen.token("STRING", val), 0, dict_compress=False))
            except (GeneratorRaised, ValueError, SyntaxError) as exc:
                cache[val] = exc
        return cache[val]
    n_h = 0
    bad = None
    for u in units:
        for v in units:
            for w in ([""] + units[:6] if tier == "thorough" else [""]):
                n_h += 1
                whole = pushed(u + v + w)
                parts = [pushed(u), pushed(v)] + ([pushed(w)] if w else [])
                if any(isinstance(x, Exception) for x in [whole] + parts):
                    continue  # ill-formed output is C02's business
                if whole != "".join(parts):
                    bad = bad or (u, v, w, whole, "".join(parts))
    chk.ob("C06.escape-stage-homomorphic", "transpile_token/STRING", bad is None,
           f"the value pushed for {''.join(bad[:3])!r} is {bad[3]!r} but the "
           f"values of its units concatenate to {bad[4]!r}: the escaping "
           "stage keeps state across characters, so the class-pair argument "
           "does not cover longer strings" if bad else "", TF,
           witness=repr("".join(bad[:3])) if bad else None,
           sample={"unit pairs": n_h})
    # (b) compression characters are disjoint from printable ASCII
    chk.ob("C06.compression-disjoint-from-ascii", "encoding.compression",
           not (set(comp) & set(_string.printable)),
           "compression characters overlap printable ASCII: plain text would "
           "be decompressed", repo.mod("encoding").rel)
    # (c) uncompress_dict is the identity on ASCII and on escape pairs
    hp = it.module("vyxal.helpers")
    ud = hp.get("uncompress_dict")
    ascii_reps = ["a", " ", '"', "'", "0", "{", "\\\\", "\\`", "\\n", "\\a",
                  "\n"]
    bad = []
    for a, b in itertools.product(ascii_reps, repeat=2):
        s = a + b
        try:
            it.steps = 0
            out = ud(s)
        except (PRaise, Exception) as exc:  # noqa: BLE001
            out = f"<raised {exc}>"
        if out != s:
            bad.append((s, out))
    chk.ob("C06.decompress-identity-on-ascii", "helpers.uncompress_dict",
           not bad, f"uncompress_dict changes plain ASCII / escape pairs: "
           f"{bad[:3]}", repo.mod("helpers").rel,
           sample={"pairs": len(ascii_reps) ** 2})

    chk.explanation = (
        "Decides the round trip over the character-class abstraction "
        "{backslash, back-quote, double quote, quote, newline, letters that "
        "form python escapes (a n x 0), space, a compression character, "
        "other}: quotify's escape table (backslash first), the lexer's "
        "back-quote branch, uncompress_dict and the escaping loop are "
        "interpreted from the current sources and composed with python's "
        "literal semantics on every class string of length <= 2 (3 thorough); "
        "the escaping stage is shown to be a homomorphism on lexer units "
        "(plain character / backslash pair) over all unit pairs, so identity "
        "on classes and adjacent pairs gives identity on all strings. Does not decide dictionary words themselves nor "
        "code-page characters outside the classes individually.")
    chk.assumptions += ["python evaluates the emitted literal as "
                        "ast.literal_eval does"]


def literal_value(text):
    tree = ast.parse(text)
    call = tree.body[0].value
    arg = call.args[0]
    return ast.literal_eval(arg)
