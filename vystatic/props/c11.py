"""C11 - input is a cyclic stream shared by explicit and implicit reads
(structural clauses on get_input / pop / the scope-pushing templates)."""

from __future__ import annotations

import ast

from ..core import AnalysisError, dotted, enclosing_function
from ..pe import Hole
from ..templates import Gen, table_keys_with_nodes

level = "other"


def input_context_threaded(chk, repo, gen):
    """pop / wrapify(with a count) / get_input fall back to the input scopes
    of the context they are given.  wrapify's ctx parameter defaults to the
    module-level DEFAULT_CTX, whose scopes are empty: a call without ctx reads
    0 (or stdin) and does not advance the program's stream."""
    from ..ctxthread import call_sites, default_contexts, judge
    from ..grammar import make_shapes
    pkg = [m for m in repo.package_modules() if not m.endswith(".dictionary")]
    helpers = repo.mod("helpers")
    names = {}
    for nm in ("pop", "wrapify", "get_input"):
        if nm not in helpers.functions:
            raise AnalysisError(f"anchor vanished: helpers.{nm}")
        names[nm] = helpers.functions[nm]
    dflt = default_contexts(repo, pkg)
    EF = repo.mod("elements").rel
    TF = repo.mod("transpile").rel
    texts = []
    elems = gen.elements()
    for key, knode, _ in table_keys_with_nodes(repo, "elements"):
        v = elems.get(key)
        if isinstance(v, tuple) and isinstance(v[0], str):
            texts.append((f"elements[{key!r}]", v[0], EF, knode.lineno))
    for key, knode, _ in table_keys_with_nodes(repo, "modifiers"):
        v = gen.modifiers().get(key)
        if isinstance(v, str):
            texts.append((f"modifiers[{key!r}]", v, EF, knode.lineno))
    pp = gen.it.module("vyxal.parse")
    parse_mods = {n: list(pp.get(n)) for n in (
        "MONADIC_MODIFIERS", "DYADIC_MODIFIERS", "TRIADIC_MODIFIERS")}
    for shape in make_shapes(gen, "quick", parse_mods):
        try:
            texts.append((f"skeleton {shape.label}", gen.transpile_ast(
                [shape.build(gen, {})], 0), TF, None))
        except Exception:  # noqa: BLE001 - C02 reports generator problems
            continue
    n = 0
    for call, callee, where, file, line in call_sites(repo, pkg, set(names),
                                                      texts):
        if callee == "wrapify" and len(call.args) < 2 and not any(
                k.arg == "count" for k in call.keywords):
            continue  # wrapify(x) only wraps; it never reads input
        n += 1
        bad = judge(call, names[callee], dflt)
        cons = f"{where}:{' '.join(ast.unparse(call).split())[:50]}"
        chk.ob("C11.input-context-threaded", cons, bad is None,
               f"`{callee}` is " + (
                   f"called without a context and defaults to `{bad[1]}`"
                   if bad and bad[0] == "omitted" else
                   f"handed `{bad[1] if bad else ''}`")
               + ", whose input scopes are not the running program's: "
               "missing arguments are read as 0 / from stdin and the "
               "program's input stream is not advanced", file, line,
               witness="inputs 7 8 9, program λ+;† +")
    chk.unit("calls of input-reading helpers examined", n)
    chk.floor("calls of input-reading helpers examined", n, 300)


def norm(s):
    return "".join(s.split())


def _no_stdin(*a, **k):
    from ..pe import PRaise  # noqa: PLC0415
    raise PRaise("EOFError", ("no stdin in the abstract run",))


def check(chk, repo, tier):
    chk.trusted_base += ["CPython ast", "vystatic.pe interpreter subset"]
    helpers = repo.mod("helpers")
    HF = helpers.rel
    gi = helpers.function("get_input")

    # ---- get_input as a transition system over small abstract states ------------
    # The current source of get_input is interpreted on every state with up to
    # three scopes, up to three inputs per scope, every cursor position up to
    # 2*len+1 and both values of the explicit-read flag; one call must make
    # exactly the transition of the specification.  The k-th-read law follows
    # by induction on the number of reads.
    from ..pe import Interp, PRaise  # noqa: PLC0415
    gen0 = Gen(repo)
    it = gen0.it
    it.builtins["input"] = _no_stdin
    Context = it.module("vyxal.context").get("Context")
    get_input = it.module("vyxal.helpers").get("get_input")
    pop = it.module("vyxal.helpers").get("pop")

    # what each scope-creating template pushes besides the input scope: a
    # state of the model is only reachable with the other bookkeeping lists
    # at the matching depths (lambdas register themselves on function_stack,
    # named functions do not, ...)
    LISTS = ("context_values", "inputs", "stacks", "function_stack")
    scope_vectors = {}
    for label, struct in (
            ("Lambda", gen0.struct("Lambda", 2, Hole("body"))),
            ("FunctionDef", gen0.struct("FunctionDef", "f", ["2", "x"],
                                        Hole("body")))):
        try:
            tree0 = ast.parse(gen0.transpile_ast([struct], 0))
        except Exception as exc:  # noqa: BLE001
            raise AnalysisError(f"{label} template: {exc}") from None
        vec = tuple(sum(1 for n in ast.walk(tree0) if isinstance(n, ast.Call)
                        and norm(ast.unparse(n.func)) == f"ctx.{lst}.append")
                    for lst in LISTS)
        scope_vectors[label] = vec
    kinds = sorted(scope_vectors)

    class Tracked(dict):
        reads: set = set()

        def __getitem__(self, k):
            Tracked.reads.add(k)
            return dict.__getitem__(self, k)

    def fresh(scopes, flag, scope_kinds=(), online=False):
        ctx = it.instantiate(Context, [], {})
        ctx.d["online"] = online
        for kind in scope_kinds:
            for lst, n_push in zip(LISTS, scope_vectors[kind]):
                if lst != "inputs":
                    ctx.d[lst] = list(ctx.d[lst]) + [f"<{kind}>"] * n_push
        ctx.d["inputs"] = [[list(lst), cur] for lst, cur in scopes]
        ctx.d["use_top_input"] = flag
        ctx.d = Tracked(ctx.d)
        return ctx

    n_states = 0
    bad = {}
    import itertools as _it  # noqa: PLC0415
    deep = tier == "thorough"
    for depth in ((1, 2, 3, 4) if deep else (1, 2, 3)):
        for lens in _it.product(range(0, 5 if deep else 4), repeat=depth):
            if depth >= 3 and max(lens) > (3 if deep and depth == 3 else 2):
                continue
            curs_ranges = [range(0, 2 * ln + 2) if ln else range(0, 2)
                           for ln in lens]
            for curs in _it.product(*curs_ranges):
                for flag in (False, True):
                    scopes = [([f"in{d}_{i}" for i in range(ln)], c)
                              for d, (ln, c) in enumerate(zip(lens, curs))]
                    for sk, online in [
                            (sk_, on_)
                            for sk_ in _it.combinations_with_replacement(
                                kinds, depth - 1)
                            for on_ in (False, True)]:
                        # the law holds in both modes: online only changes
                        # where missing *top-level* input comes from
                        ctx = fresh(scopes, flag, sk, online)
                        n_states += 1
                        it.steps = 0
                        try:
                            got = get_input(ctx)
                        except (PRaise, Exception) as exc:  # noqa: BLE001
                            bad.setdefault("raises", (scopes, flag, repr(exc)))
                            continue
                        t = 0 if flag else depth - 1
                        lst, cur = scopes[t]
                        after = [tuple(x) if False else (list(x[0]), x[1])
                                 for x in ctx.d["inputs"]]
                        want_after = [(list(l), c) for l, c in scopes]
                        if lst:
                            want = lst[cur % len(lst)]
                            want_after[t] = (list(lst), cur + 1)
                        else:
                            want = 0
                        if got != want:
                            bad.setdefault("value", (scopes, flag, got, want,
                                                     "enclosing scopes: "
                                                     + ",".join(sk)))
                        elif after != want_after:
                            bad.setdefault("cursor", (scopes, flag, after,
                                                      want_after))
                        elif ctx.d["use_top_input"] != flag:
                            bad.setdefault("flag", (scopes, flag))
    texts = {
        "raises": "get_input raises",
        "value": "a read returns the wrong value (expected input number "
                 "cursor mod n of the scope selected by the explicit-read "
                 "flag, or 0 when that scope is empty)",
        "cursor": "a read does not advance exactly the cursor of the scope "
                  "it read from (or touches another scope)",
        "flag": "the explicit-read flag is left changed after the read",
    }
    for key, text in texts.items():
        w = bad.get(key)
        chk.ob("C11.read-transition-" + key, "helpers.get_input", w is None,
               f"{text}: state scopes={w[0] if w else ''} "
               f"use_top_input={w[1] if w else ''} -> {w[2:] if w else ''}",
               HF, gi.lineno, witness=repr(w) if w else None,
               sample={"abstract states": n_states} if key == "value"
               else None)
    chk.unit("get_input abstract states", n_states)
    MODELLED = set(LISTS) | {"use_top_input"}
    MODE = {"repl_mode", "empty_input_is_zero", "online", "online_output"}
    stray = sorted(Tracked.reads - MODELLED - MODE)
    # a further attribute is tolerated when it is a *configuration constant*:
    # Context.__init__ gives it a constant, and nothing but the flag handling
    # of main.py ever writes it - the law is then decided for the default
    # configuration (a flag may of course change it on purpose)
    config = []
    if stray:
        cmod = repo.mod("context")
        init_consts = set()
        for n_ in ast.walk(cmod.tree):
            if isinstance(n_, ast.FunctionDef) and n_.name == "__init__":
                for a_ in ast.walk(n_):
                    if isinstance(a_, ast.Assign) and isinstance(
                            a_.value, ast.Constant):
                        for t_ in a_.targets:
                            if isinstance(t_, ast.Attribute) and isinstance(
                                    t_.value, ast.Name) \
                                    and t_.value.id == "self":
                                init_consts.add(t_.attr)
        for attr in list(stray):
            written_elsewhere = False
            for modname in repo.package_modules():
                if modname.endswith((".main", ".context", ".dictionary")):
                    continue
                for n_ in ast.walk(repo.mod(modname).tree):
                    if isinstance(n_, ast.Attribute) and n_.attr == attr \
                            and isinstance(n_.ctx, ast.Store):
                        written_elsewhere = True
                    if isinstance(n_, ast.Constant) and isinstance(
                            n_.value, str) and f"ctx.{attr} =" in n_.value:
                        written_elsewhere = True
            if attr in init_consts and not written_elsewhere:
                config.append(attr)
                stray.remove(attr)
    chk.info("C11.read-transition-value", "helpers.get_input",
             "ctx attributes consulted: " + ", ".join(sorted(Tracked.reads))
             + "; scope templates push " + str(scope_vectors)
             + ("; configuration constants held at their default: "
                + ", ".join(config) if config else ""))

    # ---- pop on a short stack reads the missing items, in order ----------------------
    n_p = 0
    badp = None
    for m in range(0, 3):
        for count in range(1, 4):
            for ln in range(0, 4):
                for cur in range(0, ln + 1):
                    inputs = [f"in{i}" for i in range(ln)]
                    ctx = fresh([(inputs, cur)], False)
                    stack = [f"s{i}" for i in range(m)]
                    it.steps = 0
                    n_p += 1
                    try:
                        got = pop(stack, count, ctx)
                    except (PRaise, Exception) as exc:  # noqa: BLE001
                        badp = badp or (m, count, inputs, cur, repr(exc))
                        continue
                    want = [f"s{i}" for i in range(m)][::-1][:count]
                    k = count - len(want)
                    for j in range(k):
                        want.append(inputs[(cur + j) % ln] if ln else 0)
                    want_v = want[0] if count == 1 else want
                    cur_after = ctx.d["inputs"][0][1]
                    if got != want_v or (ln and cur_after != cur + k) or \
                            len(stack) != max(0, m - count):
                        badp = badp or (m, count, inputs, cur, got, want_v,
                                        cur_after)
    chk.ob("C11.pop-falls-back-to-input", "helpers.pop", badp is None,
           "popping more items than the stack holds must return the stack "
           "items (top first) followed by the next inputs in cyclic order, "
           f"one read per missing item: {badp}", HF,
           witness=repr(badp) if badp else None,
           sample={"pop configurations": n_p})

    # ---- (W) cursors are written only in get_input -----------------------------------
    n_w = 0
    for modname in repo.package_modules():
        if modname.endswith(".dictionary"):
            continue
        m = repo.mod(modname)
        for n in ast.walk(m.tree):
            tg = []
            if isinstance(n, ast.Assign):
                tg = n.targets
            elif isinstance(n, ast.AugAssign):
                tg = [n.target]
            for t in tg:
                txt = norm(ast.unparse(t))
                if ".inputs[" in txt and txt.endswith("[1]"):
                    n_w += 1
                    fn = enclosing_function(n)
                    fname = fn.name if isinstance(fn, ast.FunctionDef) else "?"
                    chk.ob("C11.cursor-single-writer",
                           f"{modname.split('.')[-1]}.{fname}:{txt}",
                           fname == "get_input",
                           "an input cursor is written outside get_input",
                           m.rel, n.lineno)
    chk.unit("direct cursor writes found", n_w)

    # ---- (T) use_top_input discipline ------------------------------------------------------
    gen = Gen(repo)
    elems = gen.elements()
    # (the set / read / reset statement pattern of the `?` template used to be
    # matched here; a correct rewrite of the template - direct indexing with
    # the flagged call as the fall-back - was reported by it, so the
    # interpreted transition below decides alone)
    # the explicit read `?` as a transition system of its own: its template
    # (however it is written) is run on the same abstract states with the
    # flag down, as it is between two elements; it must push input number
    # cursor mod n of the *program's* scope, advance that cursor only, and
    # leave the flag down
    from ..pe import Env, ModuleEnv  # noqa: PLC0415
    el_mod = it.module("vyxal.elements")
    n_q = 0
    for key in ["?"] + sorted(k for k, v in elems.items() if k != "?"
                              and isinstance(v, tuple)
                              and isinstance(v[0], str)
                              and "use_top_input" in v[0]):
        v = elems.get(key)
        if not (isinstance(v, tuple) and isinstance(v[0], str)):
            raise AnalysisError(f"anchor vanished: element table entry {key!r}")
        try:
            code = ast.parse(v[0]).body
        except SyntaxError:
            continue  # C02 reports templates that do not parse
        badq = None
        for depth in (1, 2, 3):
            for lens in _it.product(range(0, 3), repeat=depth):
                curs_ranges = [range(0, 2 * ln + 1) if ln else range(0, 1)
                               for ln in lens]
                for curs in _it.product(*curs_ranges):
                    scopes = [([f"in{d}_{i}" for i in range(ln)], c)
                              for d, (ln, c) in enumerate(zip(lens, curs))]
                    for sk in _it.combinations_with_replacement(
                            kinds, depth - 1):
                        for online in (False, True):
                            ctx = fresh(scopes, False, sk, online)
                            env = Env(ModuleEnv(el_mod))
                            stack = ["below"]
                            env.vars["stack"] = stack
                            env.vars["ctx"] = ctx
                            n_q += 1
                            it.steps = 0
                            try:
                                it.exec_block(code, env, el_mod)
                            except (PRaise, Exception) as exc:  # noqa: BLE001
                                badq = badq or (scopes, "raises " + repr(exc))
                                continue
                            lst, cur = scopes[0]
                            want_after = [(list(l), c) for l, c in scopes]
                            if lst:
                                want = lst[cur % len(lst)]
                                want_after[0] = (list(lst), cur + 1)
                            else:
                                want = 0
                            after = [(list(x[0]), x[1])
                                     for x in ctx.d["inputs"]]
                            if env.vars["stack"] != ["below", want]:
                                badq = badq or (scopes, "stack " + repr(
                                    env.vars["stack"]), "expected " + repr(
                                    ["below", want]), "scopes " + ",".join(sk))
                            elif after != want_after:
                                badq = badq or (scopes, "cursors " + repr(
                                    after), "expected " + repr(want_after))
                            elif ctx.d["use_top_input"] is not False:
                                badq = badq or (scopes, "flag left set")
        chk.ob("C11.explicit-read-transition", f"elements[{key!r}]",
               badq is None,
               "the explicit read must push input number cursor mod n of the "
               "program's own scope (0 when the program has no input), "
               "advance that cursor only and leave the explicit-read flag "
               f"down: {badq}", repo.mod("elements").rel,
               witness=repr(badq) if badq else None,
               sample={"abstract states": n_q})
    chk.floor("explicit-read states", n_q, 500)
    for modname in ("elements", "helpers", "main", "LazyList", "transpile"):
        m = repo.mod(modname)
        for n in ast.walk(m.tree):
            if isinstance(n, ast.Assign) and any(
                    norm(ast.unparse(t)).endswith(".use_top_input")
                    for t in n.targets):
                fn = enclosing_function(n)
                fname = fn.name if isinstance(fn, ast.FunctionDef) else "?"
                chk.ob("C11.flag-writers", f"{modname}.{fname}:use_top_input",
                       fname in ("get_input",),
                       "use_top_input is written outside get_input and the "
                       "input element's template", m.rel, n.lineno)

    # ---- (S) scopes pushed by the lambda / function templates ----------------------------------
    TF = repo.mod("transpile").rel
    # every parameter shape is a template instance of its own (a template
    # may branch on the shape): none, numeric, zero, named, variadic, mixed
    for label, shape, struct in (
            ("Lambda", "", gen.struct("Lambda", 2, Hole("body"))),
            ("Lambda", " (arity 0)", gen.struct("Lambda", 0, Hole("body"))),
            ("Lambda", " (arity 1)", gen.struct("Lambda", 1, Hole("body"))),
            ("FunctionDef", "", gen.struct("FunctionDef", "f", ["2", "x"],
                                           Hole("body"))),
            ("FunctionDef", " (no parameters)",
             gen.struct("FunctionDef", "f", [], Hole("body"))),
            ("FunctionDef", " (0)",
             gen.struct("FunctionDef", "f", ["0"], Hole("body"))),
            ("FunctionDef", " (1)",
             gen.struct("FunctionDef", "f", ["1"], Hole("body"))),
            ("FunctionDef", " (named)",
             gen.struct("FunctionDef", "f", ["x"], Hole("body"))),
            ("FunctionDef", " (variadic)",
             gen.struct("FunctionDef", "f", ["*"], Hole("body")))):
        try:
            text = gen.transpile_ast([struct], 0)
            tree = ast.parse(text)
        except Exception as exc:  # noqa: BLE001
            if shape:
                chk.info("C11.scope-push", f"{label} template{shape}",
                         f"shape not instantiated: {exc}")
                continue
            raise
        pushes = [n for n in ast.walk(tree) if isinstance(n, ast.Call)
                  and norm(ast.unparse(n.func)) == "ctx.inputs.append"]
        ok = len(pushes) == 1
        why = f"{len(pushes)} pushes of an input scope"
        if ok:
            a = pushes[0].args[0]
            ok = isinstance(a, ast.List) and len(a.elts) == 2 and isinstance(
                a.elts[1], ast.Constant) and a.elts[1].value == 0
            why = "scope is not [<arguments>, 0]"
            if ok:
                e = a.elts[0]
                rev = (isinstance(e, ast.Subscript) and isinstance(
                    e.slice, ast.Slice) and e.slice.step is not None
                    and norm(ast.unparse(e.slice.step)) == "-1"
                    and e.slice.lower is None and e.slice.upper is None) \
                    or (isinstance(e, ast.Call) and any(
                        isinstance(c, ast.Call) and dotted(c.func) ==
                        "reversed" for c in ast.walk(e)))
                base = {"Lambda": "stack", "FunctionDef": "parameters"}[label]
                from_args = any(isinstance(m, ast.Name) and m.id == base
                                for m in ast.walk(e))
                ok = rev and from_args
                why = (f"scope holds `{ast.unparse(e)}`; it must be a reversed "
                       f"copy of the call's arguments (`{base}`) so that "
                       "implicit reads cycle over them in order")
                # ... and a *snapshot*: the slice / reversal of a lazy wrapper
                # (deep_copy, LazyList, iter, map ...) of the live list is
                # evaluated at the first read, when the list has changed
                lazy = {"deep_copy", "LazyList", "iter", "map", "filter",
                        "tee", "reversed", "enumerate", "iterable"}
                if ok:
                    inner = e.value if isinstance(e, ast.Subscript) else e
                    if isinstance(inner, ast.Call) and (dotted(inner.func)
                                                        or "").split(".")[-1] \
                            in lazy and not isinstance(e, ast.Subscript):
                        inner_is_lazy = True
                    elif isinstance(inner, ast.Call) and (
                            dotted(inner.func) or "").split(".")[-1] in (
                            lazy - {"reversed"}):
                        inner_is_lazy = True
                    else:
                        inner_is_lazy = False
                    # list(reversed(x)) / reversed list(...) are snapshots
                    if isinstance(e, ast.Call) and (dotted(e.func) or "") in (
                            "list", "tuple", "sorted"):
                        inner_is_lazy = False
                    if inner_is_lazy:
                        ok = False
                        why = (f"scope holds `{ast.unparse(e)}`, a lazy view "
                               f"of the live `{base}`: it is only evaluated "
                               "at the first implicit read, after the body "
                               "has already popped the arguments")
        chk.ob("C11.scope-push", f"{label} template{shape}", ok, why, TF,
               sample={"structure": label})

    input_context_threaded(chk, repo, gen)
    # every run reads from its own scopes: the context of a run is built
    # fresh, not derived from an object that outlives the run
    main = repo.mod("main")
    n_ctx = 0
    for fn in main.functions.values():
        for a in ast.walk(fn):
            if isinstance(a, ast.Assign) and any(
                    isinstance(t, ast.Name) and t.id == "ctx"
                    for t in a.targets):
                n_ctx += 1
                v = a.value
                fresh_ctx = isinstance(v, ast.Call) and (dotted(v.func) or ""
                                                         ).split(".")[-1] == \
                    "Context" and not v.args and not v.keywords
                chk.ob("C11.run-starts-with-fresh-context",
                       f"main.{fn.name}:ctx = {ast.unparse(v)[:40]}",
                       fresh_ctx,
                       f"the run's context is `{ast.unparse(v)[:60]}`, not a "
                       "new Context(): input scopes and cursors (Context.copy "
                       "shares the lists) survive from one run to the next in "
                       "the same process", main.rel, a.lineno,
                       witness="run `?` on inputs 1,2,3 twice: prints 1, "
                               "then 2")
    chk.floor("context constructions in main.py", n_ctx, 1)

    # ---- implicit reads happen while the call's own scope is still pushed --------------
    probes = [
        ("Lambda/normal-exit", gen.struct("Lambda", 1, Hole("body"))),
        ("Lambda/break", gen.struct("Lambda", 1, [gen.struct(
            "BreakStatement", gen.cls("Lambda"))])),
        ("FunctionDef/normal-exit", gen.struct(
            "FunctionDef", "f", ["1"], Hole("body"))),
        ("FunctionDef/break-arm", gen.struct("Lambda", 1, [gen.struct(
            "BreakStatement", gen.cls("FunctionDef"))])),
    ]
    for label, struct in probes:
        text = gen.transpile_ast([struct], 0)
        tree = ast.parse(text)
        for d in ast.walk(tree):
            if not isinstance(d, ast.FunctionDef):
                continue
            popped = False
            bad = None
            for st in d.body:
                txt = norm(ast.unparse(st))
                reads = [c for c in ast.walk(st) if isinstance(c, ast.Call)
                         and dotted(c.func) in ("pop", "get_input", "wrapify")
                         and c.args and ast.unparse(c.args[0]) in (
                             "stack", "ctx")]
                if popped and reads:
                    bad = st
                if "ctx.inputs.pop()" in txt:
                    popped = True
                if isinstance(st, ast.Return):
                    popped = False  # what follows belongs to another path
            chk.ob("C11.reads-before-scope-pop", label, bad is None,
                   f"`{ast.unparse(bad)[:50] if bad else ''}` may read an "
                   "implicit input after the call's own input scope was "
                   "popped: the value comes from the caller's scope and "
                   "advances the caller's cursor", TF,
                   witness="λ_X;† ? with inputs 10 20 30",
                   sample={"template": label})

    chk.explanation = (
        "get_input is treated as a transition system: its current source is "
        "interpreted on every abstract state (<= 3 scopes, <= 3 inputs each, "
        "every cursor position, both flag values) and each read must return "
        "input number cursor mod n of the scope chosen by the explicit-read "
        "flag (0 for an empty scope), advance exactly that cursor and leave "
        "the flag as it was - the k-th-read law follows by induction; pop on "
        "a short stack returns the stack items then the next inputs in "
        "order; cursors and the flag are written nowhere else (field-write "
        "inventory); the input element sets/reads/resets the flag; lambda and "
        "function templates push [reversed copy of the arguments, 0]. "
        "Balanced push/pop of scopes is C12. Does not decide the stdin "
        "fallback or value sequences as such.")
