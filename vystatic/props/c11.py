"""C11 - input is a cyclic stream shared by explicit and implicit reads
(structural clauses on get_input / pop / the scope-pushing templates)."""

from __future__ import annotations

import ast

from ..core import AnalysisError, dotted, enclosing_function
from ..pe import Hole
from ..templates import Gen, table_keys_with_nodes

level = "other"


def norm(s):
    return "".join(s.split())


def check(chk, repo, tier):
    chk.trusted_base += ["CPython ast", "vystatic.pe interpreter subset"]
    helpers = repo.mod("helpers")
    HF = helpers.rel
    gi = helpers.function("get_input")

    # ---- (R) every read in get_input: S[0][S[1] % len(S[0])] then S[1] += 1 ----
    reads = 0
    for n in ast.walk(gi):
        if not (isinstance(n, ast.Assign) and isinstance(
                n.value, ast.Subscript)):
            continue
        txt = norm(ast.unparse(n.value))
        if "ctx.inputs" not in txt:
            continue
        # scope expression S = ctx.inputs[k]
        scope = None
        for k in ("ctx.inputs[0]", "ctx.inputs[-1]"):
            if txt == norm(f"{k}[0][{k}[1] % len({k}[0])]"):
                scope = k
        reads += 1
        cons = f"get_input:read {ast.unparse(n.value)[:40]}"
        chk.ob("C11.cyclic-read-shape", cons, scope is not None,
               f"`{ast.unparse(n.value)}` is not of the form "
               "S[0][S[1] % len(S[0])] for one scope S: reads would not "
               "cycle over that scope's inputs", HF, n.lineno,
               sample={"read": ast.unparse(n.value)})
        if scope is None:
            continue
        # followed in the same block by exactly one `S[1] += 1`, then return
        par = getattr(n, "_parent", None)
        body = None
        for f in ("body", "orelse"):
            seq = getattr(par, f, None)
            if isinstance(seq, list) and n in seq:
                body = seq
        incs = []
        ret_var = None
        if body is not None:
            i = body.index(n)
            for st in body[i + 1:]:
                if isinstance(st, ast.AugAssign) and norm(ast.unparse(
                        st.target)) == norm(f"{scope}[1]"):
                    incs.append(st)
                if isinstance(st, ast.Return):
                    ret_var = ast.unparse(st.value) if st.value else None
                    break
        ok = len(incs) == 1 and isinstance(incs[0].op, ast.Add) \
            and isinstance(incs[0].value, ast.Constant) \
            and incs[0].value.value == 1 \
            and ret_var == ast.unparse(n.targets[0])
        chk.ob("C11.cursor-advances-once", f"get_input:{scope}[1] += 1", ok,
               f"after reading from {scope} the cursor of that same scope "
               "must advance by exactly one before the value is returned",
               HF, n.lineno, sample={"scope": scope})
        # the read sits under `if S[0]:` (non-empty guard)
        guard_ok = isinstance(par, ast.If) and norm(ast.unparse(
            par.test)) == norm(f"{scope}[0]") and n in par.body
        chk.ob("C11.empty-scope-guard", f"get_input:if {scope}[0]", guard_ok,
               "the read is not guarded by the scope being non-empty "
               "(modulo by zero / wrong fallback)", HF, n.lineno)
    chk.floor("cyclic reads in get_input", reads, 2)

    # scope choice: inputs[0] iff use_top_input
    top = gi.body[-1] if isinstance(gi.body[-1], ast.If) else None
    for st in gi.body:
        if isinstance(st, ast.If) and "use_top_input" in ast.unparse(st.test):
            top = st
    if top is None:
        raise AnalysisError("anchor vanished: `if ctx.use_top_input` in "
                            "get_input")
    t_scopes = {k for k in ("ctx.inputs[0]", "ctx.inputs[-1]")
                for b in top.body if norm(k) in norm(ast.unparse(b))}
    f_scopes = {k for k in ("ctx.inputs[0]", "ctx.inputs[-1]")
                for b in top.orelse if norm(k + "[") in norm(ast.unparse(b))}
    positive = norm(ast.unparse(top.test)) == "ctx.use_top_input"
    ok = positive and t_scopes == {"ctx.inputs[0]"} and \
        f_scopes == {"ctx.inputs[-1]"}
    chk.ob("C11.scope-choice", "get_input:use_top_input -> inputs[0]", ok,
           "explicit reads (use_top_input) must use the program's scope "
           "ctx.inputs[0], implicit reads the innermost scope ctx.inputs[-1]; "
           f"found true-arm {sorted(t_scopes)}, false-arm {sorted(f_scopes)}",
           HF, top.lineno, sample={"true": sorted(t_scopes),
                                   "false": sorted(f_scopes)})
    # empty innermost scope: top-level -> fall back to explicit read; nested -> 0
    fb = None
    for n in ast.walk(ast.Module(body=top.orelse, type_ignores=[])):
        if isinstance(n, ast.If) and norm(ast.unparse(n.test)) == \
                "len(ctx.inputs)==1":
            fb = n
    ok = False
    if fb is not None:
        sets_t = [s for s in fb.body if isinstance(s, ast.Assign) and norm(
            ast.unparse(s)) == "ctx.use_top_input=True"]
        sets_f = [s for s in fb.body if isinstance(s, ast.Assign) and norm(
            ast.unparse(s)) == "ctx.use_top_input=False"]
        calls = [s for s in fb.body if isinstance(s, ast.Assign)
                 and isinstance(s.value, ast.Call)
                 and dotted(s.value.func) == "get_input"]
        ret0 = any(isinstance(s, ast.Return) and isinstance(
            s.value, ast.Constant) and s.value.value == 0 for s in fb.orelse)
        ok = len(sets_t) == 1 and len(sets_f) == 1 and len(calls) == 1 \
            and sets_t[0].lineno < calls[0].lineno < sets_f[0].lineno and ret0
    chk.ob("C11.empty-scope-fallback", "get_input:empty innermost scope", ok,
           "with an empty innermost scope: at top level one explicit read "
           "with use_top_input set and reset around it; inside a "
           "lambda/function the value 0", HF, gi.lineno,
           sample="len(ctx.inputs) == 1 -> explicit read; else 0")
    # no inputs at all -> 0
    zero = any(isinstance(n, ast.ExceptHandler) and any(
        isinstance(s, ast.Assign) and isinstance(s.value, ast.Constant)
        and s.value.value == 0 for s in n.body) for n in ast.walk(gi)) \
        or any(isinstance(n, ast.Return) and isinstance(n.value, ast.Constant)
               and n.value.value == 0 for n in ast.walk(top.body[0]))
    chk.ob("C11.no-input-yields-zero", "get_input:no inputs", zero,
           "with no inputs a read must yield 0 (stdin fallback wrapped in "
           "try/except -> 0)", HF, gi.lineno)

    # ---- (W) cursors are written only in get_input -----------------------------------
    n_w = 0
    for modname in repo.package_modules():
        if modname.endswith(".dictionary"):
            continue
        m = repo.mod(modname)
        for n in ast.walk(m.tree):
            tg = []
            if isinstance(n, ast.Assign):
                tg = n.targets
            elif isinstance(n, ast.AugAssign):
                tg = [n.target]
            for t in tg:
                txt = norm(ast.unparse(t))
                if ".inputs[" in txt and txt.endswith("[1]"):
                    n_w += 1
                    fn = enclosing_function(n)
                    fname = fn.name if isinstance(fn, ast.FunctionDef) else "?"
                    chk.ob("C11.cursor-single-writer",
                           f"{modname.split('.')[-1]}.{fname}:{txt}",
                           fname == "get_input",
                           "an input cursor is written outside get_input",
                           m.rel, n.lineno)
    chk.floor("cursor writes", n_w, 2)

    # ---- (P) pop's empty arm: one get_input per missing item ------------------------------
    pf = helpers.function("pop")
    calls = [n for n in ast.walk(pf) if isinstance(n, ast.Call)
             and dotted(n.func) == "get_input"]
    ok = len(calls) == 1
    if ok:
        c = calls[0]
        loop = None
        cur = getattr(c, "_parent", None)
        in_else = False
        child = c
        while cur is not None and cur is not pf:
            if isinstance(cur, ast.If) and any(
                    child is s or child in ast.walk(s) for s in cur.orelse):
                in_else = norm(ast.unparse(cur.test)) == pf.args.args[0].arg
            if isinstance(cur, ast.For):
                loop = cur
            child = cur
            cur = getattr(cur, "_parent", None)
        ok = loop is not None and norm(ast.unparse(loop.iter)) == \
            f"range({pf.args.args[1].arg})" and in_else
    chk.ob("C11.pop-falls-back-to-input", "helpers.pop", ok,
           "pop must call get_input(ctx) exactly once for each missing item "
           "(inside `for _ in range(count)`, in the arm where the stack is "
           "empty)", HF, pf.lineno, sample="else: temp = get_input(ctx)")

    # ---- (T) use_top_input discipline ------------------------------------------------------
    gen = Gen(repo)
    elems = gen.elements()
    n_set = 0
    for key, knode, _ in table_keys_with_nodes(repo, "elements"):
        v = elems.get(key)
        if not (isinstance(v, tuple) and isinstance(v[0], str)
                and "use_top_input" in v[0]):
            continue
        n_set += 1
        try:
            tree = ast.parse(v[0])
        except SyntaxError:
            continue
        stmts = tree.body
        seq = [norm(ast.unparse(s)) for s in stmts]
        ok = False
        if "ctx.use_top_input=True" in seq and "ctx.use_top_input=False" in seq:
            i, j = seq.index("ctx.use_top_input=True"), seq.index(
                "ctx.use_top_input=False")
            between = seq[i + 1:j]
            ok = i < j and len(between) == 1 and "get_input(ctx)" in between[0]
        chk.ob("C11.explicit-read-template", f"elements[{key!r}]", ok,
               "the input element must set use_top_input, read once with "
               "get_input(ctx) and reset the flag before anything else runs",
               repo.mod("elements").rel, knode.lineno,
               sample={"template": v[0][:90]})
    chk.floor("templates setting use_top_input", n_set, 1)
    for modname in ("elements", "helpers", "main", "LazyList", "transpile"):
        m = repo.mod(modname)
        for n in ast.walk(m.tree):
            if isinstance(n, ast.Assign) and any(
                    norm(ast.unparse(t)).endswith(".use_top_input")
                    for t in n.targets):
                fn = enclosing_function(n)
                fname = fn.name if isinstance(fn, ast.FunctionDef) else "?"
                chk.ob("C11.flag-writers", f"{modname}.{fname}:use_top_input",
                       fname in ("get_input",),
                       "use_top_input is written outside get_input and the "
                       "input element's template", m.rel, n.lineno)

    # ---- (S) scopes pushed by the lambda / function templates ----------------------------------
    TF = repo.mod("transpile").rel
    for label, struct in (
            ("Lambda", gen.struct("Lambda", 2, Hole("body"))),
            ("FunctionDef", gen.struct("FunctionDef", "f", ["2", "x"],
                                       Hole("body")))):
        text = gen.transpile_ast([struct], 0)
        tree = ast.parse(text)
        pushes = [n for n in ast.walk(tree) if isinstance(n, ast.Call)
                  and norm(ast.unparse(n.func)) == "ctx.inputs.append"]
        ok = len(pushes) == 1
        why = f"{len(pushes)} pushes of an input scope"
        if ok:
            a = pushes[0].args[0]
            ok = isinstance(a, ast.List) and len(a.elts) == 2 and isinstance(
                a.elts[1], ast.Constant) and a.elts[1].value == 0
            why = "scope is not [<arguments>, 0]"
            if ok:
                e = a.elts[0]
                rev = (isinstance(e, ast.Subscript) and isinstance(
                    e.slice, ast.Slice) and e.slice.step is not None
                    and norm(ast.unparse(e.slice.step)) == "-1"
                    and e.slice.lower is None and e.slice.upper is None) \
                    or (isinstance(e, ast.Call) and any(
                        isinstance(c, ast.Call) and dotted(c.func) ==
                        "reversed" for c in ast.walk(e)))
                base = {"Lambda": "stack", "FunctionDef": "parameters"}[label]
                from_args = any(isinstance(m, ast.Name) and m.id == base
                                for m in ast.walk(e))
                ok = rev and from_args
                why = (f"scope holds `{ast.unparse(e)}`; it must be a reversed "
                       f"copy of the call's arguments (`{base}`) so that "
                       "implicit reads cycle over them in order")
        chk.ob("C11.scope-push", f"{label} template", ok, why, TF,
               sample={"structure": label})

    # ---- implicit reads happen while the call's own scope is still pushed --------------
    probes = [
        ("Lambda/normal-exit", gen.struct("Lambda", 1, Hole("body"))),
        ("Lambda/break", gen.struct("Lambda", 1, [gen.struct(
            "BreakStatement", gen.cls("Lambda"))])),
        ("FunctionDef/normal-exit", gen.struct(
            "FunctionDef", "f", ["1"], Hole("body"))),
        ("FunctionDef/break-arm", gen.struct("Lambda", 1, [gen.struct(
            "BreakStatement", gen.cls("FunctionDef"))])),
    ]
    for label, struct in probes:
        text = gen.transpile_ast([struct], 0)
        tree = ast.parse(text)
        for d in ast.walk(tree):
            if not isinstance(d, ast.FunctionDef):
                continue
            popped = False
            bad = None
            for st in d.body:
                txt = norm(ast.unparse(st))
                reads = [c for c in ast.walk(st) if isinstance(c, ast.Call)
                         and dotted(c.func) in ("pop", "get_input", "wrapify")
                         and c.args and ast.unparse(c.args[0]) in (
                             "stack", "ctx")]
                if popped and reads:
                    bad = st
                if "ctx.inputs.pop()" in txt:
                    popped = True
                if isinstance(st, ast.Return):
                    popped = False  # what follows belongs to another path
            chk.ob("C11.reads-before-scope-pop", label, bad is None,
                   f"`{ast.unparse(bad)[:50] if bad else ''}` may read an "
                   "implicit input after the call's own input scope was "
                   "popped: the value comes from the caller's scope and "
                   "advances the caller's cursor", TF,
                   witness="λ_X;† ? with inputs 10 20 30",
                   sample={"template": label})

    chk.explanation = (
        "Clause-level: get_input's reads have the cyclic shape "
        "S[0][S[1] % len(S[0])] on one scope S, each followed by exactly one "
        "S[1] += 1 before the return and guarded by a non-empty S[0]; the "
        "scope is inputs[0] iff use_top_input, inputs[-1] otherwise, with the "
        "empty-scope fallbacks of the specification; cursors and the flag "
        "are written nowhere else; pop calls get_input once per missing "
        "item; the input element sets/reads/resets the flag; lambda and "
        "function templates push [reversed copy of the arguments, 0]. "
        "Balanced push/pop of scopes is C12. Does not decide the stdin "
        "fallback or value sequences as such.")
