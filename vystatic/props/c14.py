"""C14 - finite prefixes of infinite lists are computed lazily and terminate
(necessary condition decided: no catalogued transformation consumes its lazy
argument eagerly)."""

from __future__ import annotations

import ast

from ..core import AnalysisError, dotted
from ..lazy import LazyViews, excluded_by_guard

level = "other"

# (module, function, lazy parameter) - the transformations of the statement
CATALOGUE = [
    ("elements", "vy_map", "lhs"), ("elements", "vy_map", "rhs"),
    ("elements", "vy_filter", "lhs"), ("elements", "vy_filter", "rhs"),
    ("elements", "vy_zip", "lhs"), ("elements", "vy_zip", "rhs"),
    ("elements", "interleave", "lhs"), ("elements", "interleave", "rhs"),
    ("helpers", "prefixes", "lhs"),
    ("elements", "cumulative_sum", "lhs"), ("helpers", "scanl", "vector"),
    ("elements", "deltas", "lhs"),
    ("elements", "overlapping_groups", "lhs"),
    ("elements", "wrap", "lhs"),
    ("elements", "deep_flatten", "lhs"),
    ("elements", "uniquify", "lhs"),
    ("elements", "vy_enumerate", "lhs"),
    ("elements", "prepend", "lhs"),
    ("elements", "merge", "lhs"), ("elements", "merge", "rhs"),
    ("helpers", "concat", "vec1"), ("helpers", "concat", "vec2"),
    ("elements", "slice_from", "lhs"),
    ("elements", "index", "lhs"),
    ("elements", "vectorise", "lhs"), ("elements", "vectorise", "rhs"),
    ("elements", "head", "lhs"),
    ("helpers", "iterable", "item"),
    ("helpers", "deep_copy", "value"),
    ("helpers", "vyxalify", "value"),
    ("helpers", "has_ind", "lst"),
]
LAZY_CALLEES = {"scanl", "concat", "vy_zip", "index", "prefixes", "vectorise",
                "merge", "deep_flatten", "vy_map", "vy_filter", "deltas",
                "interleave", "wrap", "uniquify", "vy_enumerate", "prepend",
                "slice_from", "cumulative_sum", "overlapping_groups"}

# reviewed sites (function, parameter, site text) -> reason.  These consume a
# sequence eagerly, but only where the parameter cannot be an infinite lazy
# list under the promised overload.
REVIEWED = {
    ("vy_map", "rhs", "ListComp over iterable(rhs, range, ctx=ctx)"):
        "non-function overload (pair a with every item of b); the statement's "
        "map is the function overload",
    ("vy_map", "lhs", "ListComp over iterable(rhs, range, ctx=ctx)"):
        "alias imprecision of the same site",
    ("vy_filter", "rhs", "... in rhs"):
        "`a F b` without a function removes the items of a that are in b: b "
        "is the (finite) exclusion list; a is streamed",
    ("vy_filter", "lhs", "... in rhs"): "alias imprecision of the same site",
    ("interleave", "lhs", "join(gen())"):
        "str/str overload only (`type(lhs) is type(rhs) is str`)",
    ("interleave", "rhs", "join(gen())"):
        "str/str overload only (`type(lhs) is type(rhs) is str`)",
    ("overlapping_groups", "lhs", "len(iterable(lhs, ctx=ctx))"):
        "length-equality overload (b is not a number), not the window "
        "transformation",
    ("wrap", "lhs", "all(isinstance(x, int) for x in rhs)"):
        "inspects the chunk-size list b, not the wrapped sequence",
    ("index", "lhs", "len(iterable(lhs))"):
        "arm after `ts == (LazyList, NUMBER_TYPE)` was taken: a is an eager "
        "list or string here",
    ("index", "lhs", "len(iterable(lhs, ctx))"):
        "same arm as above",
    ("index", "lhs", "list(lhs)"): "string overload (`isinstance(lhs, str)`)",
    ("index", "lhs", "join(temp)"): "string overload (originally_string)",
    ("index", "lhs", "len(rhs)"): "(str, str) overload",
    ("concat", "vec1", "vec1 + vec2"): "-",
}


def check(chk, repo, tier):
    chk.trusted_base += ["CPython ast",
                         "vystatic.lazy lazy-view propagation (syntactic)"]
    n_fn = 0
    n_sites = 0
    for modname, fname, param in CATALOGUE:
        mod = repo.mod(modname)
        if fname not in mod.functions:
            raise AnalysisError(
                f"anchor vanished: {modname}.{fname} (catalogued lazy "
                "transformation)")
        fn = mod.functions[fname]
        if param not in [a.arg for a in fn.args.args]:
            raise AnalysisError(
                f"anchor vanished: parameter {param} of {modname}.{fname}")
        n_fn += 1
        lv = LazyViews(fn, param, {c: set() for c in LAZY_CALLEES})
        clean = True
        for s in lv.sites():
            n_sites += 1
            if excluded_by_guard(s.node, fn, param):
                continue
            key = (fname, param, s.desc)
            if key in REVIEWED:
                chk.info("C14.reviewed-site", f"{fname}:{param}:{s.desc}",
                         REVIEWED[key])
                continue
            clean = False
            chk.ob("C14.no-eager-consumption",
                   f"{modname}.{fname}:{param}:{s.desc}", False,
                   f"`{s.desc}` consumes the (possibly infinite) lazy argument "
                   f"`{param}` eagerly ({s.how}): taking a finite prefix of "
                   "the result no longer terminates", mod.rel, s.line,
                   witness=f"{fname} applied to an infinite list, then take "
                           "the first item")
        if clean:
            chk.ob("C14.no-eager-consumption", f"{modname}.{fname}:{param}",
                   True, sample={"function": fname, "parameter": param,
                                 "lazy views": sorted(lv.views)[:6],
                                 "generators": sorted(lv.nested_gens)})
    chk.floor("catalogued (function, parameter) pairs", n_fn, 25)
    # x[-n:] with n == 0 is the whole sequence, not the empty one
    from ..flow import path_conditions
    seen_fn2 = set()
    for modname, fname, _ in CATALOGUE:
        if (modname, fname) in seen_fn2:
            continue
        seen_fn2.add((modname, fname))
        mod = repo.mod(modname)
        fn = mod.functions[fname]
        for n in ast.walk(fn):
            if not (isinstance(n, ast.Subscript) and isinstance(
                    n.slice, ast.Slice) and n.slice.upper is None
                    and isinstance(n.slice.lower, ast.UnaryOp)
                    and isinstance(n.slice.lower.op, ast.USub)):
                continue
            e = n.slice.lower.operand
            if isinstance(e, ast.Constant):
                continue
            names = {m.id for m in ast.walk(e) if isinstance(m, ast.Name)}
            positive = False
            # the count is a loop variable of range(1, ...), or tested > 0 /
            # truthy on the path
            for lp in ast.walk(fn):
                if isinstance(lp, (ast.For, ast.comprehension)) and isinstance(
                        lp.target, ast.Name) and lp.target.id in names \
                        and isinstance(lp.iter, ast.Call) and dotted(
                        lp.iter.func) == "range" and len(lp.iter.args) >= 2 \
                        and isinstance(lp.iter.args[0], ast.Constant) \
                        and isinstance(lp.iter.args[0].value, int) \
                        and lp.iter.args[0].value >= 1 and isinstance(
                        e, ast.Name):
                    positive = True
            for test, pol in path_conditions(n, fn):
                t = ast.unparse(test).replace(" ", "")
                et = ast.unparse(e).replace(" ", "")
                if pol and t in (et, f"{et}>0", f"{et}>=1", f"0<{et}",
                                 f"{et}!=0"):
                    positive = True
            chk.ob("C14.no-negative-zero-slice",
                   f"{modname}.{fname}:{ast.unparse(n)[:40]}", positive,
                   f"`{ast.unparse(n)}` keeps the *whole* sequence when "
                   f"`{ast.unparse(e)}` is 0 (`x[-0:]` is `x[0:]`): a buffer "
                   "that should be emptied never shrinks and the generator "
                   "stops yielding", mod.rel, n.lineno,
                   witness="Þ∞ 1 l (windows of width 1), second item")
    # bounds and counts written in the program are sympy numbers
    from .c08 import tower_unaware_tests
    seen_fn = set()
    for modname, fname, _ in CATALOGUE:
        if (modname, fname) in seen_fn:
            continue
        seen_fn.add((modname, fname))
        mod = repo.mod(modname)
        bad = tower_unaware_tests(mod.functions[fname])
        chk.ob("C14.bounds-recognised-as-numbers", f"{modname}.{fname}",
               not bad,
               (f"`{bad[0][1]}` decides whether a bound / count is a number "
                "by exact class: 0, 1, -1 and 1/2 are the sympy singletons "
                "Zero, One, NegativeOne, Half and fall through - the bound "
                "is treated as absent and the whole (infinite) list is "
                "taken") if bad else "", mod.rel,
               bad[0][0].lineno if bad else mod.functions[fname].lineno,
               witness="Þ∞ 0 Ẏ / Þ∞ 1 Ẏ never returns")
    chk.unit("eager-consumption candidate sites examined", n_sites)

    self_declared_lazy(chk, repo)
    next_on_the_list_itself(chk, repo)
    templates_do_not_force(chk, repo)
    popping_does_not_force(chk, repo)
    lazylist_methods(chk, repo)

    chk.explanation = (
        "Necessary condition (non-termination by forcing), decided for the "
        "catalogued transformations: starting from the lazy parameter, the "
        "set of lazy views (aliases, iterable/iter/deep_copy/LazyList/"
        "enumerate/map/filter/zip/itertools wrappers, generator expressions, "
        "calls of nested generators that iterate a view, results of other "
        "catalogued transformations) is propagated; no view may reach an "
        "eager consumer (len list sorted sum max min set tuple reversed "
        "simplify vy_str join, *unpacking, list/set/dict comprehension, "
        "statement-level for outside a generator, membership, equality, "
        "negative index, .listify/.count/.reversed) outside arms whose guard "
        "shows the parameter is a string/number/function; the remaining "
        "sites are a reviewed table. LazyList's own access path pulls only "
        "what is asked for. Does not decide the linear pull bound.")


def self_declared_lazy(chk, repo):
    """Transformations outside the catalogue that declare themselves lazy -
    they hand a nested generator over an argument back as LazyList(gen()) /
    @lazylist - must not materialise the same generator (list(gen()),
    "".join(gen())) on a path where that argument can be a lazy list."""
    from ..flow import path_conditions
    from ..lazy import guard_says_not_lazy
    cat = {(m, f) for m, f, _ in CATALOGUE}
    n_fn = 0
    for modname in ("elements", "helpers"):
        mod = repo.mod(modname)
        for fname, fn in mod.functions.items():
            if (modname, fname) in cat:
                continue
            gens = {g.name: g for g in ast.walk(fn)
                    if isinstance(g, ast.FunctionDef) and g is not fn
                    and any(isinstance(y, (ast.Yield, ast.YieldFrom))
                            for y in ast.walk(g))}
            lazy_ret = set()
            for n in ast.walk(fn):
                if isinstance(n, ast.Call) and (dotted(n.func) or "").split(
                        ".")[-1] == "LazyList" and n.args and isinstance(
                        n.args[0], ast.Call) and isinstance(
                        n.args[0].func, ast.Name) \
                        and n.args[0].func.id in gens:
                    lazy_ret.add(n.args[0].func.id)
            for g in gens.values():
                if any((dotted(d) or "").split(".")[-1] == "lazylist"
                       for d in g.decorator_list):
                    lazy_ret.add(g.name)
            if not lazy_ret:
                continue
            n_fn += 1
            for a in fn.args.args:
                if a.arg in ("ctx", "self"):
                    continue
                lv = LazyViews(fn, a.arg, {c: set() for c in LAZY_CALLEES})
                pos = None
                for n in ast.walk(fn):
                    if isinstance(n, ast.Assign) and isinstance(
                            n.value, ast.Call) and dotted(
                            n.value.func) == "vy_type":
                        args = [ast.unparse(x) for x in n.value.args]
                        if a.arg in args and len(args) > 1:
                            pos = args.index(a.arg)
                bad = []
                for s in lv.sites():
                    if not any(isinstance(c, ast.Call) and isinstance(
                            c.func, ast.Name) and c.func.id in lazy_ret
                            for c in ast.walk(s.node)):
                        continue
                    if excluded_by_guard(s.node, fn, a.arg):
                        continue
                    conds = path_conditions(s.node, fn)
                    if any(guard_says_not_lazy(t, a.arg, pos) is pol
                           for t, pol in conds):
                        continue
                    # the guard may speak about a view (the operand chosen
                    # after a swap): what is iterated is that view
                    if any(guard_says_not_lazy(t, v, None) is pol
                           for t, pol in conds
                           for v in lv.views if v != a.arg):
                        continue
                    bad.append(s)
                if not bad:
                    chk.ob("C14.lazy-result-not-materialised",
                           f"{modname}.{fname}:{a.arg}", True)
                for s in bad:
                    chk.ob("C14.lazy-result-not-materialised",
                           f"{modname}.{fname}:{a.arg}:{s.desc}", False,
                           f"{fname} returns its generator lazily on one "
                           f"path but `{s.desc}` runs the same generator to "
                           f"the end on a path where `{a.arg}` can still be "
                           "a lazy list: with an infinite list there the "
                           "element never returns", mod.rel, s.line,
                           witness=f"{fname} with an infinite list as "
                                   f"`{a.arg}`, then take the first item")
    chk.unit("self-declared lazy transformations outside the catalogue", n_fn)
    chk.floor("self-declared lazy transformations outside the catalogue",
              n_fn, 5)


def next_on_the_list_itself(chk, repo):
    """next(x) on a LazyList pulls a *new* item from its source and skips
    what is already cached; a transformation walks its argument through
    iter(...) / a for loop (which replay the cache first)."""
    n = 0
    seen = set()
    for modname, fname, param in CATALOGUE:
        if (modname, fname) in seen:
            continue
        seen.add((modname, fname))
        mod = repo.mod(modname)
        fn = mod.functions[fname]
        params = {a.arg for a in fn.args.args if a.arg not in ("ctx",)}
        views = set()
        for p_ in params:
            views |= LazyViews(fn, p_, {c: set() for c in LAZY_CALLEES}).views

        def bare_view(e):
            """can `e` be the list object itself (not an iterator over it)?"""
            if isinstance(e, ast.Name):
                return e.id in params
            if isinstance(e, ast.IfExp):
                return bare_view(e.body) or bare_view(e.orelse)
            if isinstance(e, ast.Call) and (dotted(e.func) or "").split(
                    ".")[-1] in ("iterable", "deep_copy", "LazyList",
                                 "vyxalify"):
                return True
            return False
        for c in ast.walk(fn):
            if not (isinstance(c, ast.Call) and dotted(c.func) == "next"
                    and c.args and isinstance(c.args[0], ast.Name)):
                continue
            nm = c.args[0].id
            if nm not in views and nm not in params:
                continue
            n += 1
            defs = [a.value for a in ast.walk(fn) if isinstance(a, ast.Assign)
                    and any(isinstance(t, ast.Name) and t.id == nm
                            for t in a.targets)]
            bad = nm in params and not defs or any(bare_view(d) for d in defs)
            chk.ob("C14.iterates-through-iter", f"{modname}.{fname}:next({nm})",
                   not bad,
                   f"`next({nm})` may be applied to the lazy list itself: "
                   "that pulls a new source item and skips the cached prefix "
                   "- a list that was looked at before is continued from the "
                   "wrong place, and every use pulls further", mod.rel,
                   c.lineno, witness="→x ←x 3Ẏ _ ←x 0 50r Y 4Ẏ")
    chk.unit("next() calls on views in catalogued functions", n)


def templates_do_not_force(chk, repo):
    """Modifier templates and hand-written element templates handle popped
    values that may be infinite lists: no equality with a list, len(), list(),
    sorted(), membership ... on them in the template itself."""
    from ..templates import Gen, table_keys_with_nodes
    gen = Gen(repo)
    EF = repo.mod("elements").rel
    items = []
    for key, knode, _ in table_keys_with_nodes(repo, "modifiers"):
        v = gen.modifiers().get(key)
        if isinstance(v, str):
            items.append((f"modifiers[{key!r}]", v, knode.lineno))
    for key, knode, vnode in table_keys_with_nodes(repo, "elements"):
        v = gen.elements().get(key)
        if isinstance(v, tuple) and isinstance(v[0], str) \
                and not isinstance(vnode, ast.Call):
            items.append((f"elements[{key!r}]", v[0], knode.lineno))
    n = 0
    for cons, code, line in items:
        try:
            body = ast.parse(code).body
        except SyntaxError:
            continue
        fn = ast.FunctionDef(
            name="_template", args=ast.arguments(
                posonlyargs=[], args=[ast.arg(arg="stack"),
                                      ast.arg(arg="ctx")],
                kwonlyargs=[], kw_defaults=[], defaults=[]),
            body=body or [ast.Pass()], decorator_list=[], lineno=1,
            col_offset=0)
        ast.fix_missing_locations(fn)
        for p_ in ast.walk(fn):
            for c_ in ast.iter_child_nodes(p_):
                c_._parent = p_
        popped = []
        for a in ast.walk(fn):
            if isinstance(a, ast.Assign) and isinstance(a.value, ast.Call) \
                    and (dotted(a.value.func) or "") in ("pop", "wrapify"):
                cnt = a.value.args[1] if len(a.value.args) > 1 else None
                t = a.targets[0]
                if isinstance(t, ast.Tuple):
                    popped += [e.id for e in t.elts
                               if isinstance(e, ast.Name)]
                elif isinstance(t, ast.Name) and isinstance(
                        cnt, ast.Constant) and cnt.value == 1:
                    popped.append(t.id)
        if not popped:
            continue
        n += 1
        lv = LazyViews(fn, popped[0], {c: set() for c in LAZY_CALLEES})
        lv.views |= set(popped)
        lv._fix()
        repo_fns = set(repo.mod("elements").functions) | set(
            repo.mod("helpers").functions)
        sites = [s_ for s_ in lv.sites()
                 if not excluded_by_guard(s_.node, fn, popped[0])
                 # what an element's own function does with the value is the
                 # element's meaning (Ṙ reverses); only consumption written in
                 # the template itself is judged here
                 and not (isinstance(s_.node, ast.Call) and (dotted(
                     s_.node.func) or "").split(".")[-1] in repo_fns)]
        # a popped value is also a *stack item*: WHOLE-STACK elements
        # (wrap, length ...) look at the stack, not at the items
        chk.ob("C14.template-does-not-force", cons, not sites,
               (f"the template consumes a popped value eagerly "
                f"(`{sites[0].desc}`: {sites[0].how}): with an infinite list "
                "on the stack it never returns") if sites else "", EF, line,
               witness="Þ∞ ɖ+ 3Ẏ")
    chk.unit("templates with popped values examined", n)


def popping_does_not_force(chk, repo):
    """helpers.pop / wrapify hand stack entries over untouched: whatever they
    do with an entry (re-push, reverse the order of entries) must not look
    into it."""
    mod = repo.mod("helpers")
    for fname in ("pop", "wrapify"):
        if fname not in mod.functions:
            raise AnalysisError(f"anchor vanished: helpers.{fname}")
        fn = mod.functions[fname]
        holders = set()   # lists of popped entries
        items = set()     # names bound to one entry
        for a in ast.walk(fn):
            if isinstance(a, ast.Assign) and isinstance(a.value, ast.Call):
                d = dotted(a.value.func) or ""
                if d.endswith(".pop") or d in ("get_input", "pop"):
                    for t in a.targets:
                        if isinstance(t, ast.Name):
                            (items if d != "pop" else holders).add(t.id)
            if isinstance(a, ast.Call) and isinstance(a.func, ast.Attribute) \
                    and a.func.attr == "append" and isinstance(
                    a.func.value, ast.Name) and a.args:
                arg = a.args[0]
                if isinstance(arg, ast.Name) and arg.id in items or (
                        isinstance(arg, ast.Call) and (dotted(arg.func) or ""
                                                       ).endswith(".pop")):
                    holders.add(a.func.value.id)
        for _ in range(2):
            for a in ast.walk(fn):
                if isinstance(a, (ast.For, ast.comprehension)) and isinstance(
                        a.target, ast.Name):
                    src = a.iter
                    while isinstance(src, ast.Subscript):
                        src = src.value
                    if isinstance(src, ast.Call) and (dotted(src.func) or ""
                                                      ) == "reversed" \
                            and src.args:
                        src = src.args[0]
                    if isinstance(src, ast.Name) and src.id in holders:
                        items.add(a.target.id)
        bad = None
        for c in ast.walk(fn):
            if not isinstance(c, ast.Call):
                continue
            d = dotted(c.func) or ""
            short = d.split(".")[-1]
            hit = [a for a in c.args if isinstance(a, ast.Name)
                   and a.id in items]
            if not hit or short in ("append", "extend"):
                continue
            if short in mod.functions:
                callee = mod.functions[short]
                ps = [x.arg for x in callee.args.args]
                idx = c.args.index(hit[0])
                if idx < len(ps):
                    lv = LazyViews(callee, ps[idx],
                                   {k: set() for k in LAZY_CALLEES})
                    if lv.sites():
                        bad = bad or (c, lv.sites()[0].desc)
            elif short in ("list", "len", "tuple", "sorted", "sum", "str",
                           "repr", "vy_str", "simplify", "deepcopy"):
                bad = bad or (c, short)
        chk.ob("C14.popping-does-not-force", f"helpers.{fname}", bad is None,
               (f"`{ast.unparse(bad[0])[:50]}` looks into a popped entry "
                f"({bad[1]}): with an infinite list on the stack the pop "
                "itself never returns") if bad else "", mod.rel,
               bad[0].lineno if bad else fn.lineno,
               witness="Þ∞ 3 ~Ẏ (retain-popped mode)",
               sample={"entries": sorted(items), "holders": sorted(holders)})


def method_closure(methods, name):
    """the method and the private helpers it (transitively) calls on self"""
    seen = []
    work = [name]
    while work:
        m = work.pop()
        if m not in methods or methods[m] in seen:
            continue
        seen.append(methods[m])
        for n in ast.walk(methods[m]):
            if isinstance(n, ast.Call) and isinstance(n.func, ast.Attribute) \
                    and isinstance(n.func.value, ast.Name) \
                    and n.func.value.id == "self" \
                    and n.func.attr.startswith("_") \
                    and not n.func.attr.startswith("__"):
                work.append(n.func.attr)
    return seen


def lazylist_methods(chk, repo):
    mod = repo.mod("LazyList")
    cls = mod.cls("LazyList")
    F = mod.rel
    methods = {m.name: m for m in cls.body if isinstance(m, ast.FunctionDef)}
    forcing_self = ("listify", "__len__", "count", "reversed")

    def forcing_calls(fn):
        out = []
        for n in ast.walk(fn):
            if isinstance(n, ast.Call):
                d = dotted(n.func) or ""
                if d in ("len", "list", "sorted", "tuple", "sum") and n.args \
                        and isinstance(n.args[0], ast.Name) \
                        and n.args[0].id == "self":
                    out.append(n)
                if d.startswith("self.") and d.split(".")[1] in forcing_self:
                    out.append(n)
        return out

    # the constructor wraps its source without looking into it
    init = methods.get("__init__")
    if init is None or len(init.args.args) < 2:
        raise AnalysisError("anchor vanished: LazyList.__init__(self, source)")
    src = init.args.args[1].arg
    lv = LazyViews(init, src, {})
    # self.raw_object aliases the source inside the constructor
    bad_sites = [s_ for s_ in lv.sites()
                 if not excluded_by_guard(s_.node, init, src)]
    for n in ast.walk(init):
        if isinstance(n, ast.Call):
            d = dotted(n.func) or ""
            if d in ("len", "list", "tuple", "sorted", "sum", "max", "min",
                     "set") and n.args and (dotted(n.args[0]) or "") == \
                    "self.raw_object":
                bad_sites.append(type("S", (), {
                    "desc": ast.unparse(n)[:40], "line": n.lineno,
                    "how": "eager builtin on the source iterator"})())
    chk.ob("C14.constructor-does-not-consume", "LazyList.__init__",
           not bad_sites,
           "wrapping a source consumes it ("
           + (f"`{bad_sites[0].desc}`: {bad_sites[0].how}" if bad_sites
              else "") + "): LazyList(<infinite lazy list>) - cumulative "
           "sums, wrapping a generator - never returns", F,
           bad_sites[0].line if bad_sites else init.lineno,
           witness="Þ∞ ¦ (cumulative sums of an infinite list), first item",
           sample={"source parameter": src})
    # __iter__, __next__, has_ind, __bool__: never force
    for name in ("__iter__", "__next__", "has_ind", "__bool__"):
        fn = methods.get(name)
        if fn is None:
            raise AnalysisError(f"anchor vanished: LazyList.{name}")
        fc = forcing_calls(fn)
        chk.ob("C14.lazylist-access-path", f"LazyList.{name}", not fc,
               f"LazyList.{name} consumes the whole list "
               f"(`{ast.unparse(fc[0])[:40]}`): every access to an infinite "
               "list hangs" if fc else "", F,
               fc[0].lineno if fc else fn.lineno,
               sample={"method": name})
    # has_ind pulls exactly the missing items
    hi = methods["has_ind"]
    loops = [n for n in ast.walk(hi) if isinstance(n, ast.For)]
    from ..flow import copy_env, subst
    ok = len(loops) == 1 and isinstance(loops[0].iter, ast.Call) and dotted(
        loops[0].iter.func) == "range" and "len(self.generated)" in \
        ast.unparse(subst(loops[0].iter, copy_env(hi))) and not any(
        isinstance(n, ast.While) for n in ast.walk(hi))
    chk.ob("C14.has-ind-bounded", "LazyList.has_ind", ok,
           "has_ind must pull at most ind - len(generated) + 1 items (one "
           "bounded for-loop over range(...)), never loop until exhaustion",
           F, hi.lineno, sample="for _ in range(ind - len(self.generated) + 1)")
    # __getitem__ (with the private helpers it delegates to): forcing only
    # under negative position / negative stop / step
    gi = methods["__getitem__"]
    closure = method_closure(methods, "__getitem__")
    gi_nodes = [m for m in closure]
    from ..flow import path_conditions
    from .c13 import slice_bound_aliases as _sba

    def negative_test(test, pol, names):
        """`x < 0` known true / `x >= 0` known false, x an index-like name"""
        if not (isinstance(test, ast.Compare) and len(test.ops) == 1):
            return None
        l, op, r = test.left, test.ops[0], test.comparators[0]
        if isinstance(r, ast.Name) and isinstance(l, ast.Constant):
            l, r = r, l
            op = {ast.Lt: ast.Gt, ast.Gt: ast.Lt, ast.LtE: ast.GtE,
                  ast.GtE: ast.LtE}.get(type(op), type(op))()
        if not (isinstance(l, ast.Name) and l.id in names and isinstance(
                r, ast.Constant) and r.value == 0):
            return None
        if (isinstance(op, ast.Lt) and pol) or (
                isinstance(op, ast.GtE) and not pol):
            return f"{l.id} < 0"
        return None

    for owner, n in [(m, c) for m in gi_nodes for c in forcing_calls(m)]:
        gi = owner
        names = {a.arg for a in owner.args.args[1:]} | set(_sba(owner))
        guard = None
        for test, pol in path_conditions(n, owner):
            guard = guard or negative_test(test, pol, names)
        chk.ob("C14.getitem-forces-only-from-the-end",
               f"LazyList.__getitem__:{ast.unparse(n)[:30]}",
               guard is not None,
               f"`{ast.unparse(n)[:40]}` exhausts the list outside the "
               "negative-position / negative-stop / negative-step arms: "
               "l[n] on an infinite list hangs", F, n.lineno,
               sample={"site": ast.unparse(n)[:30], "guard": guard})
    # a look-up of the list in itself at `bound - k`: for bound < k the
    # position is negative, which is the forcing arm (l[:0] -> self[-1])
    def positive_guard(test, pol, name, k):
        if isinstance(test, ast.Name) and test.id == name:
            return pol  # `if bound:` with bound >= 0 and k == 1
        if not (isinstance(test, ast.Compare) and len(test.ops) == 1):
            return False
        l, op, r = test.left, test.ops[0], test.comparators[0]
        if isinstance(l, ast.Constant) and isinstance(r, ast.Name):
            l, r = r, l
            op = {ast.Lt: ast.Gt, ast.Gt: ast.Lt, ast.LtE: ast.GtE,
                  ast.GtE: ast.LtE}.get(type(op), type(op))()
        if not (isinstance(l, ast.Name) and l.id == name and isinstance(
                r, ast.Constant) and isinstance(r.value, int)):
            return False
        c = r.value
        if pol:
            return (isinstance(op, ast.Gt) and c >= k - 1) or (
                isinstance(op, ast.GtE) and c >= k)
        return (isinstance(op, ast.Lt) and c >= k) or (
            isinstance(op, ast.LtE) and c >= k - 1) or (
            isinstance(op, ast.Eq) and c == 0 and k == 1)
    n_self = 0
    for owner in closure:
        for n in ast.walk(owner):
            if not (isinstance(n, ast.Subscript) and isinstance(
                    n.value, ast.Name) and n.value.id == "self"):
                continue
            n_self += 1
            idx = n.slice
            if not (isinstance(idx, ast.BinOp) and isinstance(idx.op, ast.Sub)
                    and isinstance(idx.left, ast.Name) and isinstance(
                    idx.right, ast.Constant) and isinstance(
                    idx.right.value, int) and idx.right.value > 0):
                continue
            ok_g = any(positive_guard(test, pol, idx.left.id, idx.right.value)
                       for test, pol in path_conditions(n, owner))
            chk.ob("C14.getitem-forces-only-from-the-end",
                   f"LazyList.__getitem__:{ast.unparse(n)[:30]}", ok_g,
                   f"`{ast.unparse(n)}` looks the list up in itself at a "
                   f"position that is negative when `{idx.left.id}` is below "
                   f"{idx.right.value}: that is the arm that exhausts the "
                   "source, so the first 0 items of an infinite list hang",
                   F, n.lineno, witness="infinite list [:0]")
    chk.unit("self look-ups inside __getitem__", n_self)
    # open-ended slice stays lazy
    from .c13 import slice_bound_aliases

    def is_stop(e, al):
        return (isinstance(e, ast.Name) and al.get(e.id) == "stop") or (
            isinstance(e, ast.Attribute) and e.attr == "stop")

    def absent_arm(node, al):
        """the statements run when the slice has no end (the test may be
        `end is None`, `not end`, or their negations with the arms swapped)"""
        t = node.test
        if isinstance(t, ast.Compare) and len(t.ops) == 1 and isinstance(
                t.comparators[0], ast.Constant) and t.comparators[
                0].value is None and is_stop(t.left, al):
            if isinstance(t.ops[0], (ast.Is, ast.Eq)):
                return node.body
            if isinstance(t.ops[0], (ast.IsNot, ast.NotEq)):
                return node.orelse
        if isinstance(t, ast.UnaryOp) and isinstance(t.op, ast.Not) \
                and is_stop(t.operand, al):
            return node.body
        if is_stop(t, al):
            return node.orelse
        return None

    lazy_slice = False
    for owner in closure:
        al = slice_bound_aliases(owner)
        for n in ast.walk(owner):
            arm = absent_arm(n, al) if isinstance(n, ast.If) else None
            if arm:
                lazy_slice |= any(
                    isinstance(m, (ast.FunctionDef, ast.GeneratorExp,
                                   ast.Lambda))
                    for b2 in arm for m in ast.walk(b2))
    gi = methods["__getitem__"]
    chk.ob("C14.open-slice-lazy", "LazyList.__getitem__:stop is None",
           lazy_slice, "l[n:] must return a generator-backed lazy list", F,
           gi.lineno, sample="stop is None -> @lazylist generator")
