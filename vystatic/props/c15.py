"""C15 - compression and base-conversion codecs round-trip (clause decided:
the writer's and the reader's tables agree)."""

from __future__ import annotations

import ast

from ..core import AnalysisError, dotted
from ..lexprobe import LexProbe
from ..pe import Interp

level = "other"


def names_in(node):
    return {dotted(n) for n in ast.walk(node)
            if isinstance(n, (ast.Name, ast.Attribute)) and dotted(n)}


def calls_in(fn, callee_short):
    out = []
    for n in ast.walk(fn):
        if isinstance(n, ast.Call):
            d = dotted(n.func) or ""
            if d.split(".")[-1] == callee_short:
                out.append(n)
    return out


def alpha_name(node):
    """trailing identifier of an alphabet expression
    (vyxal.encoding.compression -> compression)"""
    d = dotted(node)
    return d.split(".")[-1] if d else None


def float_quotients(chk, repo):
    """`int(a / b)` is the exact quotient only while `/` is sympy's: once
    both operands are Python ints (a rebound from int(...), b from int(...))
    the division is a float and digits are lost above 2**53."""
    n = 0
    for modname in ("elements", "helpers"):
        mod = repo.mod(modname)
        for fname, fn in mod.functions.items():
            defs = {}
            for a in ast.walk(fn):
                if isinstance(a, ast.Assign):
                    for t in a.targets:
                        if isinstance(t, ast.Name):
                            defs.setdefault(t.id, []).append(a.value)
                elif isinstance(a, ast.AugAssign) and isinstance(
                        a.target, ast.Name):
                    defs.setdefault(a.target.id, []).append(None)

            def is_int_call(v):
                return isinstance(v, ast.Call) and dotted(v.func) == "int" \
                    and v.args and not any(
                        isinstance(m, ast.Call) and dotted(m.func) == "len"
                        for m in ast.walk(v))

            def always_pyint(name):
                ds = defs.get(name, [])
                return bool(ds) and all(
                    d is not None and (is_int_call(d) or (
                        isinstance(d, ast.Constant)
                        and isinstance(d.value, int))) for d in ds)

            def maybe_pyint(name):
                return any(d is not None and is_int_call(d)
                           for d in defs.get(name, []))

            for c in ast.walk(fn):
                if not (isinstance(c, ast.Call) and (dotted(c.func) or "")
                        in ("int", "math.floor", "round", "math.trunc")
                        and c.args and isinstance(c.args[0], ast.BinOp)
                        and isinstance(c.args[0].op, ast.Div)):
                    continue
                n += 1
                l, r = c.args[0].left, c.args[0].right
                bad = isinstance(l, ast.Name) and isinstance(r, ast.Name) \
                    and maybe_pyint(l.id) and always_pyint(r.id)
                chk.ob("C15.no-float-quotient",
                       f"{modname}.{fname}:{ast.unparse(c)[:40]}", not bad,
                       f"`{ast.unparse(c)}`: `{r.id if bad else ''}` is a "
                       f"Python int and `{l.id if bad else ''}` is rebound "
                       "from int(...), so from the second round on the "
                       "quotient is a float: digits of integers above 2**53 "
                       "are lost", mod.rel, c.lineno,
                       witness="2**63-1 in base 2")
    chk.unit("int(a / b) sites examined", n)


def one_sided_bounds(chk, repo):
    """An index computed as a difference and checked against the upper end
    of its table (`x < len(T)`) has to be checked against 0 as well: a
    negative index does not fail in Python, it counts from the end."""
    from ..flow import path_conditions
    n = 0
    for modname in ("elements", "helpers"):
        mod = repo.mod(modname)
        for p_ in ast.walk(mod.tree):
            for c_ in ast.iter_child_nodes(p_):
                c_._parent = p_
        for fname, fn in mod.functions.items():
            defs = {}
            for a in ast.walk(fn):
                if isinstance(a, ast.Assign):
                    for t in a.targets:
                        if isinstance(t, ast.Name):
                            defs.setdefault(t.id, []).append(a.value)
            for sub in ast.walk(fn):
                if not (isinstance(sub, ast.Subscript) and isinstance(
                        sub.slice, ast.Name) and isinstance(
                        sub.ctx, ast.Load)):
                    continue
                x = sub.slice.id
                if not any(isinstance(d, ast.BinOp) and isinstance(
                        d.op, ast.Sub) for d in defs.get(x, [])):
                    continue
                conds = [(ast.unparse(t).replace(" ", ""), pol)
                         for t, pol in path_conditions(sub, fn)]
                upper = any((pol and (c.startswith(f"{x}<")
                                      or c.startswith(f"len(") and c.endswith(
                                          f">{x}")))
                            or (not pol and c.startswith(f"{x}>="))
                            for c, pol in conds)
                lower = any((pol and (c.startswith(f"{x}>=")
                                      or c.startswith(f"{x}>")
                                      or c.startswith(f"0<={x}")
                                      or c.startswith(f"0<{x}")))
                            or (not pol and (c.startswith(f"{x}<0")
                                             or c.startswith(f"{x}<=")))
                            for c, pol in conds)
                if not upper:
                    continue
                n += 1
                chk.ob("C15.index-bounded-below",
                       f"{modname}.{fname}:{ast.unparse(sub)[:40]}", lower,
                       f"`{ast.unparse(sub)}` is guarded by an upper bound on "
                       f"`{x}` only; `{x}` is a difference and can be "
                       "negative, and a negative index silently counts from "
                       "the end of the table", mod.rel, sub.lineno,
                       witness="the value just below the table's offset")
    chk.unit("difference-valued indices with an upper-bound guard", n)


def check(chk, repo, tier):
    float_quotients(chk, repo)
    one_sided_bounds(chk, repo)
    chk.trusted_base += ["CPython ast", "vystatic.pe constant folder"]
    it = Interp(repo)
    enc = it.module("vyxal.encoding")
    EF = repo.mod("encoding").rel
    codepage = enc.get("codepage")
    alph = {n: enc.get(n) for n in ("codepage_number_compress",
                                    "codepage_string_compress",
                                    "base_27_alphabet", "compression")}
    lp = LexProbe(repo, it)
    kind_heads = {k: lp.heads_of(k) for k in lp.kinds}

    # ---- (A1) no repeated symbol; (A2) delimiter excluded ----------------------
    delim = {"codepage_number_compress": "»", "codepage_string_compress": "«",
             "compression": "`"}
    for name, a in alph.items():
        chk.ob("C15.alphabet-distinct", f"encoding.{name}",
               isinstance(a, str) and len(set(a)) == len(a) and len(a) >= 2,
               f"alphabet has repeated symbols or fewer than two symbols "
               f"(len {len(a)}, distinct {len(set(a))}): digits would be "
               "ambiguous", EF, sample={"alphabet": name, "size": len(a)})
        d = delim.get(name)
        if d:
            chk.ob("C15.alphabet-excludes-delimiter", f"encoding.{name}",
                   d not in a, f"the alphabet contains its literal's own "
                   f"delimiter {d!r}: a compressed literal containing that "
                   "digit is cut short by the lexer", EF,
                   sample={"alphabet": name, "delimiter": d})
    chk.ob("C15.alphabet-excludes-delimiter",
           "encoding.compression vs backslash", "\\" not in alph["compression"],
           "compression characters include the backslash, which the string "
           "lexer and uncompress_dict treat as the escape", EF)
    # compression chars must not be printable ASCII (plain text must survive)
    import string as _s
    overlap = set(alph["compression"]) & set(_s.printable)
    chk.ob("C15.compression-disjoint-from-ascii", "encoding.compression",
           not overlap, f"compression alphabet overlaps printable ASCII: "
           f"{sorted(overlap)[:6]}; plain text would be decoded as dictionary "
           "indices", EF, sample={"size": len(alph["compression"])})
    # the delimiters are the lexer heads of the corresponding token kinds
    for kind, d in (("COMPRESSED_NUMBER", "»"), ("COMPRESSED_STRING", "«"),
                    ("STRING", "`")):
        chk.ob("C15.delimiter-is-lexer-head", f"TokenType.{kind}",
               d in kind_heads.get(kind, set()),
               f"{d!r} no longer opens a {kind} literal in the lexer",
               repo.mod("lexer").rel, sample={"kind": kind, "head": d})

    # every digit of a compressed alphabet is read back verbatim by the lexer:
    # `d digit d` and `d digit digit' d` (digit' over the lexer's own classes)
    # lex to one literal whose value is the digits - the alphabet contains
    # nothing the lexer treats specially inside that literal
    for name, kind in (("codepage_number_compress", "COMPRESSED_NUMBER"),
                       ("codepage_string_compress", "COMPRESSED_STRING")):
        d = delim[name]
        a = alph[name]
        bad = None
        n = 0
        specials = [c for c in lp.reps if c in a]
        for ch in a:
            n += 1
            if lp.run(d + ch + d) != [(kind, ch)]:
                bad = bad or ch
            for sp in specials:
                n += 1
                if lp.run(d + ch + sp + d) != [(kind, ch + sp)]:
                    bad = bad or (ch + sp)
        chk.ob("C15.alphabet-read-back-verbatim", f"encoding.{name}",
               bad is None,
               f"the literal {d + (bad or '') + d!r} is lexed as "
               f"{lp.run(d + (bad or '') + d)}: a digit of the alphabet is "
               "special inside its own literal, so some compressed values "
               "decode to something else", repo.mod("lexer").rel,
               witness=repr(d + (bad or "") + d),
               sample={"alphabet": name, "literals lexed": n})

    helpers = repo.mod("helpers")
    elements = repo.mod("elements")
    HF, LF = helpers.rel, elements.rel

    # ---- positional encode/decode invert each other (helpers, interpreted) ----------
    ph = it.module("vyxal.helpers")
    try:
        tba_f, fba_f = ph.get("to_base_alphabet"), ph.get("from_base_alphabet")
        tbd_f, fbd_f = ph.get("to_base_digits"), ph.get("from_base_digits")
    except KeyError as exc:
        raise AnalysisError(f"anchor vanished: helpers.{exc}") from None
    from ..pe import PRaise  # noqa: PLC0415
    bad = None
    n = 0
    tests = []
    for base in (2, 3, 10, 27, 255):
        vals = set(range(0, 2 * base + 2))
        for k in (2, 3, 4):
            vals |= {base ** k - 1, base ** k, base ** k + 1}
        tests.append((base, sorted(vals)))
    for base, vals in tests:
        for v in vals:
            n += 1
            it.steps = 0
            try:
                digs = tbd_f(v, base)
                back = fbd_f(digs, base)
                ok = back == v and all(0 <= x < base for x in digs) \
                    and len(digs) >= 1 and (digs[0] != 0 or v == 0)
            except (PRaise, Exception) as exc:  # noqa: BLE001
                ok, digs, back = False, None, repr(exc)
            if not ok:
                bad = bad or (v, base, digs, back)
    chk.ob("C15.positional-roundtrip", "helpers.to_base_digits/from_base_digits",
           bad is None,
           f"{bad[0] if bad else ''} in base {bad[1] if bad else ''} encodes to "
           f"{bad[2] if bad else ''} and decodes to {bad[3] if bad else ''}: "
           "digits must be in range, most significant first and non-empty "
           "(0 is the single digit 0)", HF, witness=repr(bad) if bad else None,
           sample={"values x bases": n})
    bad = None
    n = 0
    for name in ("base_27_alphabet", "codepage_number_compress",
                 "codepage_string_compress", "compression"):
        a = alph[name]
        base = len(a)
        for v in sorted(set(range(0, base + 3)) | {base ** 2 - 1, base ** 2,
                                                   base ** 2 + 1,
                                                   base ** 3 + 7}):
            n += 1
            it.steps = 0
            try:
                text = tba_f(v, a)
                back = fba_f(text, a)
                ok = back == v and all(c in a for c in text) and text != ""
            except (PRaise, Exception) as exc:  # noqa: BLE001
                ok, text, back = False, None, repr(exc)
            if not ok:
                bad = bad or (name, v, text, back)
    chk.ob("C15.positional-roundtrip",
           "helpers.to_base_alphabet/from_base_alphabet", bad is None,
           f"alphabet {bad[0] if bad else ''}: {bad[1] if bad else ''} encodes "
           f"to {bad[2] if bad else ''!r} and decodes to "
           f"{bad[3] if bad else ''}", HF, witness=repr(bad) if bad else None,
           sample={"values x alphabets": n})

    # ---- positional encode/decode use the same radix -------------------------------
    fba = helpers.function("from_base_alphabet")
    tba = helpers.function("to_base_alphabet")
    tbd = helpers.function("to_base_digits")
    a_param = fba.args.args[1].arg
    radix_r = [ast.unparse(n) for n in ast.walk(fba) if isinstance(n, ast.Call)
               and dotted(n.func) == "len"]
    ok_r = radix_r and all(r == f"len({a_param})" for r in radix_r) and any(
        isinstance(n, ast.Call) and isinstance(n.func, ast.Attribute)
        and n.func.attr in ("find", "index") and dotted(n.func.value) ==
        a_param for n in ast.walk(fba))
    chk.ob("C15.radix-agrees", "helpers.from_base_alphabet", bool(ok_r),
           "the decoder must use len(alphabet) as radix and alphabet.find "
           "as digit value", HF, fba.lineno, sample=radix_r)
    t_param = tba.args.args[1].arg
    c = calls_in(tba, "to_base_digits")
    ok_w = len(c) == 1 and len(c[0].args) == 2 and ast.unparse(
        c[0].args[1]) == f"len({t_param})" and any(
        isinstance(n, ast.Subscript) and dotted(n.value) == t_param
        for n in ast.walk(tba))
    chk.ob("C15.radix-agrees", "helpers.to_base_alphabet", ok_w,
           "the encoder must convert with radix len(alphabet) and index the "
           "same alphabet", HF, tba.lineno,
           sample=[ast.unparse(x) for x in c])
    dm = [n for n in ast.walk(tbd) if isinstance(n, ast.Call)
          and dotted(n.func) == "divmod"]
    base_p = tbd.args.args[1].arg
    ok_d = len(dm) == 1 and ast.unparse(dm[0].args[1]) == base_p and any(
        isinstance(n, ast.Subscript) and isinstance(n.slice, ast.Slice)
        and n.slice.step is not None for n in ast.walk(tbd))
    chk.ob("C15.radix-agrees", "helpers.to_base_digits", ok_d,
           "digits must come from divmod(n, base), most significant first",
           HF, tbd.lineno)

    # ---- number codec: writer and reader name the same alphabet / delimiter --------------
    w = elements.function("base_255_number_compress")
    r = helpers.function("uncompress_num")
    w_alpha = {alpha_name(a) for cl in calls_in(w, "to_base")
               for a in cl.args[1:2]}
    r_alpha = {alpha_name(a) for cl in calls_in(r, "from_base_alphabet")
               for a in cl.args[1:2]}
    w_delims = {n.value for n in ast.walk(w) if isinstance(n, ast.Constant)
                and isinstance(n.value, str) and len(n.value) == 1}
    chk.ob("C15.number-codec-tables-agree", "øC vs »...»",
           w_alpha == r_alpha == {"codepage_number_compress"}
           and w_delims == {"»"},
           f"writer uses {sorted(map(str, w_alpha))} / delimiters "
           f"{sorted(w_delims)}, reader uses {sorted(map(str, r_alpha))}",
           LF, w.lineno, sample={"writer": sorted(map(str, w_alpha)),
                                 "reader": sorted(map(str, r_alpha))})
    # ---- string codec ----------------------------------------------------------------------
    w = elements.function("base_255_string_compress")
    r = helpers.function("uncompress_str")
    w_to = {alpha_name(a) for cl in calls_in(w, "to_base")
            for a in cl.args[1:2]}
    w_from = {alpha_name(a) for cl in calls_in(w, "from_base")
              for a in cl.args[1:2]}
    r_from = {alpha_name(a) for cl in calls_in(r, "from_base_alphabet")
              for a in cl.args[1:2]}
    r_to = {alpha_name(a) for cl in calls_in(r, "to_base_alphabet")
            for a in cl.args[1:2]}
    w_delims = {n.value for n in ast.walk(w) if isinstance(n, ast.Constant)
                and isinstance(n.value, str) and len(n.value) == 1}
    ok = w_to == r_from == {"codepage_string_compress"} and \
        w_from == r_to == {"base_27_alphabet"} and w_delims == {"«"}
    chk.ob("C15.string-codec-tables-agree", "øc vs «...«", ok,
           f"writer: from {sorted(map(str, w_from))} to "
           f"{sorted(map(str, w_to))}, delimiters {sorted(w_delims)}; reader: "
           f"from {sorted(map(str, r_from))} to {sorted(map(str, r_to))}",
           LF, w.lineno, sample={"writer": [sorted(map(str, w_from)),
                                            sorted(map(str, w_to))],
                                 "reader": [sorted(map(str, r_from)),
                                            sorted(map(str, r_to))]})
    # uncompress dispatches each compressed kind to its own reader
    un = helpers.function("uncompress")
    disp = {}
    for st in un.body:
        if isinstance(st, ast.If) and isinstance(st.test, ast.Compare):
            k = (dotted(st.test.comparators[0]) or "").split(".")[-1]
            for b in st.body:
                if isinstance(b, ast.Return) and isinstance(b.value, ast.Call):
                    disp[k] = (dotted(b.value.func) or "").split(".")[-1]
    want = {"STRING": "uncompress_dict", "COMPRESSED_STRING": "uncompress_str",
            "COMPRESSED_NUMBER": "uncompress_num"}
    chk.ob("C15.reader-dispatch", "helpers.uncompress", disp == want,
           f"uncompress dispatches {disp}, expected {want}", HF, un.lineno,
           sample=disp)

    # ---- dictionary codec -----------------------------------------------------------------------
    dmod = repo.mod("dictionary")
    wi = dmod.function("word_index")
    w_alpha = {alpha_name(a) for cl in calls_in(wi, "to_base_alphabet")
               for a in cl.args[1:2]}
    ud = helpers.function("uncompress_dict")
    r_alpha = {alpha_name(a) for cl in calls_in(ud, "from_base_alphabet")
               for a in cl.args[1:2]}
    chk.ob("C15.dictionary-codec-tables-agree", "øD vs `...`",
           w_alpha == r_alpha == {"compression"},
           f"word_index encodes with {sorted(map(str, w_alpha))}, "
           f"uncompress_dict decodes with {sorted(map(str, r_alpha))}",
           dmod.rel, wi.lineno, sample={"writer": sorted(map(str, w_alpha)),
                                        "reader": sorted(map(str, r_alpha))})
    pads = [n.left.value for n in ast.walk(wi) if isinstance(n, ast.BinOp)
            and isinstance(n.op, ast.Add) and isinstance(n.left, ast.Constant)
            and isinstance(n.left.value, str)]
    chk.ob("C15.dictionary-pad-is-zero-digit", "dictionary.word_index pad",
           pads == [alph["compression"][0]],
           f"one-digit indices are padded with {pads} but the zero digit of "
           f"the compression alphabet is {alph['compression'][0]!r}: the "
           "reader decodes a different word", dmod.rel, wi.lineno,
           sample={"pad": pads, "zero digit": alph["compression"][0]})
    # reader consumes exactly two compression characters per word
    two = [n for n in ast.walk(ud) if isinstance(n, ast.Compare)
           and "len(temp_scc)" in ast.unparse(n.left)
           and isinstance(n.comparators[0], ast.Constant)]
    chk.ob("C15.dictionary-two-digit-words", "helpers.uncompress_dict",
           bool(two) and all(t.comparators[0].value == 2 for t in two),
           "uncompress_dict must decode dictionary words from exactly two "
           "compression characters (word_index writes two)", HF, ud.lineno)
    # capacity: every word index fits in two digits
    n_words = _dictionary_size(dmod)
    cap = len(alph["compression"]) ** 2
    chk.ob("C15.dictionary-capacity", "dictionary.contents", n_words <= cap,
           f"{n_words} dictionary words but two digits of a "
           f"{len(alph['compression'])}-symbol alphabet address only {cap}",
           dmod.rel, sample={"words": n_words, "capacity": cap})
    # lookup maps word -> its index in contents
    lk = [n for n in ast.walk(dmod.tree) if isinstance(n, ast.For)
          and isinstance(n.iter, ast.Call) and dotted(n.iter.func) ==
          "enumerate" and ast.unparse(n.iter.args[0]) == "contents"]
    ok = False
    if lk and isinstance(lk[0].target, ast.Tuple):
        iv, wv = [e.id for e in lk[0].target.elts]
        ok = any(isinstance(s, ast.Assign) and ast.unparse(
            s.targets[0]) == f"lookup[{wv}]" and ast.unparse(s.value) == iv
            for s in lk[0].body)
    chk.ob("C15.dictionary-lookup-is-inverse", "dictionary.lookup", ok,
           "lookup must map each word to its index in contents (the reader "
           "indexes contents)", dmod.rel, sample="lookup[word] = index")

    # ---- base conversion elements ------------------------------------------------------------------
    tb = elements.function("to_base")
    fb = elements.function("from_base")
    to_base_model(chk, repo, LF, tb)
    compressed_literals_ignore_the_dictionary_flag(chk, repo)
    from .c08 import tower_unaware_tests
    for fn_ in (tb, fb):
        bad = tower_unaware_tests(fn_)
        chk.ob("C15.base-recognised-as-number", f"elements.{fn_.name}",
               not bad,
               (f"`{bad[0][1]}` tells a numeric base from a digit alphabet by "
                "python class: a base written in the program (16τ) is a "
                "sympy Integer and is then taken for an alphabet - its "
                "decimal digits become the digits") if bad else "", LF,
               bad[0][0].lineno if bad else fn_.lineno,
               witness="255 16τ")
    calls = {(dotted(c.func) or "").split(".")[-1] for c in ast.walk(fb)
             if isinstance(c, ast.Call)}
    chk.ob("C15.base-elements", "elements.from_base",
           {"from_base_alphabet", "from_base_digits"} <= calls,
           "from_base must decode through from_base_alphabet / "
           "from_base_digits", LF, fb.lineno)

    chk.explanation = (
        "Clause-level ('the writer's and the reader's tables agree'): each "
        "alphabet has distinct symbols and excludes its literal's delimiter; "
        "delimiters are the lexer heads of their token kinds; encoder and "
        "decoder use len(alphabet) as radix; øC/»…», øc/«…« and øD/`…` name "
        "the same alphabet constants on both sides (and compose from/to in "
        "mirrored order); one-digit dictionary indices are padded with the "
        "alphabet's zero digit; the dictionary fits in two digits; lookup is "
        "the inverse of contents. to_base itself is interpreted on every n "
        "up to base**3 + 1 and around base**k (k <= 40) for bases 2..7, 10, "
        "16, 255 (bounded, not exhaustive): digits in range, most "
        "significant first, value preserved.")


def compressed_literals_ignore_the_dictionary_flag(chk, repo):
    """Flag D switches *dictionary* decompression of back-quoted strings off;
    the base-255 literals »…» and «…« mean the same with and without it."""
    from ..templates import Gen, GeneratorRaised
    gen = Gen(repo)
    TF = repo.mod("transpile").rel
    enc = gen.it.module("vyxal.encoding")
    comp = enc.get("compression")
    payloads = ["", "a", "ab", comp[0], comp[-1] + "a", "λƛ", "0", "1\n"]
    for kind in ("COMPRESSED_STRING", "COMPRESSED_NUMBER"):
        bad = None
        for pl in payloads:
            try:
                on = gen.transpile_token(gen.token(kind, pl), 0,
                                         dict_compress=True)
                off = gen.transpile_token(gen.token(kind, pl), 0,
                                          dict_compress=False)
            except GeneratorRaised:
                continue
            if on != off:
                bad = bad or (pl, on.strip(), off.strip())
        chk.ob("C15.compressed-literal-independent-of-D", f"token/{kind}",
               bad is None,
               (f"payload {bad[0]!r} is emitted as {bad[1]!r} with dictionary "
                f"compression on and as {bad[2]!r} with it off: under flag D "
                "the text øc / øC produced no longer evaluates to the value")
               if bad else "", TF, witness="flag D: «…« literal of `hello`",
               sample={"kind": kind, "payloads": len(payloads)})


def to_base_model(chk, repo, LF, tb):
    """elements.to_base interpreted (vystatic.pe) with `index` replaced by a
    strict digit lookup: every digit must be a valid position of the
    alphabet, and the digits must denote the number."""
    from ..pe import Interp, PRaise, StubModule, Unsupported
    from .c08 import TOWER
    it = Interp(repo)
    it.stubs["sympy"] = StubModule("sympy", dict(TOWER))
    el = it.module("vyxal.elements")
    out_of_range = []

    def strict_index(fn, args, kwargs):
        seq, pos = args[0], args[1]
        if not isinstance(pos, int) or isinstance(pos, bool) \
                or not 0 <= pos < len(seq):
            out_of_range.append(pos)
            return seq[pos % len(seq)] if isinstance(pos, int) else seq[0]
        return seq[pos]
    it.intercepts[("vyxal.elements", "index")] = strict_index
    try:
        f = el.get("to_base")
        ctx = it.instantiate(it.module("vyxal.context").get("Context"),
                             [], {})
    except KeyError as exc:
        raise AnalysisError(f"anchor vanished: {exc}") from None
    bad = None
    n_runs = 0
    for b in (2, 3, 4, 5, 6, 7, 10, 16, 255):
        ns = set(range(0, min(b ** 3 + 2, 1200)))
        for k in range(1, 41):
            ns |= {b ** k - 1, b ** k, b ** k + 1}
        for n in sorted(ns):
            del out_of_range[:]
            it.steps = 0
            n_runs += 1
            try:
                d = f(n, b, ctx)
            except PRaise as exc:
                bad = bad or (n, b, f"raises {exc.cls_name}{exc.pargs}")
                continue
            except Unsupported as exc:
                raise AnalysisError(
                    "to_base uses a construct the interpreter does not "
                    f"model: {exc}") from None
            val = 0
            okd = isinstance(d, list) and len(d) >= 1 and not out_of_range
            if okd:
                for x in d:
                    okd = okd and isinstance(x, int) and 0 <= x < b
                    val = val * b + (x if isinstance(x, int) else 0)
            if not okd or val != n:
                bad = bad or (n, b, f"gives {d!r:.60}"
                              + (f" (digit {out_of_range[0]} outside the "
                                 "base)" if out_of_range else ""))
    # second use: after the sweep the small bases must still give what they
    # gave (a digit table grown by the largest base used so far, a remembered
    # alphabet, ...)
    for b, n in ((2, 7), (3, 26), (2, 1024), (10, 999)):
        del out_of_range[:]
        it.steps = 0
        n_runs += 1
        try:
            d = f(n, b, ctx)
        except PRaise as exc:
            bad = bad or (n, b, f"raises {exc.cls_name} on a second use")
            continue
        val = 0
        okd = isinstance(d, list) and not out_of_range
        for x in (d if isinstance(d, list) else []):
            okd = okd and isinstance(x, int) and 0 <= x < b
            val = val * b + (x if isinstance(x, int) else 0)
        if not okd or val != n:
            bad = bad or (n, b, f"gives {d!r:.60} after larger bases were "
                                "used in the same process")
    chk.unit("to_base runs (interpreted, bounded)", n_runs)
    chk.ob("C15.base-conversion-digits", "elements.to_base", bad is None,
           f"to_base({bad[0]}, {bad[1]}) {bad[2]}: the digits must be inside "
           "the base and denote the number" if bad else "", LF, tb.lineno,
           witness=f"{bad[0]} {bad[1]} τ" if bad else None,
           sample={"runs": n_runs})


def _dictionary_size(dmod):
    node = dmod.top_assign("contents")
    # contents = """...""".split("\\n")
    if isinstance(node, ast.Call) and isinstance(node.func, ast.Attribute) \
            and node.func.attr == "split" and isinstance(
            node.func.value, ast.Constant):
        sep = node.args[0].value if node.args else None
        return len(node.func.value.value.split(sep))
    if isinstance(node, (ast.List, ast.Tuple)):
        return len(node.elts)
    raise AnalysisError("dictionary.contents is not a literal")
