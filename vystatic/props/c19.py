"""C19 - online mode contains the program.

(E) inventory of every dynamic-evaluation site (eval / exec / compile /
    __import__ / os.system / subprocess) in the package and in every element
    template, classified by the provenance of its argument; a site evaluating
    user text must be dominated by `not ctx.online`;
(O) every host-output site (print / sys.stdout / sys.stderr writes) in code
    reachable from execute_vyxal is dominated by `not ctx.online`;
(R) in execute_vyxal every statement that runs program-dependent code lies in
    a try whose handler, when online, records the error and does not re-raise;
(M) the online flag is established before any input is parsed and is written
    nowhere else; the web front end passes online_mode=True.
"""

from __future__ import annotations

import ast

from ..core import AnalysisError, dotted, parent_chain, enclosing_function
from ..templates import Gen, table_keys_with_nodes

level = "other"

EVAL_NAMES = {"eval", "exec", "compile", "__import__", "execfile"}
EVAL_DOTTED = {"os.system", "os.popen", "subprocess.run", "subprocess.call",
               "subprocess.check_output", "subprocess.Popen",
               "builtins.eval", "builtins.exec", "importlib.import_module"}
OUTPUT_DOTTED = {"sys.stdout.write", "sys.stderr.write",
                 "sys.stdout.writelines", "sys.__stdout__.write",
                 "os.write", "traceback.print_exc", "traceback.print_stack",
                 "traceback.print_exception", "pprint.pprint", "pprint.pp"}
# functions that only run offline: the interactive REPL and the CLI entry
OFFLINE_ONLY = {
    "main.repl": "interactive REPL: started by cli() only when no program "
                 "file is given; never called from execute_vyxal",
    "main.cli": "command-line entry point",
}


def online_test(test):
    """+1 if `test` is true exactly when ctx.online, -1 for `not ctx.online`,
    0 otherwise."""
    if isinstance(test, ast.UnaryOp) and isinstance(test.op, ast.Not):
        return -online_test(test.operand)
    d = dotted(test)
    if d and d.endswith(".online") or d == "online_mode":
        return 1
    if isinstance(test, ast.Compare) and len(test.ops) == 1:
        d = dotted(test.left)
        if d and d.endswith(".online") and isinstance(
                test.comparators[0], ast.Constant):
            v = test.comparators[0].value
            if isinstance(test.ops[0], (ast.Eq, ast.Is)):
                return 1 if v is True else (-1 if v is False else 0)
            if isinstance(test.ops[0], (ast.NotEq, ast.IsNot)):
                return -1 if v is True else (1 if v is False else 0)
    return 0


NORETURN: set[str] = set()  # package functions that never return normally


def _exit_call(st):
    return isinstance(st, ast.Expr) and isinstance(st.value, ast.Call) and (
        dotted(st.value.func) in ("sys.exit", "exit", "quit", "os._exit")
        or (dotted(st.value.func) or "").split(".")[-1] in NORETURN)


def terminates(stmts):
    return bool(stmts) and (isinstance(
        stmts[-1], (ast.Return, ast.Raise, ast.Continue, ast.Break))
        or _exit_call(stmts[-1]))


def never_returns(stmts):
    """every path ends in raise / process exit (no return, no fall-through)"""
    if not stmts:
        return False
    last = stmts[-1]
    if isinstance(last, ast.Raise) or _exit_call(last):
        return True
    if isinstance(last, ast.If) and last.orelse:
        return never_returns(last.body) and never_returns(last.orelse)
    return False


def find_noreturn(mods):
    NORETURN.clear()
    for _ in range(3):
        for mod in mods:
            for fn in mod.functions.values():
                if fn.name not in NORETURN and never_returns(fn.body) \
                        and not any(isinstance(n, ast.Return)
                                    for n in ast.walk(fn)):
                    NORETURN.add(fn.name)


def online_at(node) -> int:
    """-1: provably offline at `node`; +1: provably online; 0: unknown."""
    child = node
    for par in parent_chain(node):
        if isinstance(par, (ast.If, ast.IfExp)):
            pol = online_test(par.test)
            if pol:
                body = par.body if isinstance(par.body, list) else [par.body]
                orelse = par.orelse if isinstance(par.orelse, list) \
                    else [par.orelse]
                if any(child is b for b in body):
                    return pol
                if any(child is b for b in orelse):
                    return -pol
            elif isinstance(par.test, ast.BoolOp) and isinstance(
                    par.test.op, ast.And):
                # `if A and not ctx.online:` body
                body = par.body if isinstance(par.body, list) else [par.body]
                if any(child is b for b in body):
                    for v in par.test.values:
                        if online_test(v):
                            return online_test(v)
        if isinstance(par, ast.BoolOp) and isinstance(par.op, ast.And):
            idx = [i for i, v in enumerate(par.values) if v is child]
            if idx:
                for v in par.values[:idx[0]]:
                    if online_test(v):
                        return online_test(v)
        # early exit idiom in an enclosing statement list
        for field in ("body", "orelse", "finalbody"):
            seq = getattr(par, field, None)
            if isinstance(seq, list) and any(child is s for s in seq):
                i = [k for k, s in enumerate(seq) if s is child][0]
                for prev in seq[:i]:
                    if isinstance(prev, ast.If) and online_test(prev.test) \
                            and terminates(prev.body) and not prev.orelse:
                        return -online_test(prev.test)
        if isinstance(par, (ast.FunctionDef, ast.Lambda)) and not isinstance(
                par, ast.Lambda):
            break
        child = par
    return 0


def offline_everywhere(node, repo_mods, depth=0):
    """online_at(node) == -1, or every call site of the enclosing function in
    the package is itself provably offline (helper extracted from a guarded
    arm)."""
    if online_at(node) == -1:
        return True
    if depth >= 2:
        return False
    fn = enclosing_function(node)
    while isinstance(fn, ast.Lambda):
        fn = enclosing_function(fn)
    if not isinstance(fn, ast.FunctionDef):
        return False
    sites = []
    for m in repo_mods:
        for c in ast.walk(m.tree):
            if isinstance(c, ast.Call) and (dotted(c.func) or "").split(
                    ".")[-1] == fn.name and enclosing_function(c) is not fn:
                sites.append(c)
    if not sites or fn.name in ("vy_print", "execute_vyxal", "vy_eval"):
        return False
    return all(offline_everywhere(c, repo_mods, depth + 1) for c in sites)


def names_assigned_from(fn, name):
    """value nodes assigned to local `name` inside fn"""
    out = []
    for n in ast.walk(fn):
        if isinstance(n, ast.Assign) and any(
                isinstance(t, ast.Name) and t.id == name for t in n.targets):
            out.append(n.value)
        elif isinstance(n, (ast.AugAssign, ast.AnnAssign)) and isinstance(
                n.target, ast.Name) and n.target.id == name and n.value:
            out.append(n.value)
    return out


def reaching_values(fn, use: ast.Name):
    """Values that may reach `use` of a local: walks the top-level statements
    of fn in order; an unconditional assignment (or one in a try body whose
    handlers all leave the function) kills earlier ones."""
    name = use.id
    cur = None  # None = nothing assigned yet (parameter / closure)
    for st in fn.body:
        if any(n is use for n in ast.walk(st)):
            inner = [v for v in names_assigned_from(st, name)
                     if getattr(v, "lineno", 0) < use.lineno]
            if isinstance(st, (ast.Assign, ast.AugAssign, ast.Expr,
                               ast.Return)):
                inner = []
            break_vals = (cur or []) + inner
            return break_vals
        if isinstance(st, ast.Assign) and any(
                isinstance(t, ast.Name) and t.id == name
                for t in st.targets):
            cur = [st.value]
            continue
        if isinstance(st, ast.Try) and all(
                terminates(h.body) or _all_paths_leave(h.body)
                for h in st.handlers):
            direct = [b.value for b in st.body if isinstance(b, ast.Assign)
                      and any(isinstance(t, ast.Name) and t.id == name
                              for t in b.targets)]
            if direct:
                cur = [direct[-1]]
                continue
        inner = names_assigned_from(st, name)
        if inner:
            cur = (cur or []) + inner
    return cur or []


def _all_paths_leave(stmts):
    if not stmts:
        return False
    last = stmts[-1]
    if terminates(stmts):
        return True
    if isinstance(last, ast.If) and last.orelse:
        return _all_paths_leave(last.body) and _all_paths_leave(last.orelse)
    return False


def classify_arg(arg, fn, depth=0):
    """GENERATED | NUMERIC | CONST | USERTEXT | UNKNOWN for the argument of a
    dynamic-evaluation call."""
    if arg is None:
        return "UNKNOWN"
    if isinstance(arg, ast.Constant):
        return "CONST"
    if isinstance(arg, ast.Call):
        d = dotted(arg.func) or ""
        short = d.split(".")[-1]
        if short == "transpile":
            return "GENERATED"
        if d in ("sympy.pycode",):
            return "NUMERIC"
        if isinstance(arg.func, ast.Attribute) and arg.func.attr == \
                "strftime" and arg.args and isinstance(
                arg.args[0], ast.Constant):
            return "NUMERIC"
    # str(abs(x)) ... chains: abs() only exists for numbers
    if any(isinstance(n, ast.Call) and dotted(n.func) == "abs"
           for n in ast.walk(arg)) and all(
            not isinstance(n, ast.Name) or n.id in ("str", "abs")
            or _only_under_abs(n, arg) for n in ast.walk(arg)):
        return "NUMERIC"
    if isinstance(arg, ast.Name) and fn is not None and depth < 3:
        params = {a.arg for a in fn.args.args + fn.args.kwonlyargs} \
            if isinstance(fn, ast.FunctionDef) else set()
        vals = reaching_values(fn, arg) if isinstance(
            fn, ast.FunctionDef) else []
        if vals:
            classes = {classify_arg(v, fn, depth + 1) for v in vals}
            if len(classes) == 1:
                return classes.pop()
            if "USERTEXT" in classes or "UNKNOWN" in classes:
                return "USERTEXT"
            return sorted(classes)[0]
        if arg.id in params:
            return "USERTEXT"
        # closure variable of an enclosing function
        outer = enclosing_function(fn)
        while outer is not None:
            if isinstance(outer, ast.FunctionDef):
                if arg.id in {a.arg for a in outer.args.args}:
                    return "USERTEXT"
                vals = names_assigned_from(outer, arg.id)
                if vals:
                    cl = {classify_arg(v, outer, depth + 1) for v in vals}
                    return "USERTEXT" if cl - {"GENERATED", "NUMERIC",
                                               "CONST"} else sorted(cl)[0]
            outer = enclosing_function(outer)
    if isinstance(arg, (ast.BinOp, ast.JoinedStr, ast.Subscript,
                        ast.Attribute, ast.Name, ast.Call)):
        return "USERTEXT"
    return "UNKNOWN"


def _only_under_abs(name_node, root):
    for n in ast.walk(root):
        if isinstance(n, ast.Call) and dotted(n.func) == "abs":
            if any(m is name_node for m in ast.walk(n)):
                return True
    return False


def sympy_numeric_guard(site, argname_nodes):
    """`eval(sympy.pycode(x))` is NUMERIC only where x is known to be a sympy
    number: under `is_sympy(x)` / a NUMBER_TYPE arm / nsimplify(x)."""
    call = site.args[0]
    inner = call.args[0] if call.args else None
    if inner is None:
        return False
    if isinstance(inner, ast.Call) and (dotted(inner.func) or "").endswith(
            "nsimplify"):
        return True
    text = ast.unparse(inner)
    child = site
    for par in parent_chain(site):
        if isinstance(par, ast.If):
            for n in ast.walk(par.test):
                if isinstance(n, ast.Call) and dotted(n.func) == "is_sympy" \
                        and n.args and ast.unparse(n.args[0]) == text \
                        and any(child is b or child in ast.walk(b)
                                for b in par.body):
                    return True
        if isinstance(par, ast.FunctionDef):
            break
        child = par
    return False


def check(chk, repo, tier):
    chk.trusted_base += ["CPython ast"]
    gen = Gen(repo)
    pkg = [m for m in repo.package_modules() if not m.endswith(".dictionary")]

    all_mods = [repo.mod(m) for m in pkg]
    find_noreturn(all_mods)
    # ---- (E) dynamic evaluation sites in python code ---------------------------
    n_sites = 0
    for modname in pkg:
        mod = repo.mod(modname)
        short_mod = modname.split(".")[-1]
        for n in ast.walk(mod.tree):
            if isinstance(n, ast.Name) and n.id in EVAL_NAMES \
                    and isinstance(n.ctx, ast.Load) and not (
                    isinstance(getattr(n, "_parent", None), ast.Call)
                    and n._parent.func is n):
                # the evaluator is used as a value (`reader = eval`): whatever
                # is called through it is unknown text, so the place where it
                # is selected must be offline
                n_sites += 1
                fn = enclosing_function(n)
                while isinstance(fn, ast.Lambda):
                    fn = enclosing_function(fn)
                qual = f"{short_mod}.{fn.name if fn is not None else '<module>'}"
                cons = f"{qual}:{n.id} used as a value"
                pol = -1 if offline_everywhere(n, all_mods) else online_at(n)
                chk.ob("C19.usertext-eval-guarded", cons,
                       pol == -1 or qual in OFFLINE_ONLY,
                       f"`{n.id}` is selected as a callable where the mode "
                       "is not known to be offline; text called through it "
                       "is evaluated", mod.rel, n.lineno,
                       sample={"site": cons, "guard": pol})
                continue
            if not isinstance(n, ast.Call):
                continue
            d = dotted(n.func) or ""
            is_eval = (isinstance(n.func, ast.Name) and n.func.id in EVAL_NAMES) \
                or d in EVAL_DOTTED
            if not is_eval:
                continue
            n_sites += 1
            fn = enclosing_function(n)
            while isinstance(fn, ast.Lambda):
                fn = enclosing_function(fn)
            fname = fn.name if fn is not None else "<module>"
            qual = f"{short_mod}.{fname}"
            arg = n.args[0] if n.args else None
            cls = classify_arg(arg, fn)
            if cls == "NUMERIC" and isinstance(arg, ast.Call) and dotted(
                    arg.func) == "sympy.pycode":
                if not sympy_numeric_guard(n, None):
                    cls = "USERTEXT"
            cons = f"{qual}:{d or n.func.id}({ast.unparse(arg) if arg else ''})"
            pol = -1 if offline_everywhere(n, all_mods) else online_at(n)
            if cls in ("GENERATED", "NUMERIC", "CONST"):
                chk.ob("C19.eval-site-classified", cons, True,
                       sample={"site": cons, "class": cls, "line": n.lineno})
            elif qual in OFFLINE_ONLY:
                chk.ob("C19.eval-site-classified", cons, True,
                       sample={"site": cons, "class": "OFFLINE-ONLY"})
            else:
                chk.ob("C19.usertext-eval-guarded", cons, pol == -1,
                       f"`{mod.seg(n)[:80]}` evaluates text that derives from "
                       "program/user data and is not dominated by "
                       "`not ctx.online`", mod.rel, n.lineno,
                       witness='execute_vyxal("`__import__(\'os\')`E", "e", '
                               '"", ret, True)',
                       sample={"site": cons, "class": cls, "guard": pol})
    chk.floor("dynamic-evaluation sites in vyxal/*.py", n_sites, 9)

    # vy_eval, online: a model of the function itself (any code shape)
    helpers = repo.mod("helpers")
    ve = helpers.function("vy_eval")
    online_arm_taint(chk, helpers, ve)
    vy_eval_model(chk, repo, helpers, ve)

    # ---- (E) in templates -----------------------------------------------------------
    elems = gen.elements()
    n_t = 0
    for key, knode, _ in table_keys_with_nodes(repo, "elements"):
        val = elems.get(key)
        if not (isinstance(val, tuple) and isinstance(val[0], str)):
            continue
        try:
            tree = ast.parse(val[0])
        except SyntaxError:
            continue
        for p in ast.walk(tree):
            for c in ast.iter_child_nodes(p):
                c._parent = p
        for n in ast.walk(tree):
            if isinstance(n, ast.Call) and (
                    (isinstance(n.func, ast.Name) and n.func.id in EVAL_NAMES)
                    or (dotted(n.func) or "") in EVAL_DOTTED):
                n_t += 1
                arg = n.args[0] if n.args else None
                cls = "UNKNOWN"
                if isinstance(arg, ast.Call):
                    d = dotted(arg.func) or ""
                    if isinstance(arg.func, ast.Attribute) and \
                            arg.func.attr == "strftime" and arg.args and \
                            isinstance(arg.args[0], ast.Constant):
                        cls = "NUMERIC"
                    elif d == "sympy.pycode":
                        cls = "PYCODE-OF-OPERAND"
                cons = f"elements[{key!r}]:{ast.unparse(n)[:60]}"
                if cls == "NUMERIC":
                    chk.ob("C19.eval-site-classified", cons, True,
                           sample={"site": cons, "class": cls})
                elif cls == "PYCODE-OF-OPERAND":
                    chk.info("C19.out-of-scope-by-letter", cons,
                             "evaluates sympy.pycode(operand); for a string "
                             "operand pycode returns the string unchanged. "
                             "The statement names the evaluate element, the "
                             "call element and input parsing only; recorded, "
                             "not alarmed (DESIGN.md §3 C19)")
                else:
                    chk.ob("C19.usertext-eval-guarded", cons,
                           online_at(n) == -1,
                           "template evaluates operand-derived text without a "
                           "`not ctx.online` guard",
                           repo.mod("elements").rel, knode.lineno)
    chk.unit("dynamic-evaluation sites in templates", n_t)

    # ---- (O) host output ---------------------------------------------------------------
    n_out = 0
    for modname in pkg:
        mod = repo.mod(modname)
        short_mod = modname.split(".")[-1]
        for n in ast.walk(mod.tree):
            if not isinstance(n, ast.Call):
                continue
            d = dotted(n.func) or ""
            is_out = (isinstance(n.func, ast.Name) and n.func.id == "print") \
                or d in OUTPUT_DOTTED
            is_prompt = isinstance(n.func, ast.Name) and n.func.id == "input" \
                and n.args
            if not (is_out or is_prompt):
                continue
            fn = enclosing_function(n)
            while isinstance(fn, ast.Lambda):
                fn = enclosing_function(fn)
            qual = f"{short_mod}.{fn.name if fn else '<module>'}"
            n_out += 1
            cons = f"{qual}:{ast.unparse(n)[:50]}"
            if qual in OFFLINE_ONLY:
                chk.info("C19.offline-only", cons, OFFLINE_ONLY[qual])
                continue
            if is_prompt:
                a = n.args[0]
                ok = isinstance(a, ast.BinOp) and isinstance(
                    a.op, ast.Mult) and any(
                    (dotted(s) or "").endswith(".repl_mode")
                    for s in (a.left, a.right))
                ok = ok or (isinstance(a, ast.Constant) and a.value == "") \
                    or online_at(n) == -1
                chk.ob("C19.no-host-output-online", cons, ok,
                       "input() is given a prompt that is written to the "
                       "host's stdout outside the REPL", mod.rel, n.lineno)
                continue
            chk.ob("C19.no-host-output-online", cons,
                   offline_everywhere(n, all_mods),
                   f"`{mod.seg(n)[:60]}` writes to the host's standard output "
                   "and is not dominated by `not ctx.online`", mod.rel,
                   n.lineno, witness="any printing program run online",
                   sample={"site": cons})
    chk.floor("host-output sites in vyxal/*.py", n_out, 3)
    for key, knode, _ in table_keys_with_nodes(repo, "elements"):
        val = elems.get(key)
        if isinstance(val, tuple) and isinstance(val[0], str):
            try:
                tree = ast.parse(val[0])
            except SyntaxError:
                continue
            for n in ast.walk(tree):
                if isinstance(n, ast.Call) and isinstance(n.func, ast.Name) \
                        and n.func.id == "print" or (
                        isinstance(n, ast.Call)
                        and (dotted(n.func) or "") in OUTPUT_DOTTED):
                    chk.ob("C19.no-host-output-online",
                           f"elements[{key!r}]:{ast.unparse(n)[:40]}", False,
                           "template writes to the host's stdout directly",
                           repo.mod("elements").rel, knode.lineno)
    # vy_print routes online output to the record
    vp = repo.mod("elements").function("vy_print")
    routed = False
    for m in ast.walk(vp):
        if isinstance(m, ast.AugAssign) and "online_output" in \
                ast.unparse(m.target) and online_at(m) == 1:
            routed = True
    chk.ob("C19.print-routing", "elements.vy_print/online arm", routed,
           "vy_print's online arm no longer appends to ctx.online_output",
           repo.mod("elements").rel, vp.lineno, sample="online_output[1] +=")

    mode_context_threaded(chk, repo, pkg, elems)

    # ---- (R) error capture in execute_vyxal ------------------------------------------------
    main = repo.mod("main")
    ex = main.function("execute_vyxal")
    error_capture(chk, main, ex)

    # ---- (M) the online flag -------------------------------------------------------------
    online_flag(chk, repo, main, ex, pkg)
    flask_front_end(chk, repo)

    chk.explanation = (
        "Decides the named channels structurally: every eval/exec/compile/"
        "os.system/subprocess site of the package and of every element "
        "template is inventoried and classified by argument provenance "
        "(generated by transpile(), numeric via sympy.pycode of a sympy "
        "number / constant strftime format, or user text); user-text sites "
        "and every host-output site must be dominated by `not ctx.online` "
        "(if/else arms, conditional expressions, and/early-exit idioms); "
        "execute_vyxal's program-dependent statements must sit in try blocks "
        "whose online arm records and does not re-raise; the flag is set "
        "before inputs are parsed and written nowhere else; the web front end "
        "passes online_mode=True. Does not decide third-party behaviour "
        "(sympy's own parsers) - recorded as out of scope by the statement's "
        "letter.")
    chk.assumptions += [
        "host output happens only through print / sys.stdout / sys.stderr / "
        "traceback.print_* (the inventory) and input() prompts",
        "generated code (exec of transpile output) is covered by C18",
    ]


CLEANERS = {"ast.literal_eval", "int", "len", "sympy.Rational",
            "fractions.Fraction", "Fraction", "isinstance", "type", "bool",
            "re.match", "re.fullmatch", "re.search", "re.findall", "ord"}
TEXT_OK = {"str", "repr", "print"}  # keep the text a string


def _ctx_param(fn):
    """default of the parameter named ctx: an ast node, "REQUIRED", or None
    when there is no such parameter"""
    a = fn.args
    params = a.posonlyargs + a.args
    for i, p in enumerate(params):
        if p.arg == "ctx":
            di = i - (len(params) - len(a.defaults))
            return i, (a.defaults[di] if di >= 0 else "REQUIRED")
    for p, d in zip(a.kwonlyargs, a.kw_defaults):
        if p.arg == "ctx":
            return None, (d if d is not None else "REQUIRED")
    return None


def mode_context_threaded(chk, repo, pkg, elems):
    """`not ctx.online` only contains a program if the ctx consulted is the
    running program's.  Functions whose behaviour depends on the mode (they
    test ctx.online or write to the host) must be handed the caller's own
    context: not a module-level default context, and not by omission when the
    parameter defaults to one."""
    # module-level names bound to a context object
    default_ctx = set()
    for modname in pkg:
        for st in repo.mod(modname).tree.body:
            if isinstance(st, ast.Assign) and isinstance(st.value, ast.Call) \
                    and (dotted(st.value.func) or "").split(".")[-1] == \
                    "Context":
                default_ctx |= {t.id for t in st.targets
                                if isinstance(t, ast.Name)}
    sensitive = {}
    for modname in pkg:
        mod = repo.mod(modname)
        for fn in ast.walk(mod.tree):
            if not isinstance(fn, ast.FunctionDef):
                continue
            hit = False
            for n in ast.walk(fn):
                if isinstance(n, (ast.If, ast.IfExp)) and online_test(n.test):
                    hit = True
                if isinstance(n, ast.Call) and (
                        isinstance(n.func, ast.Name) and n.func.id == "print"
                        or (dotted(n.func) or "") in OUTPUT_DOTTED):
                    hit = True
            if hit and _ctx_param(fn) is not None:
                sensitive[fn.name] = (mod, fn)
    # forwarders one level up: methods/functions that hand their ctx on
    for modname in pkg:
        mod = repo.mod(modname)
        for fn in ast.walk(mod.tree):
            if isinstance(fn, ast.FunctionDef) and fn.name == "output" \
                    and _ctx_param(fn) is not None:
                sensitive.setdefault(fn.name, (mod, fn))
    if "vy_print" not in sensitive or "vy_eval" not in sensitive:
        raise AnalysisError("anchor vanished: vy_print / vy_eval no longer "
                            "depend on ctx.online")
    roots = {"execute_vyxal", "repl", "cli"}

    def judge(call, callee, where, rel, line):
        cp = _ctx_param(sensitive[callee][1])
        idx, default = cp
        is_method = isinstance(call.func, ast.Attribute) and callee == "output"
        arg = None
        for k in call.keywords:
            if k.arg == "ctx":
                arg = k.value
        if arg is None and idx is not None:
            pos = idx - (1 if is_method else 0)
            if 0 <= pos < len(call.args):
                arg = call.args[pos]
        cons = f"{where}:{' '.join(ast.unparse(call).split())[:60]}"
        if arg is None:
            bad = default != "REQUIRED" and not (
                isinstance(default, ast.Constant) and default.value is None)
            chk.ob("C19.mode-context-threaded", cons, not bad,
                   f"`{callee}` is called without a context and its ctx "
                   f"parameter defaults to `{ast.unparse(default) if bad else ''}`"
                   ", a module-level context that is never online: online, "
                   "the offline behaviour (host stdout / eval) is taken", rel,
                   line, witness="online: λ`x`;,  (print a function value)")
            return
        named = dotted(arg) or ""
        bad = named.split(".")[-1] in default_ctx or (
            isinstance(arg, ast.Call)
            and (dotted(arg.func) or "").split(".")[-1] == "Context")
        chk.ob("C19.mode-context-threaded", cons, not bad,
               f"`{callee}` is handed `{ast.unparse(arg)}`, not the running "
               "program's context: its mode flag is never online", rel, line)

    n = 0
    for modname in pkg:
        mod = repo.mod(modname)
        for call in ast.walk(mod.tree):
            if not isinstance(call, ast.Call):
                continue
            if isinstance(call.func, ast.Name):
                callee = call.func.id
            elif isinstance(call.func, ast.Attribute):
                callee = call.func.attr
                base = dotted(call.func.value) or ""
                if callee != "output" and not base.startswith("vyxal"):
                    continue
            else:
                continue
            if callee not in sensitive or callee in roots:
                continue
            fn = enclosing_function(call)
            while isinstance(fn, ast.Lambda):
                fn = enclosing_function(fn)
            where = f"{modname.split('.')[-1]}." + (fn.name if fn else "<module>")
            n += 1
            judge(call, callee, where, mod.rel, call.lineno)
    EF = repo.mod("elements").rel
    for key, knode, _ in table_keys_with_nodes(repo, "elements"):
        val = elems.get(key)
        if not (isinstance(val, tuple) and isinstance(val[0], str)):
            continue
        try:
            tree = ast.parse(val[0])
        except SyntaxError:
            continue
        for call in ast.walk(tree):
            if isinstance(call, ast.Call) and isinstance(call.func, ast.Name) \
                    and call.func.id in sensitive \
                    and call.func.id not in roots:
                n += 1
                judge(call, call.func.id, f"elements[{key!r}]", EF,
                      knode.lineno)
    chk.unit("calls of mode-dependent functions examined", n)
    chk.floor("calls of mode-dependent functions examined", n, 15)


MARK = "__import__('os').system('pwn')"
LITERAL_PARSERS = {"ast.literal_eval", "json.loads", "int", "float"}
INJECTED = ("ValueError", "SyntaxError", "TypeError", "RecursionError",
            "MemoryError", "AttributeError")


class _Recorder:
    """Stand-in for everything vy_eval can reach outside the package: logs
    the call, then returns / raises what the scenario says."""

    def __init__(self, log, behave):
        self.log = log
        self.behave = behave

    def fn(self, name):
        def call(*args, **kwargs):
            from ..pe import PRaise
            self.log.append((name, args))
            act = self.behave.get(name)
            if act is None:
                return f"<result of {name}>"
            if act[0] == "raise":
                raise PRaise(act[1], (f"injected into {name}",))
            return act[1]
        call.__name__ = name
        return call


def vy_eval_model(chk, repo, helpers, ve):
    """The current source of vy_eval is interpreted with ctx.online true on a
    marked text.  Everything outside the package (ast, sympy, json, the
    builtins eval/exec/compile) and vyxalify are recorders.  Decided:
    (1) the text reaches no evaluator - only literal parsers and str methods;
    (2) whatever a callee raises, vy_eval returns (the input stage of
        execute_vyxal is outside every try);
    (3) text the literal parser rejects is kept as the string it was."""
    from ..pe import Interp, PRaise, StubModule, Unsupported

    class RecModule(StubModule):
        def __init__(self, name, rec):
            super().__init__(name, {})
            self.rec = rec

        def get(self, attr):
            return self.rec.fn(f"{self._name}.{attr}")

    def run(behave, text=MARK):
        log = []
        rec = _Recorder(log, behave)
        it = Interp(repo)
        for ext in ("ast", "sympy", "json", "os", "subprocess", "importlib",
                    "builtins", "itertools", "math", "functools"):
            it.stubs[ext] = RecModule(ext, rec)
        for b in ("eval", "exec", "compile", "__import__"):
            it.builtins[b] = rec.fn(b)
        it.intercepts[("vyxal.helpers", "vyxalify")] = \
            lambda fn, args, kwargs: rec.fn("vyxalify")(*args)
        hp = it.module("vyxal.helpers")
        try:
            Context = it.module("vyxal.context").get("Context")
            ctx = it.instantiate(Context, [], {})
            f = hp.get("vy_eval")
        except KeyError as exc:
            raise AnalysisError(f"anchor vanished: {exc}") from None
        ctx.d["online"] = True
        try:
            return ("returned", f(text, ctx)), log
        except PRaise as exc:
            return ("raised", f"{exc.cls_name}{exc.pargs}"), log
        except Unsupported as exc:
            raise AnalysisError(
                f"vy_eval uses a construct the interpreter does not model: "
                f"{exc}") from None

    nominal = {
        "literal is an int": {"ast.literal_eval": ("return", 5),
                              "vyxalify": ("return", 5)},
        "literal is a float": {"ast.literal_eval": ("return", 1.5),
                               "vyxalify": ("return", "<number>")},
        "literal is None": {"ast.literal_eval": ("return", None),
                            "vyxalify": ("return", None)},
        "literal is a list": {"ast.literal_eval": ("return", [1, [2.5]]),
                              "vyxalify": ("return", [1])},
    }
    # the marked text alone, and behind prefixes that look like the literals
    # a fast path might test for (a fraction, a number, a list, ...)
    texts = [MARK] + [p_ + MARK for p_ in (
        "1/3+", "1 ", "-2/4 if 1 else ", "1e3+", "[1, ", "0x1f;", "1.5*",
        "'a'+", "(1)/(2)+", "1/3\n")]
    callees = set()
    n_runs = 0
    for label, behave in [(lb, bh) for lb, bh in nominal.items()
                          for _ in texts]:
        text = texts[n_runs % len(texts)]
        (how, val), log = run(behave, text)
        n_runs += 1
        callees |= {name for name, _ in log}
        for name, args in log:
            tainted = any(MARK in repr(a) for a in args)
            evaluator = name in ("eval", "exec", "compile", "__import__")
            bad = evaluator or (tainted and name not in LITERAL_PARSERS)
            chk.ob("C19.online-no-evaluation",
                   f"helpers.vy_eval online -> {name}", not bad,
                   f"with ctx.online true, vy_eval hands "
                   f"{'the user text' if tainted else 'a value'} to `{name}` "
                   f"(scenario: {label}): only literal parsers may see "
                   "user text online", helpers.rel, ve.lineno,
                   witness=f"input {MARK}",
                   sample={"scenario": label, "callee": name})
        chk.ob("C19.vy_eval-total", f"helpers.vy_eval online/{label}",
               how == "returned",
               f"vy_eval raises {val} (scenario: {label}); execute_vyxal "
               "parses inputs outside every try, so the error propagates to "
               "the caller with an empty error record", helpers.rel,
               ve.lineno)
    if "ast.literal_eval" not in callees and not (
            callees & LITERAL_PARSERS):
        chk.info("C19.online-no-evaluation", "helpers.vy_eval",
                 "online, the text is not parsed at all (kept as string)")
    # fault injection: each callee raises in turn
    for name in sorted(callees):
        for cls in INJECTED:
            for label, behave in list(nominal.items())[:2]:
                b2 = dict(behave)
                b2[name] = ("raise", cls)
                (how, val), log = run(b2)
                n_runs += 1
                cons = f"helpers.vy_eval online/{name} raises"
                chk.ob("C19.vy_eval-total", cons, how == "returned",
                       f"when `{name}` raises {cls} ({label}) vy_eval lets it "
                       "propagate: input parsing runs outside every try of "
                       "execute_vyxal, so the caller gets an exception and "
                       "an empty error record", helpers.rel, ve.lineno,
                       witness="online input `None`, `[1, None]` or `1e999`",
                       sample={"callee": name} if cls == "TypeError" else None)
                if how == "returned" and name in LITERAL_PARSERS:
                    chk.ob("C19.rejected-text-kept-as-string",
                           f"helpers.vy_eval online/{name} rejects", val == MARK,
                           f"text the literal parser rejects comes back as "
                           f"{val!r} instead of the unchanged string",
                           helpers.rel, ve.lineno)
                    if any(n2 in ("eval", "exec", "compile") for n2, _ in log):
                        chk.ob("C19.online-no-evaluation",
                               "helpers.vy_eval online -> eval after reject",
                               False, "text rejected by the literal parser is "
                               "then handed to eval/exec/compile",
                               helpers.rel, ve.lineno, witness=f"input {MARK}")
    chk.unit("vy_eval model runs (interpreted)", n_runs)
    chk.floor("vy_eval model runs (interpreted)", n_runs, 4)


def online_arms(fn):
    """statement lists of fn that run exactly when ctx.online is true"""
    out = []
    for st in fn.body:
        if isinstance(st, ast.If):
            pol = online_test(st.test)
            if pol == 1:
                out.append(st.body)
            elif pol == -1 and st.orelse:
                out.append(st.orelse)
    return out


def online_arm_taint(chk, helpers, ve):
    """In vy_eval's online arm the user text may only be handed to literal
    parsers / string operations; anything else (sympy.sympify, parse_expr,
    nsimplify, eval, ...) may evaluate it."""
    param = ve.args.args[0].arg
    for arm in online_arms(ve):
        tainted = {param}
        body = ast.Module(body=arm, type_ignores=[])
        changed = True
        while changed:
            changed = False
            for n in ast.walk(body):
                if isinstance(n, ast.Assign) and len(n.targets) == 1 \
                        and isinstance(n.targets[0], ast.Name):
                    v = n.value
                    cleaned = isinstance(v, ast.Call) and (
                        dotted(v.func) or "") in CLEANERS
                    if not cleaned and any(
                            isinstance(m, ast.Name) and m.id in tainted
                            for m in ast.walk(v)) \
                            and n.targets[0].id not in tainted:
                        tainted.add(n.targets[0].id)
                        changed = True
        for n in ast.walk(body):
            if not isinstance(n, ast.Call):
                continue
            d = dotted(n.func) or ast.unparse(n.func)
            args = list(n.args) + [k.value for k in n.keywords]
            hit = [a for a in args if any(
                isinstance(m, ast.Name) and m.id in tainted
                for m in ast.walk(a))]
            if not hit:
                continue
            # method call on the text itself (item.strip()) is a string op
            if isinstance(n.func, ast.Attribute) and isinstance(
                    n.func.value, ast.Name) and n.func.value.id in tainted:
                continue
            ok = d in CLEANERS or d in TEXT_OK
            chk.ob("C19.online-text-sinks", f"helpers.vy_eval:{d}(...)", ok,
                   f"online, the user text reaches `{ast.unparse(n)[:60]}`; "
                   f"`{d}` is not a literal parser and may evaluate the text "
                   "(sympy's string parsers use eval)", helpers.rel,
                   n.lineno,
                   witness="input `1/2+__import__('os').system('x')`",
                   sample={"callee": d})


def handler_expr_safe(e):
    """expression that cannot raise: constants, names, string building from
    traceback.format_exc() / str() / repr() / type(x).__name__"""
    if isinstance(e, (ast.Constant, ast.Name)):
        return True
    if isinstance(e, ast.JoinedStr):
        return all(handler_expr_safe(v) for v in e.values)
    if isinstance(e, ast.FormattedValue):
        return handler_expr_safe(e.value)
    if isinstance(e, ast.BinOp) and isinstance(e.op, ast.Add):
        return handler_expr_safe(e.left) and handler_expr_safe(e.right)
    if isinstance(e, ast.Attribute):
        return e.attr in ("__name__", "online_output") and \
            handler_expr_safe(e.value) or dotted(e) is not None and \
            e.attr in ("__name__",)
    if isinstance(e, ast.Call):
        d = dotted(e.func) or ""
        if d in ("traceback.format_exc", "str", "repr", "type"):
            return all(handler_expr_safe(a) for a in e.args)
    return False


def error_capture(chk, main, ex):
    """Every top-level statement of execute_vyxal that runs program-dependent
    code is inside a try with an online-recording handler."""
    def recording_stmts(stmts, depth=0):
        """(records?, unsafe expressions) following calls to helpers defined
        in main.py"""
        rec = False
        unsafe = []
        for m in ast.walk(ast.Module(body=stmts, type_ignores=[])):
            if isinstance(m, ast.AugAssign) and "online_output[2]" in \
                    ast.unparse(m.target):
                rec = True
                if not handler_expr_safe(m.value):
                    unsafe.append(m)
            elif isinstance(m, ast.Call) and isinstance(m.func, ast.Name) \
                    and m.func.id in main.functions and depth < 2 \
                    and m.func.id != ex.name:
                r2, u2 = recording_stmts(main.functions[m.func.id].body,
                                         depth + 1)
                rec = rec or r2
                unsafe += u2
        return rec, unsafe

    def handler_ok(tr: ast.Try):
        for h in tr.handlers:
            t = dotted(h.type) if h.type is not None else "BaseException"
            if t not in ("Exception", "BaseException"):
                continue
            # statements of the handler that run exactly when online:
            # `if online:` body, `if not online: ... else:` orelse, or what
            # follows an `if not online: raise`
            arm = None
            for i, st in enumerate(h.body):
                pol = online_test(st.test) if isinstance(st, ast.If) else 0
                if pol == 1:
                    arm = st.body
                elif pol == -1 and st.orelse:
                    arm = st.orelse
                elif pol == -1 and terminates(st.body):
                    arm = h.body[i + 1:]
                if arm:
                    break
            if arm:
                if True:
                    records, unsafe = recording_stmts(arm)
                    reraises = any(isinstance(m, ast.Raise) for m in ast.walk(
                        ast.Module(body=arm, type_ignores=[])))
                    for u in unsafe:
                        chk.ob("C19.handler-cannot-raise",
                               f"main:{' '.join(ast.unparse(u).split())[:70]}",
                               False,
                               "while recording the error the handler "
                               "evaluates an expression that can itself raise "
                               "(indexing, foreign call): the original error "
                               "is then lost and the new one propagates",
                               main.rel, u.lineno,
                               witness="an exception raised without "
                                       "arguments (bare assert)")
                    if records and not reraises:
                        return True
        return False

    PROGRAM_DEPENDENT = {"transpile", "exec", "pop", "vy_print", "join",
                         "vy_sum", "deep_flatten", "vertical_join", "center",
                         "monadic_maximum", "monadic_minimum", "vy_str",
                         "length", "vy_eval", "vy_type"}
    n_cov = 0
    seen_try = 0
    for st in ex.body:
        calls = set()
        for n in ast.walk(st):
            if isinstance(n, ast.Call):
                d = dotted(n.func) or ""
                if d.split(".")[-1] in PROGRAM_DEPENDENT:
                    calls.add(d.split(".")[-1])
        if isinstance(st, ast.Try):
            seen_try += 1
            chk.ob("C19.error-capture", f"main.execute_vyxal/try@{sorted(calls)}",
                   handler_ok(st),
                   "try block lacks a handler that, when online, appends to "
                   "online_output[2] without re-raising", main.rel, st.lineno,
                   sample={"covers": sorted(calls)})
            n_cov += 1
            continue
        # input parsing via vy_eval is contained by vy_eval's own try/except
        calls.discard("vy_eval")
        if isinstance(st, ast.If) and any(
                isinstance(c, ast.Constant) and c.value == "h"
                for c in ast.walk(st.test)):
            calls.discard("vy_print")  # the constant help text
        if calls:
            chk.ob("C19.error-capture",
                   f"main.execute_vyxal/unprotected:{'+'.join(sorted(calls))}",
                   False,
                   f"statement at line {st.lineno} runs program-dependent "
                   f"element code ({sorted(calls)}) outside any try: an "
                   "exception propagates to the caller instead of the error "
                   "record", main.rel, st.lineno,
                   witness='execute_vyxal("5", "Ce", "", ret, True) raises '
                           "TypeError with an empty error record")
    if seen_try < 2:
        raise AnalysisError(
            "anchor vanished: try blocks around transpile/exec in "
            "execute_vyxal")
    input_handling_total(chk, main, ex)


# operations that cannot raise on the strings / lists of strings the input
# section of execute_vyxal handles (vy_eval: contained by its own handlers,
# decided by vy_eval_model)
TOTAL_FUNCTIONS = {"str", "list", "tuple", "map", "len", "vy_eval", "repr",
                   "reversed", "enumerate"}
TOTAL_METHODS = {"split", "replace", "strip", "lstrip", "rstrip",
                 "readlines", "splitlines", "read", "append", "copy",
                 "lower", "upper", "startswith", "endswith"}


def input_handling_total(chk, main, ex):
    """Statements of execute_vyxal outside every try that handle the user's
    inputs only apply operations that cannot raise on strings."""
    if not any(a.arg == "inputs" for a in ex.args.args):
        raise AnalysisError("anchor vanished: execute_vyxal(inputs)")
    n = 0
    imported = set()
    for st in main.tree.body:
        if isinstance(st, ast.Import):
            imported |= {(a.asname or a.name).split(".")[0] for a in st.names}

    def simple(stmts):
        for st in stmts:
            if isinstance(st, ast.Try):
                continue
            if isinstance(st, (ast.If, ast.For, ast.While, ast.With)):
                hdr = [st.test] if isinstance(st, (ast.If, ast.While)) else \
                    [st.iter] if isinstance(st, ast.For) else \
                    [i.context_expr for i in st.items]
                yield st, hdr
                yield from simple(st.body)
                yield from simple(getattr(st, "orelse", []))
            else:
                yield st, [st]

    # the raw-text phase ends with the statement that parses the inputs
    # (vy_eval / str over them); afterwards `inputs` holds Vyxal values and
    # the program-dependent rule above applies
    body = list(ex.body)
    for i, st in enumerate(body):
        if any(isinstance(c, ast.Call) and (dotted(c.func) or "").split(
                ".")[-1] == "vy_eval" for c in ast.walk(st)) and any(
                isinstance(m, ast.Name) and m.id == "inputs"
                for m in ast.walk(st)):
            body = body[:i + 1]
            break
    for st, parts in simple(body):
        if not any(isinstance(m, ast.Name) and m.id == "inputs"
                   for p in parts for m in ast.walk(p)):
            continue
        for p in parts:
            for c in ast.walk(p):
                if not isinstance(c, ast.Call):
                    continue
                n += 1
                if isinstance(c.func, ast.Name):
                    ok = c.func.id in TOTAL_FUNCTIONS
                    if ok and c.func.id == "map" and c.args:
                        f = c.args[0]
                        ok = isinstance(f, ast.Lambda) or (
                            isinstance(f, ast.Name)
                            and f.id in TOTAL_FUNCTIONS)
                elif isinstance(c.func, ast.Attribute) and not isinstance(
                        c.func.value, ast.Attribute) and not (
                        isinstance(c.func.value, ast.Name)
                        and c.func.value.id in imported):
                    ok = c.func.attr in TOTAL_METHODS
                else:
                    ok = False
                name = dotted(c.func) or ast.unparse(c.func)
                chk.ob("C19.input-handling-cannot-raise",
                       f"main.execute_vyxal/inputs:{name}", ok,
                       f"the input-handling section applies {name}(...) to "
                       "the user's inputs outside every try block; it can "
                       "raise on some input text and the exception "
                       "propagates out of execute_vyxal with the error "
                       "record empty", main.rel, c.lineno,
                       witness="an input line the operation rejects (a "
                               "non-numeric string, a missing file name)")
    chk.unit("calls in the input-handling section examined", n)
    chk.floor("calls in the input-handling section examined", n, 4)


def online_flag(chk, repo, main, ex, pkg):
    # set before anything is parsed or run
    set_idx = None
    first_use = None
    for i, st in enumerate(ex.body):
        for n in ast.walk(st):
            if isinstance(n, ast.Assign) and any(
                    (dotted(t) or "") == "ctx.online" for t in n.targets):
                if isinstance(n.value, ast.Name) and set_idx is None:
                    set_idx = i
            if isinstance(n, ast.Call) and (dotted(n.func) or "").split(
                    ".")[-1] in ("vy_eval", "transpile", "exec", "vy_print"):
                if first_use is None:
                    first_use = i
    if set_idx is None:
        raise AnalysisError("anchor vanished: `ctx.online = online_mode`")
    chk.ob("C19.flag-set-first", "main.execute_vyxal:ctx.online = online_mode",
           first_use is None or set_idx < first_use,
           "the online flag is established after input parsing / execution "
           "has already started", main.rel, ex.body[set_idx].lineno,
           sample={"statement": set_idx, "first use": first_use})
    # written nowhere else
    allowed = {("main", "execute_vyxal"), ("context", "__init__"),
               ("context", "copy")}
    for modname in pkg:
        mod = repo.mod(modname)
        sm = modname.split(".")[-1]
        for n in ast.walk(mod.tree):
            tg = []
            if isinstance(n, ast.Assign):
                tg = n.targets
            elif isinstance(n, (ast.AugAssign, ast.AnnAssign)):
                tg = [n.target]
            for t in tg:
                if isinstance(t, ast.Attribute) and t.attr in (
                        "online", "online_output"):
                    fn = enclosing_function(n)
                    fname = fn.name if isinstance(fn, ast.FunctionDef) else "?"
                    chk.ob("C19.flag-single-writer",
                           f"{sm}.{fname}:{ast.unparse(t)} =",
                           (sm, fname) in allowed,
                           f"`{mod.seg(n)[:60]}` rewrites the online flag / "
                           "output record outside execute_vyxal", mod.rel,
                           n.lineno, sample=f"{sm}.{fname}")
    # templates must not touch it either
    gen_el = table_keys_with_nodes(repo, "elements")
    for key, knode, vnode in gen_el:
        for c in ast.walk(vnode):
            if isinstance(c, ast.Constant) and isinstance(c.value, str) \
                    and ("ctx.online =" in c.value
                         or "ctx.online=" in c.value):
                chk.ob("C19.flag-single-writer", f"elements[{key!r}]", False,
                       "template assigns ctx.online",
                       repo.mod("elements").rel, knode.lineno)


def flask_front_end(chk, repo):
    if not repo.has("flask_app"):
        chk.info("C19.front-end", "flask_app.py", "file not present")
        return
    mod = repo.mod("flask_app")
    n = 0
    for call in ast.walk(mod.tree):
        if not isinstance(call, ast.Call):
            continue
        kws = {k.arg: k.value for k in call.keywords}
        tgt = kws.get("target")
        direct = dotted(call.func) == "execute_vyxal"
        if not (direct or (tgt is not None and dotted(tgt) == "execute_vyxal")):
            continue
        n += 1
        args = call.args if direct else (
            kws.get("args").elts if isinstance(kws.get("args"), ast.Tuple)
            else [])
        ok = len(args) >= 5 and isinstance(args[4], ast.Constant) \
            and args[4].value is True
        if direct and not ok:
            okw = kws.get("online_mode")
            ok = isinstance(okw, ast.Constant) and okw.value is True
        chk.ob("C19.front-end-online", f"flask_app:{ast.unparse(call)[:50]}",
               ok, "the web front end starts execute_vyxal without the "
               "literal online_mode=True", mod.rel, call.lineno,
               sample="args[4] is True")
    chk.floor("execute_vyxal uses in flask_app.py", n, 1)
