"""C05 - numeric literals denote exactly their decimal value (clause decided:
the literal text reaches the runtime only through an exact constructor; plus
the two splitting conditions of the lexer's number branch)."""

from __future__ import annotations

import ast

from ..core import AnalysisError, dotted
from ..lexlaws import law_number_splitting, value_languages_probe
from ..lexprobe import LexProbe
from ..pe import Interp, ModuleEnv
from ..taint import TaintInterp, Obj

level = "other"

EXACT = {"int", "sympy.Integer", "sympy.Rational", "fractions.Fraction",
         "Fraction", "decimal.Decimal"}
# sympify(text, rational=True) rewrites decimal tokens to exact Rationals while
# parsing.  nsimplify(text, rational=True) is NOT exact: its base-10 path
# first calls nsimplify(float, rational=False) and keeps a "nice" rational
# (0.333333333333333 -> 1/3).
EXACT_IF_RATIONAL = {"sympy.sympify"}
EXACT_ON_INTEGERS = {"sympy.sympify", "sympy.nsimplify", "sympy.S"}
APPROX = {"float", "sympy.Float", "sympy.N", "eval", "sympy.S",
          "sympy.parse_expr", "sympy.nfloat"}
SENTINEL = "12345.678"


def integer_only_path(tmod, line):
    """Is the return statement at `line` inside `if <text>.isdecimal():` (or
    isdigit) - i.e. reached only for plain integer literals?"""
    fn = tmod.function("transpile_token")
    for n in ast.walk(fn):
        if isinstance(n, ast.Return) and n.lineno <= line <= getattr(
                n, "end_lineno", n.lineno):
            child = n
            cur = getattr(n, "_parent", None)
            while cur is not None and cur is not fn:
                if isinstance(cur, ast.If) and any(child is s
                                                   for s in cur.body):
                    t = cur.test
                    if isinstance(t, ast.Call) and isinstance(
                            t.func, ast.Attribute) and t.func.attr in (
                            "isdecimal", "isdigit") and not t.args:
                        subject = ast.unparse(t.func.value)
                        if subject in ast.unparse(n):
                            return True
                child = cur
                cur = getattr(cur, "_parent", None)
    return False


def check(chk, repo, tier):
    chk.trusted_base += ["CPython ast", "vystatic.taint template domain"]
    it = Interp(repo)
    lp = LexProbe(repo, it)
    langs = value_languages_probe(lp)
    tmod = repo.mod("transpile")
    TF = tmod.rel
    ptr = it.module("vyxal.transpile")

    def fold(node):
        return it.eval(node, ModuleEnv(ptr), ptr)

    ti = TaintInterp(tmod, fold, langs, {"shape_ok": {},
                                         "arity_is_int": True,
                                         "uncompress_returns": {}})
    ti.run_function(tmod.function("transpile_token"), {"token": Obj("token")})
    arms = [(lab, tpl, line) for fname, lab, tpl, line in ti.returns
            if lab.endswith("/NUMBER")]
    if not arms:
        raise AnalysisError("anchor vanished: NUMBER arm of transpile_token")
    n_alt = 0
    for lab, tpl, line in arms:
        for alt in tpl.alts:
            if not any(s.kind == "slot" for s in alt):
                continue
            n_alt += 1
            text = "".join(s.text if s.kind == "c" else SENTINEL
                           for s in alt)
            try:
                tree = ast.parse(text)
            except SyntaxError as exc:
                chk.ob("C05.exact-constructor", "transpile_token/NUMBER",
                       False, f"NUMBER template does not parse: {exc}", TF,
                       line)
                continue
            found = False
            for n in ast.walk(tree):
                if isinstance(n, ast.Call) and n.args and any(
                        isinstance(a, ast.Constant)
                        and isinstance(a.value, str) and SENTINEL in a.value
                        for a in n.args):
                    found = True
                    callee = dotted(n.func) or ast.unparse(n.func)
                    rational = any(
                        kw.arg == "rational" and isinstance(
                            kw.value, ast.Constant) and kw.value.value is True
                        for kw in n.keywords)
                    ok = callee in EXACT or (callee in EXACT_IF_RATIONAL
                                             and rational)
                    cons = f"transpile_token/NUMBER:{callee}"
                    wit = ("0.333333333333333 pushes 1/3; "
                           "1.41421356237 pushes sqrt(2); "
                           "2.718281828459045 pushes E")
                    int_path = callee in EXACT_ON_INTEGERS and \
                        integer_only_path(tmod, line)
                    if not ok and int_path and rational:
                        # digits only + rational=True: read as Integer
                        ok = True
                    why = ""
                    if int_path and not ok:
                        # nsimplify("<digits>") first tries a small-coefficient
                        # fraction (pslq, coefficients <= 1000) and otherwise
                        # *guesses a closed form* with mpmath.identify
                        cons += "(integer literal)"
                        why = (f"{callee}(\"<digits>\") without rational=True "
                               "replaces integers its small-fraction search "
                               "cannot express by a closed-form guess")
                        wit = ("1093 pushes 791015625*2**(13/15)*3**(7/9)*"
                               "5**(7/90)*7**(29/30)/23059204 (392 of the "
                               "integers below 30000 are affected)")
                    elif callee in EXACT_ON_INTEGERS and not ok:
                        why = (f"{callee}(\"<digits>\") "
                               + ("even with rational=True " if rational
                                  else "without rational=True ")
                               + "turns a decimal into a float and then "
                               "looks for a closed form (mpmath.identify)")
                    elif not ok:
                        why = f"{callee} is not an exact number constructor"
                    chk.ob("C05.exact-constructor", cons, ok, why, TF,
                           line, witness=wit,
                           sample={"template": text.strip()})
                elif isinstance(n, ast.Constant) and isinstance(
                        n.value, float):
                    chk.ob("C05.exact-constructor",
                           "transpile_token/NUMBER:float literal", False,
                           "the literal text is pasted as a python float",
                           TF, line)
            if not found and SENTINEL in text:
                # pasted bare: python parses it as a float
                chk.ob("C05.exact-constructor",
                       "transpile_token/NUMBER:bare", False,
                       "the literal text is pasted into the code outside a "
                       "string: python reads a decimal as a binary float", TF,
                       line)
    chk.floor("NUMBER template alternatives", n_alt, 1)

    # ---- the digits reach the constructor unmodified -------------------------------
    fn = tmod.function("transpile_token")
    arm = None
    for n in ast.walk(fn):
        if isinstance(n, ast.If) and isinstance(n.test, ast.Compare) and \
                (dotted(n.test.comparators[0]) or "").endswith(
                    "TokenType.NUMBER"):
            arm = n
    if arm is None:
        raise AnalysisError("anchor vanished: NUMBER arm of transpile_token")
    ALLOWED_METHODS = {"split", "join", "count", "startswith", "endswith",
                       "isdecimal", "isdigit", "isnumeric"}
    n_ops = 0
    for n in ast.walk(ast.Module(body=arm.body, type_ignores=[])):
        bad = None
        if isinstance(n, ast.Call) and isinstance(n.func, ast.Attribute) \
                and not isinstance(n.func.value, ast.Constant):
            base = dotted(n.func.value) or ""
            if base.split(".")[0] in ("sympy", "re", "helpers", "vyxal"):
                continue
            n_ops += 1
            if n.func.attr not in ALLOWED_METHODS:
                bad = f".{n.func.attr}(...)"
        elif isinstance(n, ast.Call) and dotted(n.func) in (
                "int", "float", "round", "str.strip", "eval"):
            bad = f"{dotted(n.func)}(...)"
        elif isinstance(n, ast.Subscript) and isinstance(
                n.slice, ast.Slice) and isinstance(n.ctx, ast.Load):
            bad = f"slice {ast.unparse(n)[:30]}"
        if bad:
            chk.ob("C05.text-unmodified",
                   f"transpile_token/NUMBER:{bad}", False,
                   f"`{ast.unparse(n)[:50]}` rewrites the literal's text "
                   "before it is converted: digits can be dropped or changed "
                   "(only split/join on the imaginary separator and constant "
                   "concatenation are value-preserving)", TF, n.lineno,
                   witness="10.0 pushes 1 after an rstrip('0.')")
    chk.ob("C05.text-unmodified", "transpile_token/NUMBER", True,
           sample={"string operations on the literal text": n_ops})

    # ---- lexer: splitting laws on digit strings --------------------------------------
    LF = repo.mod("lexer").rel
    lang = langs.get("NUMBER")
    chk.ob("C05.number-charset", "lexer NUMBER language",
           lang is not None and lang.chars is not None
           and lang.chars <= set("0123456789.°"),
           "NUMBER tokens may now contain characters other than digits, '.' "
           "and '°'", LF, sample=lang.describe() if lang else None)
    n = law_number_splitting(chk, lp, "C05", LF)
    chk.unit("digit strings lexed (length <= 5 over 0 7 . °)", n)

    chk.explanation = (
        "Clause-level: on the NUMBER lowering path (template extracted in the "
        "taint/template domain) the literal text reaches the runtime only as "
        "the string argument of an exact constructor (int, sympy.Integer / "
        "Rational, Fraction, nsimplify/sympify with rational=True), never "
        "through float, sympy.Float/N, eval, or nsimplify without "
        "rational=True; the lexer's number branch keeps the digit charset, "
        "emits a leading 0 on its own and stops before a second point. Does "
        "not decide numerical equality in general.")
