"""C05 - numeric literals denote exactly their decimal value (clause decided:
the literal text reaches the runtime only through an exact constructor; plus
the two splitting conditions of the lexer's number branch)."""

from __future__ import annotations

import ast
import itertools

from ..core import AnalysisError, dotted
from ..lexlaws import law_number_splitting, value_languages_probe
from ..lexprobe import LexProbe
from ..pe import Interp, ModuleEnv
from ..taint import TaintInterp, Obj

level = "other"

EXACT = {"int", "sympy.Integer", "sympy.Rational", "fractions.Fraction",
         "Fraction", "decimal.Decimal"}
# sympify(text, rational=True) rewrites decimal tokens to exact Rationals while
# parsing.  nsimplify(text, rational=True) is NOT exact: its base-10 path
# first calls nsimplify(float, rational=False) and keeps a "nice" rational
# (0.333333333333333 -> 1/3).
EXACT_IF_RATIONAL = {"sympy.sympify"}
EXACT_ON_INTEGERS = {"sympy.sympify", "sympy.nsimplify", "sympy.S"}
APPROX = {"float", "sympy.Float", "sympy.N", "eval", "sympy.S",
          "sympy.parse_expr", "sympy.nfloat"}
SENTINEL = "12345.678"


def integer_only_path(tmod, line):
    """Is the return statement at `line` inside `if <text>.isdecimal():` (or
    isdigit) - i.e. reached only for plain integer literals?"""
    fn = tmod.function("transpile_token")
    for n in ast.walk(fn):
        if isinstance(n, ast.Return) and n.lineno <= line <= getattr(
                n, "end_lineno", n.lineno):
            child = n
            cur = getattr(n, "_parent", None)
            while cur is not None and cur is not fn:
                if isinstance(cur, ast.If) and any(child is s
                                                   for s in cur.body):
                    t = cur.test
                    if isinstance(t, ast.Call) and isinstance(
                            t.func, ast.Attribute) and t.func.attr in (
                            "isdecimal", "isdigit") and not t.args:
                        subject = ast.unparse(t.func.value)
                        if subject in ast.unparse(n):
                            return True
                child = cur
                cur = getattr(cur, "_parent", None)
    return False


INEXACT_TEXT = ("nsimplify(", "Float(", "float(", "sympy.N(", "nfloat(",
                "parse_expr(", "eval(")


def emission_elsewhere(chk, tmod, number_arm, TF):
    """Program text handed to an inexact number constructor anywhere else in
    the transpiler (a shortcut that emits literals itself) is the same
    defect as in the NUMBER arm."""
    inside = {id(n) for n in ast.walk(number_arm)}
    n_fs = 0
    for fn in tmod.functions.values():
        for js in ast.walk(fn):
            if not isinstance(js, ast.JoinedStr) or id(js) in inside:
                continue
            n_fs += 1
            prev = ""
            for v in js.values:
                if isinstance(v, ast.Constant) and isinstance(v.value, str):
                    prev = v.value
                    continue
                hit = next((t for t in INEXACT_TEXT
                            if prev.rstrip("\"'").endswith(t)), None)
                if hit:
                    chk.ob("C05.exact-constructor",
                           f"{fn.name}:{hit[:-1]} on "
                           f"{' '.join(ast.unparse(v.value).split())[:40]}",
                           False,
                           f"generated code applies {hit[:-1]} to program "
                           "text outside the NUMBER arm: a decimal literal "
                           "emitted this way goes through a float and a "
                           "closed-form guess (rational=True does not "
                           "prevent it)", TF, js.lineno,
                           witness="⟨7|0.333333333333333333⟩ holds 1/3")
                prev = ""
    chk.unit("f-strings of the transpiler outside the NUMBER arm", n_fs)


def spells_literal(chk, repo, it, lp, TF):
    """The text handed to the exact constructor spells the literal: the
    NUMBER arm is interpreted on every real literal over {0, 7, .} of length
    <= 4 that the lexer yields as one token (and a 25+18 digit one); the
    string constant in the emitted code, read as a decimal, must equal the
    literal read as a decimal (a lone point is one half)."""
    from fractions import Fraction
    from ..templates import Gen
    gen = Gen(repo, it)
    lits = ["".join(t) for ln in range(1, 5)
            for t in itertools.product("07.", repeat=ln)]
    lits += ["1234567890123456789012345.000000000000000001", "1093", "10.0",
             "0.30000000000000004"]
    n = 0
    bad = None
    for v in lits:
        if v.count(".") > 1:
            continue
        r = lp.run(v)
        if not (isinstance(r, list) and r == [("NUMBER", v)]):
            continue
        want = Fraction(1, 2) if v == "." else Fraction(
            v if v[-1] != "." else v + "0")
        try:
            text = gen.transpile_token(gen.token("NUMBER", v), 0)
            tree = ast.parse(text)
        except Exception:  # noqa: BLE001 - C02 reports generator failures
            continue
        consts = [c.value for c in ast.walk(tree)
                  if isinstance(c, ast.Constant) and isinstance(c.value, str)]
        n += 1
        if len(consts) != 1:
            continue  # another emission scheme: the constructor rule decides
        try:
            got = Fraction(consts[0] if consts[0][-1:] != "."
                           else consts[0] + "0")
        except (ValueError, ZeroDivisionError):
            got = None
        if got != want and bad is None:
            bad = (v, consts[0])
    chk.ob("C05.emitted-text-spells-literal", "transpile_token/NUMBER",
           bad is None,
           (f"the literal {bad[0]!r} reaches the constructor as "
            f"{bad[1]!r}, which spells another number") if bad else "", TF,
           witness=bad[0] if bad else None,
           sample={"literals interpreted": n})
    chk.floor("real literals interpreted through the NUMBER arm", n, 40)


def check(chk, repo, tier):
    chk.trusted_base += ["CPython ast", "vystatic.taint template domain"]
    it = Interp(repo)
    lp = LexProbe(repo, it)
    langs = value_languages_probe(lp)
    tmod = repo.mod("transpile")
    TF = tmod.rel
    ptr = it.module("vyxal.transpile")

    def fold(node):
        return it.eval(node, ModuleEnv(ptr), ptr)

    ti = TaintInterp(tmod, fold, langs, {"shape_ok": {},
                                         "arity_is_int": True,
                                         "uncompress_returns": {}})
    ti.run_function(tmod.function("transpile_token"), {"token": Obj("token")})
    arms = [(lab, tpl, line) for fname, lab, tpl, line in ti.returns
            if lab.endswith("/NUMBER")]
    if not arms:
        raise AnalysisError("anchor vanished: NUMBER arm of transpile_token")
    n_alt = 0
    for lab, tpl, line in arms:
        for alt in tpl.alts:
            if not any(s.kind == "slot" for s in alt):
                continue
            n_alt += 1
            text = "".join(s.text if s.kind == "c" else SENTINEL
                           for s in alt)
            try:
                tree = ast.parse(text)
            except SyntaxError as exc:
                chk.ob("C05.exact-constructor", "transpile_token/NUMBER",
                       False, f"NUMBER template does not parse: {exc}", TF,
                       line)
                continue
            found = False
            for n in ast.walk(tree):
                if isinstance(n, ast.Call) and n.args and any(
                        isinstance(a, ast.Constant)
                        and isinstance(a.value, str) and SENTINEL in a.value
                        for a in n.args):
                    found = True
                    callee = dotted(n.func) or ast.unparse(n.func)
                    rational = any(
                        kw.arg == "rational" and isinstance(
                            kw.value, ast.Constant) and kw.value.value is True
                        for kw in n.keywords)
                    ok = callee in EXACT or (callee in EXACT_IF_RATIONAL
                                             and rational)
                    cons = f"transpile_token/NUMBER:{callee}"
                    wit = ("0.333333333333333 pushes 1/3; "
                           "1.41421356237 pushes sqrt(2); "
                           "2.718281828459045 pushes E")
                    int_path = callee in EXACT_ON_INTEGERS and \
                        integer_only_path(tmod, line)
                    if not ok and int_path and rational:
                        # digits only + rational=True: read as Integer
                        ok = True
                    why = ""
                    if int_path and not ok:
                        # nsimplify("<digits>") first tries a small-coefficient
                        # fraction (pslq, coefficients <= 1000) and otherwise
                        # *guesses a closed form* with mpmath.identify
                        cons += "(integer literal)"
                        why = (f"{callee}(\"<digits>\") without rational=True "
                               "replaces integers its small-fraction search "
                               "cannot express by a closed-form guess")
                        wit = ("1093 pushes 791015625*2**(13/15)*3**(7/9)*"
                               "5**(7/90)*7**(29/30)/23059204 (392 of the "
                               "integers below 30000 are affected)")
                    elif callee in EXACT_ON_INTEGERS and not ok:
                        why = (f"{callee}(\"<digits>\") "
                               + ("even with rational=True " if rational
                                  else "without rational=True ")
                               + "turns a decimal into a float and then "
                               "looks for a closed form (mpmath.identify)")
                    elif not ok:
                        why = f"{callee} is not an exact number constructor"
                    chk.ob("C05.exact-constructor", cons, ok, why, TF,
                           line, witness=wit,
                           sample={"template": text.strip()})
                elif isinstance(n, ast.Constant) and isinstance(
                        n.value, float):
                    chk.ob("C05.exact-constructor",
                           "transpile_token/NUMBER:float literal", False,
                           "the literal text is pasted as a python float",
                           TF, line)
            if not found and SENTINEL in text:
                # pasted bare: python parses it as a float
                chk.ob("C05.exact-constructor",
                       "transpile_token/NUMBER:bare", False,
                       "the literal text is pasted into the code outside a "
                       "string: python reads a decimal as a binary float", TF,
                       line)
    chk.floor("NUMBER template alternatives", n_alt, 1)

    # ---- the digits reach the constructor unmodified -------------------------------
    fn = tmod.function("transpile_token")
    arm = None
    for n in ast.walk(fn):
        if isinstance(n, ast.If) and isinstance(n.test, ast.Compare) and \
                (dotted(n.test.comparators[0]) or "").endswith(
                    "TokenType.NUMBER"):
            arm = n
    if arm is None:
        raise AnalysisError("anchor vanished: NUMBER arm of transpile_token")
    ALLOWED_METHODS = {"split", "join", "count", "startswith", "endswith",
                       "isdecimal", "isdigit", "isnumeric"}
    n_ops = 0
    for n in ast.walk(ast.Module(body=arm.body, type_ignores=[])):
        bad = None
        if isinstance(n, ast.Call) and isinstance(n.func, ast.Attribute) \
                and not isinstance(n.func.value, ast.Constant):
            base = dotted(n.func.value) or ""
            if base.split(".")[0] in ("sympy", "re", "helpers", "vyxal"):
                continue
            n_ops += 1
            if n.func.attr not in ALLOWED_METHODS:
                bad = f".{n.func.attr}(...)"
        elif isinstance(n, ast.Call) and dotted(n.func) in (
                "int", "float", "round", "str.strip", "eval"):
            bad = f"{dotted(n.func)}(...)"
        if bad:
            chk.ob("C05.text-unmodified",
                   f"transpile_token/NUMBER:{bad}", False,
                   f"`{ast.unparse(n)[:50]}` rewrites the literal's text "
                   "before it is converted: digits can be dropped or changed "
                   "(only split/join on the imaginary separator and constant "
                   "concatenation are value-preserving)", TF, n.lineno,
                   witness="10.0 pushes 1 after an rstrip('0.')")
    chk.ob("C05.text-unmodified", "transpile_token/NUMBER", True,
           sample={"string operations on the literal text": n_ops})

    # ---- lexer: splitting laws on digit strings --------------------------------------
    LF = repo.mod("lexer").rel
    lang = langs.get("NUMBER")
    chk.ob("C05.number-charset", "lexer NUMBER language",
           lang is not None and lang.chars is not None
           and lang.chars <= set("0123456789.°"),
           "NUMBER tokens may now contain characters other than digits, '.' "
           "and '°'", LF, sample=lang.describe() if lang else None)
    n = law_number_splitting(chk, lp, "C05", LF)
    chk.unit("digit strings lexed (length <= 5 over 0 7 . °)", n)

    spells_literal(chk, repo, it, lp, TF)
    emission_elsewhere(chk, tmod, arm, TF)

    chk.explanation = (
        "Clause-level: on the NUMBER lowering path (template extracted in the "
        "taint/template domain) the literal text reaches the runtime only as "
        "the string argument of an exact constructor (int, sympy.Integer / "
        "Rational, Fraction, nsimplify/sympify with rational=True), never "
        "through float, sympy.Float/N, eval, or nsimplify without "
        "rational=True; the lexer's number branch keeps the digit charset, "
        "emits a leading 0 on its own and stops before a second point. Does "
        "not decide numerical equality in general.")
