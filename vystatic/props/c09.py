"""C09 - an element touches only the stack entries it consumes.

Abstract stack-effect analysis of every element / modifier template and every
structure skeleton: the data stack is touched only through pop(stack, k, ctx)
with a literal k, stack.append and stack += ...; on every path the number of
popped entries is at most the declared arity; nothing indexes, deletes,
inserts or passes the stack elsewhere, except the documented whole-stack
operations (frozen table, one reason each)."""

from __future__ import annotations

import ast

from ..core import AnalysisError, dotted, enclosing_function
from ..grammar import make_shapes
from ..pe import Interp
from ..templates import Gen, table_keys_with_nodes

level = "other"

# documented whole-stack operations (property statement: wrap, reverse stack,
# stack length, rotate, over, call) - key -> (reason, allowed special forms)
WHOLE_STACK = {
    "W": ("wrap: pops the whole stack and pushes it as one list",
          {"pop-all", "deep-copy", "len"}),
    "^": ("reverse stack", {"wrapify-all", "len"}),
    "!": ("stack length", {"len"}),
    "„": ("rotate stack left", {"wrapify-all", "len"}),
    "‟": ("rotate stack right", {"wrapify-all", "len"}),
    "Ȯ": ("over: copies the second-to-top entry", {"len", "index-read"}),
    "†": ("call: the called function pops its own arguments",
          {"function-call"}),
    "Ė": ("Vyxal exec: runs a program on the current stack (documented "
          "'Executes as Vyxal')", set()),
}
MODIFIER_FORMS = {"wrapify-arity", "pop-arity", "deep-copy", "function-call"}

# python functions that may look at the registered stacks (frozen, reasoned)
CTX_STACKS_READERS = {
    "vy_exec": "Ė runs the transpiled text on the innermost registered stack",
    "vy_str": "function arm: calls the function on the current stack",
    "vy_repr": "function arm: calls the function on the current stack",
    "vy_print": "function arm: calls the function on the current stack",
}


class Use:
    def __init__(self, form, count=None, node=None, detail=""):
        self.form = form
        self.count = count
        self.node = node
        self.detail = detail


def classify_use(name_node, stackname="stack"):
    """Classify one Load/Store occurrence of the stack variable."""
    par = getattr(name_node, "_parent", None)
    gp = getattr(par, "_parent", None)
    # stack.append(x)
    if isinstance(par, ast.Attribute) and par.value is name_node:
        if isinstance(gp, ast.Call) and gp.func is par:
            if par.attr == "append" and len(gp.args) <= 1 \
                    and not gp.keywords:
                return Use("append", node=gp)
            return Use("bad", node=gp,
                       detail=f"stack.{par.attr}(...) mutates or reads the "
                              "stack outside pop/append")
        return Use("bad", node=par, detail=f"stack.{par.attr}")
    # stack += expr
    if isinstance(par, ast.AugAssign) and par.target is name_node:
        if isinstance(par.op, ast.Add):
            return Use("extend", node=par)
        return Use("bad", node=par, detail="augmented assignment other than +=")
    if isinstance(par, ast.Assign) and name_node in par.targets:
        return Use("rebind", node=par)
    if isinstance(par, ast.Subscript) and par.value is name_node:
        if isinstance(par.ctx, ast.Load):
            idx = par.slice
            if isinstance(idx, ast.UnaryOp) and isinstance(idx.op, ast.USub) \
                    and isinstance(idx.operand, ast.Constant) \
                    and isinstance(idx.operand.value, int):
                return Use("peek", count=idx.operand.value, node=par)
            return Use("bad", node=par,
                       detail=f"reads stack[{ast.unparse(idx)}] (not a "
                              "literal negative index)")
        return Use("bad", node=par, detail="stores into / deletes stack[...]")
    if isinstance(par, ast.Delete):
        return Use("bad", node=par, detail="del stack")
    if isinstance(par, ast.Call) and name_node in par.args:
        f = dotted(par.func) or ast.unparse(par.func)
        pos = par.args.index(name_node)
        if f == "len" and pos == 0:
            return Use("len", node=par)
        if f == "deep_copy" and pos == 0:
            return Use("deep-copy", node=par)
        if f in ("pop", "wrapify") and pos == 0:
            cnt = par.args[1] if len(par.args) > 1 else None
            if cnt is None:
                for kw in par.keywords:
                    if kw.arg == "count":
                        cnt = kw.value
            if cnt is None:
                return Use("bad", node=par, detail=f"{f}(stack) without count")
            if isinstance(cnt, ast.Constant) and isinstance(cnt.value, int):
                return Use("pop", count=cnt.value, node=par)
            ctext = ast.unparse(cnt)
            if ctext == f"len({stackname})":
                return Use("pop-all" if f == "pop" else "wrapify-all",
                           node=par)
            if ctext.endswith(".arity"):
                return Use("pop-arity" if f == "pop" else "wrapify-arity",
                           node=par)
            return Use("pop-dynamic", node=par,
                       detail=f"{f}(stack, {ctext}, ...) pops a run-time "
                              "number of entries")
        if f == "function_call" and pos == 0:
            return Use("function-call", node=par)
        if f == "index" and pos == 0:
            return Use("index-read", node=par)
        if f in ("list_item",) or f.startswith("VAR_") or f in ("this", "top") \
                or "function_stack" in f or f.startswith("_lambda") \
                or f.startswith("function_"):
            return Use("call-passes-stack", node=par)
        if f in ("vy_type",):
            return Use("bad", node=par, detail="vy_type(stack)")
        return Use("bad", node=par,
                   detail=f"the stack itself is passed to {f}(...)")
    if isinstance(par, ast.Starred):
        return Use("bad", node=par, detail="*stack")
    return Use("bad", node=par,
               detail=f"unrecognised use of the stack in "
                      f"`{ast.unparse(par)[:50]}`")


def set_parents(tree):
    for p in ast.walk(tree):
        for c in ast.iter_child_nodes(p):
            c._parent = p


def outer_uses(tree, stackname="stack"):
    """Uses of the outer `stack` (occurrences inside nested defs refer to the
    def's own local stack when the def rebinds it)."""
    uses = []

    def rebinding(fn):
        for n in ast.walk(fn):
            if isinstance(n, ast.Assign) and any(
                    isinstance(t, ast.Name) and t.id == stackname
                    for t in n.targets):
                return True
        return stackname in {a.arg for a in fn.args.args}

    def walk(node, local):
        for ch in ast.iter_child_nodes(node):
            if isinstance(ch, ast.FunctionDef):
                walk(ch, local or rebinding(ch))
                continue
            if isinstance(ch, ast.Name) and ch.id == stackname and not local:
                uses.append(ch)
            walk(ch, local)
    walk(tree, False)
    return uses


def path_pops(stmts, stackname="stack"):
    """(min, max) number of entries popped by literal-count pops over all
    paths through the statements (nested defs excluded)."""
    def expr_pops(node):
        n = 0
        for c in ast.walk(node):
            if isinstance(c, (ast.FunctionDef, ast.Lambda)):
                continue
            if isinstance(c, ast.Call) and (dotted(c.func) in ("pop",
                                                               "wrapify")) \
                    and c.args and isinstance(c.args[0], ast.Name) \
                    and c.args[0].id == stackname and len(c.args) > 1 \
                    and isinstance(c.args[1], ast.Constant) \
                    and isinstance(c.args[1].value, int):
                n += c.args[1].value
        return n

    lo = hi = 0
    for st in stmts:
        if isinstance(st, ast.FunctionDef):
            continue
        if isinstance(st, ast.If):
            t = expr_pops(st.test)
            a = path_pops(st.body, stackname)
            b = path_pops(st.orelse, stackname)
            lo += t + min(a[0], b[0])
            hi += t + max(a[1], b[1])
        elif isinstance(st, (ast.For, ast.While)):
            # loops in templates pop per iteration (structure skeletons only)
            t = expr_pops(st.iter if isinstance(st, ast.For) else st.test)
            lo += t
            hi += t
        else:
            n = expr_pops(st)
            lo += n
            hi += n
    return lo, hi


def check(chk, repo, tier):
    gen = Gen(repo)
    EF = repo.mod("elements").rel
    chk.trusted_base += ["CPython ast", "vystatic.pe interpreter subset"]
    elems = gen.elements()
    entries = table_keys_with_nodes(repo, "elements")
    chk.floor("element table entries", len(entries), 300)
    n_hand = 0
    for key, knode, vnode in entries:
        val = elems.get(key)
        if not (isinstance(val, tuple) and isinstance(val[0], str)):
            continue
        code, arity = val
        cons = f"elements[{key!r}]"
        try:
            tree = ast.parse(code)
        except SyntaxError:
            continue  # C02 reports it
        set_parents(tree)
        if not isinstance(vnode, ast.Call):
            n_hand += 1
        whole = WHOLE_STACK.get(key)
        allowed_special = whole[1] if whole else set()
        ok_all = True
        for nm in outer_uses(tree):
            u = classify_use(nm)
            if u.form in ("append", "extend", "pop", "len", "deep-copy"):
                if u.form == "len" and not whole:
                    # reading the length is harmless but only whole-stack
                    # elements and the reduce/reverse dispatcher R need it
                    if key != "R":
                        chk.ob("C09.stack-use", f"{cons}:len(stack)", False,
                               "element inspects the stack depth without "
                               "being a documented whole-stack operation",
                               EF, knode.lineno, witness=key)
                        ok_all = False
                continue
            if u.form == "peek":
                ok = whole is not None or (isinstance(arity, int)
                                           and u.count <= arity)
                chk.ob("C09.peek-within-arity", f"{cons}:stack[-{u.count}]",
                       ok, f"peeks {u.count} entries deep but declares arity "
                       f"{arity}", EF, knode.lineno, witness=key)
                ok_all = ok_all and ok
                continue
            if u.form in allowed_special:
                continue
            ok_all = False
            chk.ob("C09.stack-use", f"{cons}:{u.form}", False,
                   (u.detail or f"{u.form} on the stack")
                   + (" - not one of the documented whole-stack operations"
                      if u.form != "bad" else ""),
                   EF, knode.lineno, witness=WITNESS.get(key, key))
        # an interpreter-owned list pushed without a copy keeps changing under
        # later elements (⅛ appends to the global array): an entry below the
        # top would change although nobody consumed it
        from .c10 import bare_owned  # noqa: PLC0415
        for n in ast.walk(tree):
            if isinstance(n, ast.Call) and isinstance(n.func, ast.Attribute) \
                    and n.func.attr == "append" and dotted(
                    n.func.value) == "stack" and n.args:
                for bare in bare_owned(n.args[0]):
                    ok_all = False
                    chk.ob("C09.no-live-list-on-stack",
                           f"{cons}:stack.append({bare})", False,
                           f"pushes the interpreter-owned list `{bare}` "
                           "itself: later elements that update it change a "
                           "stack entry they never consumed", EF,
                           knode.lineno, witness="1⅛ 2⅛ ¾ 7 ⅛")
        if ok_all:
            chk.ob("C09.stack-use", cons, True)
        lo, hi = path_pops(tree.body)
        if whole is None and isinstance(arity, int):
            chk.ob("C09.pops-within-arity", cons, hi <= arity,
                   f"pops up to {hi} entries on some path but declares arity "
                   f"{arity}: inside a lambda/modifier it would consume "
                   "entries it was not given", EF, knode.lineno, witness=key,
                   sample={"key": key, "arity": arity, "pops": [lo, hi]}
                   if not isinstance(vnode, ast.Call) else None)
            if isinstance(vnode, ast.Call) and dotted(vnode.func) == \
                    "process_element":
                chk.ob("C09.boilerplate-pops-arity", cons, lo == hi == arity,
                       f"process_element boilerplate pops {lo}..{hi} entries "
                       f"for declared arity {arity}", EF, knode.lineno)
    chk.floor("hand-written templates", n_hand, 30)

    # modifiers ---------------------------------------------------------------
    mods = gen.modifiers()
    for key, knode, _ in table_keys_with_nodes(repo, "modifiers"):
        code = mods.get(key)
        if not isinstance(code, str):
            continue
        cons = f"modifiers[{key!r}]"
        try:
            tree = ast.parse(code)
        except SyntaxError:
            continue
        set_parents(tree)
        ok_all = True
        for nm in outer_uses(tree):
            u = classify_use(nm)
            if u.form in ("append", "extend", "pop") or u.form in \
                    MODIFIER_FORMS:
                if u.form == "pop" and u.count != 1:
                    chk.ob("C09.stack-use", f"{cons}:pop({u.count})", False,
                           "modifier template pops a fixed number of entries "
                           "other than its condition", EF, knode.lineno)
                    ok_all = False
                continue
            ok_all = False
            chk.ob("C09.stack-use", f"{cons}:{u.form}", False,
                   u.detail or f"{u.form} on the stack", EF, knode.lineno)
        if ok_all:
            chk.ob("C09.stack-use", cons, True,
                   sample={"modifier": key})
        modifier_template_rules(chk, cons, tree, EF, knode.lineno)

    # modifier wrappers: a single element passes its arity on to the lambda ---------
    n_wrap = 0
    for key, knode, _ in entries:
        val = elems.get(key)
        if not (isinstance(val, tuple) and isinstance(val[1], int)):
            continue
        try:
            lam = gen.lambda_wrap([gen.generic("GENERAL", key)])
            got = lam.d.get("arity")
        except Exception as exc:  # noqa: BLE001
            got = f"raised {exc}"
        n_wrap += 1
        chk.ob("C09.wrapper-arity-is-element-arity", f"lambda_wrap({key!r})",
               got == val[1],
               f"under a modifier the element {key!r} (arity {val[1]}) is "
               f"wrapped in a lambda of arity {got}: the wrapper takes "
               "entries from the stack that the element does not consume "
               "(or too few)", repo.mod("transpile").rel,
               witness=f"7 8 ₌{key}!" if val[1] == 0 else f"v{key}")
    for kind, val in (("NUMBER", "5"), ("STRING", "a"),
                      ("COMPRESSED_NUMBER", "a"), ("COMPRESSED_STRING", "a"),
                      ("VARIABLE_GET", "x"), ("CODEPAGE_NUMBER", "a")):
        try:
            got = gen.lambda_wrap([gen.generic(kind, val)]).d.get("arity")
        except Exception as exc:  # noqa: BLE001
            got = f"raised {exc}"
        chk.ob("C09.wrapper-arity-is-element-arity",
               f"lambda_wrap(<{kind}>)", got == 0,
               f"a {kind} literal pushes one value and pops none, but its "
               f"wrapper lambda has arity {got}",
               repo.mod("transpile").rel)
    chk.floor("lambda_wrap instances", n_wrap, 300)
    emitted_arity(chk, repo, gen)

    # structure skeletons --------------------------------------------------------
    pp = gen.it.module("vyxal.parse")
    parse_mods = {n: list(pp.get(n)) for n in (
        "MONADIC_MODIFIERS", "DYADIC_MODIFIERS", "TRIADIC_MODIFIERS")}
    n_sk = 0
    for shape in make_shapes(gen, tier, parse_mods):
        try:
            inst = shape.build(gen, {})
            text = gen.transpile_ast([inst], 0)
            tree = ast.parse(text)
        except Exception:  # noqa: BLE001 - C02 reports generator problems
            continue
        ok_counts = {1}
        after = inst.d.get("after")
        if isinstance(after, str) and isinstance(elems.get(after), tuple):
            # lambda + element (map / filter / sort): the element's own pop
            ok_counts.add(elems[after][1])
        set_parents(tree)
        n_sk += 1
        cons = f"skeleton {shape.label}"
        ok_all = True
        for nm in outer_uses(tree):
            u = classify_use(nm)
            if u.form in ("append", "extend", "call-passes-stack",
                          "deep-copy", "wrapify-arity", "pop-arity",
                          "function-call"):
                continue
            if u.form == "pop":
                if u.count not in ok_counts:
                    ok_all = False
                    chk.ob("C09.skeleton-stack-use", f"{cons}:pop({u.count})",
                           False, "structure template pops more than the one "
                           "value it consumes", repo.mod("transpile").rel)
                continue
            ok_all = False
            chk.ob("C09.skeleton-stack-use", f"{cons}:{u.form}", False,
                   u.detail or f"{u.form} on the stack",
                   repo.mod("transpile").rel)
        if ok_all:
            chk.ob("C09.skeleton-stack-use", cons, True,
                   sample={"shape": shape.label})
    chk.floor("structure skeletons analysed", n_sk, 40)

    # the popping helper ------------------------------------------------------------
    helpers = repo.mod("helpers")
    pop_helper(chk, helpers)
    pop_transitions(chk, repo, tier)

    # python functions looking at ctx.stacks -------------------------------------------
    for modname in repo.package_modules():
        if modname.endswith(".dictionary"):
            continue
        mod = repo.mod(modname)
        for n in ast.walk(mod.tree):
            if isinstance(n, ast.Attribute) and n.attr == "stacks" \
                    and isinstance(n.ctx, ast.Load):
                par = getattr(n, "_parent", None)
                if isinstance(par, ast.Attribute) and par.attr in (
                        "append", "pop"):
                    continue  # registration discipline: C12
                fn = enclosing_function(n)
                while isinstance(fn, ast.Lambda):
                    fn = enclosing_function(fn)
                fname = fn.name if fn is not None else "<module>"
                sm = modname.split(".")[-1]
                if sm in ("context",):
                    continue
                ok = fname in CTX_STACKS_READERS
                chk.ob("C09.ctx-stacks-readers", f"{sm}.{fname}:ctx.stacks",
                       ok, f"`{mod.seg(par)[:60]}` reaches the registered "
                       "stacks from an element function that is not one of "
                       "the reasoned sites", mod.rel, n.lineno,
                       sample={"function": fname,
                               "reason": CTX_STACKS_READERS.get(fname)})

    chk.explanation = (
        "Decides for every table key, every modifier template and every "
        "structure skeleton that the data stack is touched only through "
        "pop(stack, k, ctx) with literal k, stack.append and stack += ..., "
        "that on every path at most `arity` entries are popped (exactly "
        "`arity` for process_element boilerplate), that peeks stay within "
        "the arity, and that the stack object is passed on only to the "
        "called function / list-item closure. The documented whole-stack "
        "operations are a frozen table. helpers.pop is shown to pop exactly "
        "`count` entries. Does not decide what the element functions compute "
        "from the popped values (their arguments are the popped values, not "
        "the stack).")
    chk.assumptions += [
        "element functions receive popped values, never the stack (checked: "
        "the stack is passed only in the enumerated call forms)",
    ]


WITNESS = {
    "¨ẇ": "1 2 3 2¨ẇ: an arity-1 element consumes 1+n entries",
}


def modifier_template_rules(chk, cons, tree, EF, line):
    """(1) `function_call(stack, ...)` calls whatever is on top of the stack:
    in a modifier it must come right after the modifier pushed its own
    function, in the same block (else it consumes an entry of the program's).
    (2) ctx.retain_popped makes every pop re-push: a template that switches
    it on must have switched it off again on every path to its end."""
    for n in ast.walk(tree):
        if isinstance(n, ast.Call) and (dotted(n.func) or "") == \
                "function_call" and n.args and isinstance(
                n.args[0], ast.Name) and n.args[0].id == "stack":
            st = n
            while not isinstance(st, ast.stmt):
                st = st._parent
            par = getattr(st, "_parent", None)
            prev = None
            for field in ("body", "orelse", "finalbody"):
                seq = getattr(par, field, None)
                if isinstance(seq, list) and any(st is x for x in seq):
                    i = [k for k, x in enumerate(seq) if x is st][0]
                    prev = seq[i - 1] if i > 0 else None
            pushed = isinstance(prev, ast.Expr) and isinstance(
                prev.value, ast.Call) and (dotted(prev.value.func) or "") == \
                "stack.append" and prev.value.args and isinstance(
                prev.value.args[0], ast.Name) and prev.value.args[0].id in (
                "function_A", "function_B", "function_C")
            chk.ob("C09.call-follows-own-push", f"{cons}:function_call", pushed,
                   "`function_call(stack, ...)` is not directly preceded, in "
                   "its own block, by the push of the modifier's function: on "
                   "the other path it calls (pops) an entry of the program's "
                   "stack", EF, line, witness="7 8 0 ß+  loses the 8")

    def walk(stmts, state):
        """state: True = retain switched on; returns state at the end, None
        if the block cannot complete"""
        for st in stmts:
            if state is None:
                return None
            if isinstance(st, ast.Assign) and any(
                    (dotted(t) or "") == "ctx.retain_popped"
                    for t in st.targets):
                v = st.value
                state = not (isinstance(v, ast.Constant)
                             and v.value is False)
            elif isinstance(st, ast.If):
                a = walk(st.body, state)
                b = walk(st.orelse, state)
                live = [x for x in (a, b) if x is not None]
                state = None if not live else any(live)
            elif isinstance(st, (ast.For, ast.While)):
                inner = walk(st.body, state)
                state = state or bool(inner)
            elif isinstance(st, ast.Try):
                outs = [walk(st.body, state)] + [walk(h.body, state)
                                                  for h in st.handlers]
                live = [x for x in outs if x is not None]
                state = None if not live else any(live)
            elif isinstance(st, (ast.Return, ast.Raise)):
                if state:
                    return True
                return None
        return state
    writes = [n for n in ast.walk(tree) if isinstance(n, ast.Assign) and any(
        (dotted(t) or "") == "ctx.retain_popped" for t in n.targets)]
    if writes:
        end = walk(tree.body, False)
        chk.ob("C09.retain-flag-restored", cons, not end,
               "the template can end with ctx.retain_popped still switched "
               "on: every later element re-pushes what it pops", EF, line,
               witness="~₀ + on a stack 4 5 leaves 4 5 9")


def emitted_arity(chk, repo, gen):
    """The arity a Lambda structure carries must be the arity its generated
    function announces (`.arity`, read by every modifier to decide how many
    entries to take) and the number of arguments it grabs by default."""
    TF = repo.mod("transpile").rel
    n = 0
    for k in (0, 1, 2, 3, 4, "default"):
        lam = gen.struct("Lambda", k, [gen.generic("NUMBER", "1")])
        try:
            text = gen.transpile_ast([lam], 0)
            tree = ast.parse(text)
        except Exception:  # noqa: BLE001 - C02 reports generator problems
            continue

        def value_of(e, depth=0):
            """the lambda's own arity as it reaches `e`: an int constant,
            ctx.default_arity, the fallback of getattr(self, 'stored_arity',
            <own>), or a local bound to one of those (the caller-supplied
            `arity` / `self.stored_arity` are not the lambda's own)"""
            if isinstance(e, ast.Constant) and isinstance(e.value, int) \
                    and not isinstance(e.value, bool) and e.value != -1:
                return e.value
            if (dotted(e) or "") == "ctx.default_arity":
                return "default"
            if isinstance(e, ast.Call) and dotted(e.func) == "getattr" \
                    and len(e.args) == 3:
                return value_of(e.args[2], depth + 1)
            if isinstance(e, ast.IfExp):
                for br in (e.body, e.orelse):
                    v = value_of(br, depth + 1)
                    if v is not None:
                        return v
            if isinstance(e, ast.Name) and depth < 3:
                for a in ast.walk(tree):
                    if isinstance(a, ast.Assign) and any(
                            isinstance(t, ast.Name) and t.id == e.id
                            for t in a.targets):
                        v = value_of(a.value, depth + 1)
                        if v is not None:
                            return v
            return None

        announced = [value_of(a.value) for a in ast.walk(tree)
                     if isinstance(a, ast.Assign) and any(
                         isinstance(t, ast.Attribute) and t.attr == "arity"
                         for t in a.targets)]
        grabbed = [value_of(c.args[1]) for c in ast.walk(tree)
                   if isinstance(c, ast.Call) and dotted(c.func) == "wrapify"
                   and len(c.args) >= 2 and isinstance(c.args[0], ast.Name)
                   and c.args[0].id == "arg_stack"]
        grabbed = [g for g in grabbed if g is not None]
        if not announced or not grabbed:
            raise AnalysisError(
                "anchor vanished: the lambda template no longer announces "
                "`.arity = ...` / grabs `wrapify(arg_stack, <arity>, ...)`")
        n += 1
        ok = set(announced) == {k} and set(grabbed) == {k}
        chk.ob("C09.lambda-announces-its-arity", f"Lambda/arity={k}", ok,
               f"a lambda of arity {k} is generated with `.arity = "
               f"{announced}` and takes {grabbed} arguments by default: a "
               "modifier applying it removes a different number of stack "
               "entries than the wrapped element consumes", TF,
               witness="7 8 ~₀  /  ₌+₀ (a nilad under a modifier)"
               if k == 0 else None, sample={"arity": k})
    chk.floor("lambda arities compared with their generated text", n, 5)


def pop_helper(chk, helpers):
    fn = helpers.function("pop")
    param = fn.args.args[0].arg
    cnt = fn.args.args[1].arg
    pops, appends, others = [], [], []
    for n in ast.walk(fn):
        if isinstance(n, ast.Call) and isinstance(n.func, ast.Attribute) \
                and isinstance(n.func.value, ast.Name) \
                and n.func.value.id == param:
            if n.func.attr == "pop" and not n.args:
                pops.append(n)
            elif n.func.attr == "append":
                appends.append(n)
            else:
                others.append(n)
        if isinstance(n, (ast.Subscript,)) and isinstance(n.value, ast.Name) \
                and n.value.id == param and not isinstance(n.ctx, ast.Load):
            others.append(n)
    ok = len(pops) == 1 and not others
    # the single pop sits in `for _ in range(count)`
    in_loop = False
    if pops:
        p = pops[0]
        cur = getattr(p, "_parent", None)
        while cur is not None and cur is not fn:
            if isinstance(cur, ast.For) and isinstance(cur.iter, ast.Call) \
                    and dotted(cur.iter.func) == "range" \
                    and len(cur.iter.args) == 1 \
                    and isinstance(cur.iter.args[0], ast.Name) \
                    and cur.iter.args[0].id == cnt:
                in_loop = True
            cur = getattr(cur, "_parent", None)
    # re-appends only under ctx.retain_popped
    guarded = True
    for a in appends:
        cur = getattr(a, "_parent", None)
        g = False
        while cur is not None and cur is not fn:
            if isinstance(cur, ast.If) and "retain_popped" in ast.unparse(
                    cur.test):
                g = True
            cur = getattr(cur, "_parent", None)
        guarded = guarded and g
    # (statement pattern kept as a note only: a slice fast path guarded by
    # 0 < count <= len(stack) is correct and was reported by it; the
    # interpreted transition systems of pop_transitions decide)
    chk.info("C09.pop-transition", "helpers.pop",
             f"shape: one .pop() in a range(count) loop={ok and in_loop}, "
             f"re-appends guarded by retain_popped={guarded}")
    wf = helpers.function("wrapify")
    calls = [n for n in ast.walk(wf) if isinstance(n, ast.Call)
             and dotted(n.func) == "pop"]
    ok = len(calls) == 1 and len(calls[0].args) >= 2 and isinstance(
        calls[0].args[1], ast.Name) and calls[0].args[1].id == \
        wf.args.args[1].arg
    chk.info("C09.pop-transition", "helpers.wrapify",
             f"shape: a single pop(item, count, ctx) call={ok}")


def pop_transitions(chk, repo, tier):
    """pop / wrapify as transition systems: the current source is interpreted
    on every small stack, every count from 0 (a niladic element under a
    modifier) and both values of the two flags pop consults; exactly the top
    `count` entries may go, the prefix below them stays as it is."""
    import itertools  # noqa: PLC0415
    from ..pe import PRaise  # noqa: PLC0415
    it = Interp(repo)

    def no_stdin(*a, **k):
        raise PRaise("EOFError", ("no stdin in the abstract run",))
    it.builtins["input"] = no_stdin
    Context = it.module("vyxal.context").get("Context")
    hm = it.module("vyxal.helpers")
    helpers = repo.mod("helpers")
    top = 5 if tier == "thorough" else 4
    for fname in ("pop", "wrapify"):
        try:
            fn = hm.get(fname)
        except KeyError:
            raise AnalysisError(f"anchor vanished: helpers.{fname}") from None
        bad = None
        n = 0
        for m, count, retain, rev, n_in in itertools.product(
                range(top + 1), range(top + 1), (False, True), (False, True),
                (0, 2)):
            ctx = it.instantiate(Context, [], {})
            ctx.d["inputs"] = [[[f"in{i}" for i in range(n_in)], 0]]
            ctx.d["retain_popped"] = retain
            ctx.d["reverse_flag"] = rev
            orig = [f"s{i}" for i in range(m)]
            stack = list(orig)
            it.steps = 0
            n += 1
            try:
                got = fn(stack, count, ctx)
            except (PRaise, Exception) as exc:  # noqa: BLE001
                bad = bad or (m, count, retain, rev, "raises " + repr(exc))
                continue
            removed = min(m, count)
            keep = orig[:m - removed]
            taken = orig[m - removed:]
            res = got if isinstance(got, list) and not (
                fname == "pop" and count == 1) else [got]
            if stack[:len(keep)] != keep:
                why = f"entries below the top {count} changed: {stack}"
            elif not retain and len(stack) != len(keep):
                why = (f"{m - len(stack)} entries removed from a stack of "
                       f"{m} for count {count}: {stack}")
            elif len(res) != count or any(x not in res for x in taken):
                why = f"returns {got!r}, not the top {count} entries"
            else:
                continue
            bad = bad or (m, count, retain, rev, why)
        chk.ob("C09.pop-transition", f"helpers.{fname}", bad is None,
               f"{fname}(stack, count, ctx) on a stack of "
               f"{bad[0] if bad else ''} entries, count "
               f"{bad[1] if bad else ''}, retain_popped="
               f"{bad[2] if bad else ''}, reverse_flag="
               f"{bad[3] if bad else ''}: {bad[4] if bad else ''}",
               helpers.rel, helpers.function(fname).lineno,
               witness=repr(bad) if bad else None,
               sample={"abstract states": n})
