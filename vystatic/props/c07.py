"""C07 - rational arithmetic is exact and stays inside the number types
(clauses decided: the (num, num) arms of the six arithmetic elements are
float-free and zero-guarded; vyxalify normalises exactly)."""

from __future__ import annotations

import ast

from ..core import AnalysisError, dotted

level = "other"

FUNCS = {
    "add": {"zero_guard": False},
    "subtract": {"zero_guard": False},
    "multiply": {"zero_guard": False},
    "divide": {"zero_guard": True},
    "modulo": {"zero_guard": False},
    "integer_divide": {"zero_guard": True},
}
# `//` is deliberately absent: sympy's Integer.__floordiv__ goes through
# Number.__divmod__, which subtracts one from every negative quotient - also
# when the quotient is an exact integer (Integer(-12) // Rational(1, 6) is
# -73).  Floor division has to floor the exact quotient (sympy.floor).
EXACT_OPS = (ast.Add, ast.Sub, ast.Mult, ast.Mod)
LIFTERS = {"sympy.Rational", "sympy.Integer", "sympy.sympify", "sympy.S",
           "fractions.Fraction", "Fraction", "sympy.nsimplify"}
EXACT_WRAPPERS = {"vyxalify", "sympy.Rational", "sympy.Integer",
                  "sympy.sympify", "abs", "sympy.floor", "sympy.ceiling",
                  "list", "tuple"}
INTEGRAL = {"sympy.floor", "sympy.ceiling"}
FORBIDDEN = {"float", "round", "sympy.N", "sympy.Float", "sympy.nfloat",
             "math.floor", "math.ceil", "math.fmod", "divmod_float"}


def num_num_arm(fn):
    """The expression of the (NUMBER_TYPE, NUMBER_TYPE) arm of the overload
    table (dict-dispatch form)."""
    for n in ast.walk(fn):
        if isinstance(n, ast.Dict):
            for k, v in zip(n.keys, n.values):
                if k is not None and ast.unparse(k) == \
                        "(NUMBER_TYPE, NUMBER_TYPE)":
                    if isinstance(v, ast.Lambda):
                        return v.body, k.lineno
                    if isinstance(v, ast.Name):
                        # a nested helper: fold its returns into one
                        # conditional expression
                        for d in ast.walk(fn):
                            if isinstance(d, ast.FunctionDef) \
                                    and d.name == v.id:
                                return helper_as_expr(d), d.lineno
    # if/elif form: `if ts == (NUMBER_TYPE, NUMBER_TYPE): [if rhs == 0:
    # return 0] return E` - the arm's statements are folded into one
    # conditional expression
    for n in ast.walk(fn):
        if isinstance(n, ast.If) and "(NUMBER_TYPE, NUMBER_TYPE)" in \
                ast.unparse(n.test):
            e = stmts_as_expr(n.body)
            if e is not None:
                return e, n.lineno
    return None, None


def helper_as_expr(d):
    return stmts_as_expr(d.body)


def stmts_as_expr(body):
    """`try: return A except ZeroDivisionError: return B` and plain
    `if c: return A` chains -> an expression tree over the returns.  A
    try/except is NOT a zero guard (sympy returns zoo instead of raising), so
    only explicit tests survive as IfExp."""
    rets = []

    def walk(stmts):
        for st in stmts:
            if isinstance(st, ast.Return) and st.value is not None:
                rets.append(st.value)
            elif isinstance(st, ast.If):
                before = len(rets)
                walk(st.body)
                body_r = rets[before:]
                del rets[before:]
                walk(st.orelse)
                else_r = rets[before:]
                del rets[before:]
                if len(body_r) == 1 and len(else_r) <= 1:
                    if else_r:
                        rets.append(ast.IfExp(test=st.test, body=body_r[0],
                                              orelse=else_r[0]))
                    else:
                        rets.append(("pending", st.test, body_r[0]))
                else:
                    rets.extend(body_r + else_r)
            elif isinstance(st, ast.Try):
                walk(st.body)
                for h in st.handlers:
                    walk(h.body)
    walk(body)
    # fold `if c: return A` followed by `return B`
    out = None
    for r in reversed(rets):
        if isinstance(r, tuple):
            out = ast.IfExp(test=r[1], body=r[2],
                            orelse=out if out is not None
                            else ast.Constant(value=None))
        elif out is None:
            out = r
        else:
            # several unconditional returns (try/except): all must be exact;
            # join them with a neutral binary operator for the exactness walk
            out = ast.BinOp(left=r, op=ast.Add(), right=out)
    return ast.fix_missing_locations(out) if out is not None else None


def lifted(e):
    """is the operand syntactically an exact sympy/Fraction number?"""
    if isinstance(e, ast.Call):
        d = dotted(e.func) or ""
        if d in LIFTERS:
            if d == "sympy.nsimplify":
                return any(kw.arg == "rational" and isinstance(
                    kw.value, ast.Constant) and kw.value.value is True
                    for kw in e.keywords)
            return True
    return False


REPO = None
MODULE = None  # the elements module (set by check) for following delegation


def exact(e, depth=0):
    """(ok, why) - the expression is built from exact operations only."""
    if isinstance(e, ast.Name):
        return True, ""
    if isinstance(e, (ast.List, ast.Tuple)):
        for part in e.elts:
            ok, why = exact(part, depth)
            if not ok:
                return ok, why
        return True, ""
    if isinstance(e, ast.Subscript) and isinstance(e.slice, ast.Constant):
        # f(...)[i]: the i-th component of what f's (num, num) arm returns
        inner = delegate_arm(e.value, depth)
        if inner is not None and isinstance(inner, (ast.List, ast.Tuple)) \
                and isinstance(e.slice.value, int) \
                and -len(inner.elts) <= e.slice.value < len(inner.elts):
            return exact(inner.elts[e.slice.value], depth + 1)
        return exact(e.value, depth)
    if isinstance(e, ast.Call) and delegate_arm(e, depth) is not None:
        return exact(delegate_arm(e, depth), depth + 1)
    if isinstance(e, ast.Constant):
        if isinstance(e.value, float):
            return False, f"float constant {e.value}"
        return True, ""
    if isinstance(e, ast.UnaryOp):
        return exact(e.operand, depth)
    if isinstance(e, ast.IfExp):
        for part in (e.body, e.orelse):
            ok, why = exact(part, depth)
            if not ok:
                return ok, why
        return True, ""
    if isinstance(e, ast.BinOp):
        if isinstance(e.op, ast.Div):
            if not (lifted(e.left) or lifted(e.right)):
                return False, ("`/` on plain operands: two python ints give "
                               "a float")
        elif isinstance(e.op, ast.Pow):
            return False, "`**` may leave the rationals"
        elif isinstance(e.op, ast.FloorDiv):
            return False, ("`//` on sympy numbers is off by one for negative "
                           "integral quotients (Integer(-12) // Rational(1, 6)"
                           " is -73); floor the exact quotient instead")
        elif not isinstance(e.op, EXACT_OPS):
            return False, f"operator {type(e.op).__name__}"
        for part in (e.left, e.right):
            ok, why = exact(part, depth)
            if not ok:
                return ok, why
        return True, ""
    if isinstance(e, ast.Call):
        d = dotted(e.func) or ast.unparse(e.func)
        if d in FORBIDDEN or d.startswith("math."):
            return False, f"{d}(...) is approximate"
        if d == "divmod":
            return False, ("builtin divmod on sympy numbers is off by one for "
                           "negative integral quotients (sympy "
                           "Number.__divmod__)")
        if d == "int":
            # int() truncates toward zero: exact only on a value already
            # floored / known integral
            a0 = e.args[0] if e.args else None
            if isinstance(a0, ast.Call) and (dotted(a0.func) or "") in INTEGRAL:
                return exact(a0, depth)
            return False, ("int(...) truncates a non-integral quotient "
                           "toward zero")
        if d == "sympy.nsimplify":
            if not any(kw.arg == "rational" and isinstance(
                    kw.value, ast.Constant) and kw.value.value is True
                    for kw in e.keywords):
                inner_ok, _ = exact(e.args[0], depth) if e.args else (True, "")
                has_div = any(isinstance(n, ast.BinOp) and isinstance(
                    n.op, ast.Div) for n in ast.walk(e))
                if has_div or not inner_ok:
                    return False, ("sympy.nsimplify without rational=True "
                                   "guesses a closed form from a float")
            for a in e.args:
                ok, why = exact(a, depth)
                if not ok:
                    return ok, why
            return True, ""
        if d in EXACT_WRAPPERS or d in LIFTERS:
            for a in e.args:
                ok, why = exact(a, depth)
                if not ok:
                    return ok, why
            return True, ""
        return False, f"call to {d}(...) is not in the exact vocabulary"
    if isinstance(e, ast.Compare):
        return True, ""
    return False, f"expression form {type(e).__name__}"


def delegate_arm(call, depth):
    """`g(lhs, rhs, ...)` where g is another element function of the module
    with a (num, num) arm: that arm (delegation keeps the arguments' kinds)."""
    if MODULE is None or depth > 3 or not isinstance(call, ast.Call) \
            or not isinstance(call.func, ast.Name):
        return None
    g = MODULE.functions.get(call.func.id)
    if g is None:
        return None
    arm, _ = num_num_arm(g)
    if arm is None:
        return None
    z = zero_guarded(arm)
    return z if z is not None else arm


DIVISOR = "rhs"  # name of the second value parameter (set per function)


def zero_guarded(e):
    """`0 if rhs == 0 else E` (or `E if rhs != 0 else 0`, `rhs and E`), rhs
    being the function's second value parameter"""
    d = DIVISOR
    if isinstance(e, ast.IfExp):
        t = ast.unparse(e.test).replace(" ", "")
        if t in (f"{d}==0", f"0=={d}", f"not{d}") and isinstance(
                e.body, ast.Constant) and e.body.value == 0:
            return e.orelse
        if t in (f"{d}!=0", d, f"0!={d}") and isinstance(
                e.orelse, ast.Constant) and e.orelse.value == 0:
            return e.body
    return None


OPERATORS = {"+": "add", "-": "subtract", "*": "multiply", "/": "divide",
             "%": "modulo", "ḭ": "integer_divide"}


def operators_call_their_functions(chk, repo, mod, EF):
    """The arms analysed above are what the program runs: the table entry of
    each operator pops its operands and pushes exactly <function>(operands)
    (an inline template could route some operand kinds around the function)."""
    from ..templates import Gen, table_keys_with_nodes
    gen = Gen(repo)
    elems = gen.elements()
    lines = {k: kn.lineno for k, kn, _ in table_keys_with_nodes(repo,
                                                                "elements")}
    for key, fname in OPERATORS.items():
        v = elems.get(key)
        ok, why = False, "no such table entry"
        if isinstance(v, tuple) and isinstance(v[0], str):
            try:
                tree = ast.parse(v[0])
            except SyntaxError:
                tree = None
            why = "the template does not parse"
            if tree is not None:
                pushes = [n for n in ast.walk(tree) if isinstance(n, ast.Call)
                          and (dotted(n.func) or "") == "stack.append"]
                popped = []
                for n in ast.walk(tree):
                    if isinstance(n, ast.Assign) and isinstance(
                            n.value, ast.Call) and (dotted(n.value.func)
                                                    or "") == "pop":
                        t = n.targets[0]
                        popped = [e.id for e in (t.elts if isinstance(
                            t, ast.Tuple) else [t]) if isinstance(e, ast.Name)]
                why = (f"the template pushes `{ast.unparse(pushes[0].args[0])[:60]}`"
                       if pushes and pushes[0].args else "nothing is pushed")
                if len(pushes) == 1 and pushes[0].args:
                    e = pushes[0].args[0]
                    if isinstance(e, ast.Call) and isinstance(
                            e.func, ast.Name) and e.func.id == fname:
                        args = [a.id for a in e.args
                                if isinstance(a, ast.Name)]
                        ok = len(args) == 2 and len(e.args) == 2 and set(
                            args) == set(popped) and len(popped) == 2
                        why = (f"`{ast.unparse(e)[:60]}` does not apply "
                               f"{fname} to the two popped operands")
        chk.ob("C07.operator-runs-its-function", f"elements[{key!r}]", ok,
               f"{why}: the exactness of `{fname}` decided above is not what "
               f"`{key}` computes", EF, lines.get(key),
               witness="355 113 / with both operands python ints",
               sample={"operator": key, "function": fname})


def operands_not_rebound(chk, mod, EF):
    """Between entry and the overload table the operands stay what the caller
    passed (or an exact function of it): `lhs, rhs = simplify(lhs), ...`
    under some flag would feed floats to an otherwise exact arm."""
    for name in FUNCS:
        fn = mod.function(name)
        params = {a.arg for a in fn.args.args if a.arg != "ctx"}
        for n in ast.walk(fn):
            if isinstance(n, (ast.FunctionDef, ast.Lambda)) and n is not fn:
                continue
            tg = []
            if isinstance(n, ast.Assign):
                for t in n.targets:
                    tg += list(t.elts) if isinstance(t, ast.Tuple) else [t]
                vals = list(n.value.elts) if isinstance(
                    n.value, ast.Tuple) and len(n.value.elts) == len(tg) \
                    else [n.value] * len(tg)
            elif isinstance(n, ast.AugAssign):
                tg, vals = [n.target], [n.value]
            for t, v in zip(tg, vals if tg else []):
                if isinstance(t, ast.Name) and t.id in params:
                    ok, why = exact(v)
                    chk.ob("C07.operands-not-rebound",
                           f"{name}:{t.id} = {ast.unparse(v)[:40]}", ok,
                           f"{name} replaces its operand `{t.id}` by "
                           f"`{ast.unparse(v)[:60]}` before the number arm "
                           f"runs: {why}", EF, n.lineno,
                           witness="flag ḋ: 1 3 / 1 6 / + gives the float "
                                   "0.5")


def other_number_arms(chk, mod, EF):
    """(num, num) arms of every other element function: the two constructs
    that are never exact on Vyxal numbers - `//` / divmod (sympy's are off by
    one on negative integral quotients with a Rational divisor) and `/`
    between operands that are not lifted to sympy (two Python ints give a
    float) - are reported wherever they occur."""
    n_arm = 0
    for name, fn in mod.functions.items():
        if name in FUNCS:
            continue
        try:
            arm, line = num_num_arm(fn)
        except Exception:  # noqa: BLE001 - shape outside the folding subset
            continue
        if arm is None:
            continue
        n_arm += 1
        params = {a.arg for a in fn.args.args if a.arg != "ctx"}
        bad = []
        for n in ast.walk(arm):
            if isinstance(n, ast.BinOp) and isinstance(n.op, ast.FloorDiv) \
                    and any(isinstance(m, ast.Name) and m.id in params
                            for m in ast.walk(n)):
                bad.append((n, "`//` on Vyxal numbers"))
            elif isinstance(n, ast.Call) and dotted(n.func) == "divmod" \
                    and any(isinstance(m, ast.Name) and m.id in params
                            for m in ast.walk(n)):
                bad.append((n, "builtin divmod on Vyxal numbers"))
            elif isinstance(n, ast.BinOp) and isinstance(n.op, ast.Div) \
                    and isinstance(n.left, ast.Name) and isinstance(
                        n.right, ast.Name) and n.left.id in params \
                    and n.right.id in params:
                bad.append((n, "`/` between two unlifted operands (two "
                               "Python ints give a float)"))
        if not bad:
            chk.ob("C07.number-arm-exact-division", f"{name}:(num, num)",
                   True)
        for n, why in bad:
            chk.ob("C07.number-arm-exact-division",
                   f"{name}:(num, num):{ast.unparse(n)[:40]}", False,
                   f"the (num, num) arm of {name} computes "
                   f"`{ast.unparse(n)[:60]}`: {why}", EF, n.lineno,
                   witness="3 1 2/ (an integer and a non-integral rational "
                           "with an integral quotient)")
    chk.unit("(num, num) arms of other element functions", n_arm)
    # vyxalify(a / b): normalising a quotient only helps when the quotient
    # was exact - with two Python ints it is a float that nsimplify then
    # guesses a fraction for
    n_q = 0
    for m in (mod, REPO.mod("LazyList")):
        for fn in ast.walk(m.tree):
            if not isinstance(fn, ast.FunctionDef):
                continue
            sdefs = {}
            for a in ast.walk(fn):
                if isinstance(a, ast.Assign):
                    for t in a.targets:
                        if isinstance(t, ast.Name):
                            sdefs.setdefault(t.id, []).append(a.value)
                elif isinstance(a, (ast.AugAssign, ast.For)) and isinstance(
                        a.target, ast.Name):
                    sdefs.setdefault(a.target.id, []).append(None)

            def is_lifted(e):
                if lifted(e):
                    return True
                if isinstance(e, ast.Name) and e.id in sdefs:
                    return all(d is not None and lifted(d)
                               for d in sdefs[e.id])
                return False

            for c in ast.walk(fn):
                if isinstance(c, ast.Call) and dotted(c.func) == "vyxalify" \
                        and c.args and isinstance(c.args[0], ast.BinOp) \
                        and isinstance(c.args[0].op, ast.Div):
                    n_q += 1
                    q = c.args[0]
                    ok = is_lifted(q.left) or is_lifted(q.right)
                    chk.ob("C07.number-arm-exact-division",
                           f"{fn.name}:{ast.unparse(c)[:40]}", ok,
                           f"`{ast.unparse(c)[:60]}` normalises a quotient "
                           "whose operands are not lifted to sympy: for two "
                           "Python ints it is a float, and the fraction "
                           "guessed back from it differs from the quotient "
                           "for large operands", m.rel, c.lineno,
                           witness="⟨1000003|5|7⟩, third prefix mean")
    chk.unit("vyxalify(a / b) sites", n_q)


def check(chk, repo, tier):
    chk.trusted_base += ["CPython ast"]
    global MODULE
    mod = repo.mod("elements")
    MODULE = mod
    EF = mod.rel
    for name, spec in FUNCS.items():
        fn = mod.function(name)
        global DIVISOR
        vals = [a.arg for a in fn.args.args if a.arg != "ctx"]
        DIVISOR = vals[1] if len(vals) > 1 else "rhs"
        arm, line = num_num_arm(fn)
        if arm is None:
            raise AnalysisError(
                f"anchor vanished: (NUMBER_TYPE, NUMBER_TYPE) arm of {name}")
        body = arm
        if spec["zero_guard"]:
            inner = zero_guarded(arm)
            chk.ob("C07.zero-guard", f"{name}:(num, num)", inner is not None,
                   f"the (num, num) arm `{ast.unparse(arm)[:60]}` is not "
                   "guarded by `0 if rhs == 0 else ...`: division by zero "
                   "raises instead of returning 0", EF, line,
                   witness="5 0 /" if name == "divide" else "5 0 ḭ",
                   sample={"arm": ast.unparse(arm)[:80]})
            if inner is not None:
                body = inner
        ok, why = exact(body)
        chk.ob("C07.float-free-arm", f"{name}:(num, num)", ok,
               f"the (num, num) arm `{ast.unparse(body)[:70]}` is not exact: "
               f"{why}", EF, line,
               witness="-718218 9326 / gives -154024876688827/2000000000000"
               if name == "divide" else None,
               sample={"function": name, "arm": ast.unparse(body)[:80]})

    operators_call_their_functions(chk, repo, mod, EF)
    operands_not_rebound(chk, mod, EF)
    global REPO
    REPO = repo
    other_number_arms(chk, mod, EF)

    # vyxalify -------------------------------------------------------------------
    helpers = repo.mod("helpers")
    vf = helpers.function("vyxalify")
    HF = helpers.rel
    ns = [n for n in ast.walk(vf) if isinstance(n, ast.Call)
          and dotted(n.func) == "sympy.nsimplify"]
    for n in ns:
        ok = any(kw.arg == "rational" and isinstance(kw.value, ast.Constant)
                 and kw.value.value is True for kw in n.keywords)
        chk.ob("C07.vyxalify-exact", f"vyxalify:{ast.unparse(n)[:50]}", ok,
               "vyxalify normalises a number with sympy.nsimplify without "
               "rational=True (closed-form guessing)", HF, n.lineno,
               sample=ast.unparse(n)[:60])
    chk.floor("nsimplify calls in vyxalify", len(ns), 1)
    # Integer -> int arm
    int_arm = False
    for n in ast.walk(vf):
        if isinstance(n, ast.If) and "Integer" in ast.unparse(n.test):
            for b in n.body:
                if isinstance(b, ast.Return) and isinstance(
                        b.value, ast.Call) and dotted(b.value.func) == "int":
                    int_arm = True
    chk.ob("C07.vyxalify-integer-arm", "vyxalify:Integer -> int", int_arm,
           "vyxalify no longer maps sympy Integers to python ints", HF,
           vf.lineno, sample="int(value)")
    forb = [n for n in ast.walk(vf) if isinstance(n, ast.Call)
            and (dotted(n.func) or "") in FORBIDDEN]
    chk.ob("C07.vyxalify-exact", "vyxalify:no approximating call", not forb,
           "vyxalify calls an approximating function", HF,
           forb[0].lineno if forb else vf.lineno)

    chk.explanation = (
        "Clause-level: in the (num, num) arm of add, subtract, multiply, "
        "divide, modulo and integer_divide (extracted from the overload "
        "tables, following delegation to another element's arm) the result is "
        "built only from + - * % (closed and exact on int / sympy Rational), "
        "sympy.floor of an exact quotient (not `//` or divmod: sympy's are "
        "off by one on negative integral quotients), or `/` with an operand syntactically "
        "lifted to a sympy number, wrapped only by exact normalisers; no "
        "float(), math.*, sympy.N, and no nsimplify without rational=True "
        "over a quotient; divide and integer_divide are guarded by "
        "`0 if rhs == 0`; vyxalify maps Integer to int and other numbers "
        "through nsimplify(rational=True). Does not decide value equality.")
    chk.assumptions += ["numbers reaching the arms are python ints or sympy "
                        "numbers (vy_type asserts no float)"]
