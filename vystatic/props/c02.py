"""C02 - every well-formed program transpiles to Python that compiles.

Induction over the parse tree: (1) every leaf template compiles in every block
context, (2) every structure skeleton x admissible early-exit lowering compiles
in every reachable hole state (grammar closure, compile() as the witness),
(3) the generator raises for no grammar-derived shape, (4) every STRING body is
mapped into a well-formed python literal body."""

from __future__ import annotations

import ast
import io
import re
import itertools
import tokenize
import warnings

from ..core import AnalysisError, dotted
from ..grammar import Explorer, MOD_CLASSES
from ..pe import Hole
from ..templates import (Gen, GeneratorRaised, STRUCT_CLASSES,
                         table_keys_with_nodes)

level = "other"

CONTEXT_DEPENDENT = (ast.Return, ast.Break, ast.Continue, ast.Yield,
                     ast.YieldFrom, ast.Global, ast.Nonlocal, ast.Await)


def free_context_statements(tree):
    """Statements that are only legal inside a loop/def and are not enclosed
    by a loop/def of the template itself."""
    out = []

    def walk(stmts, in_loop, in_def):
        for st in stmts:
            if isinstance(st, (ast.Break, ast.Continue)) and not in_loop:
                out.append(st)
            elif isinstance(st, ast.Return) and not in_def:
                out.append(st)
            elif isinstance(st, (ast.Global, ast.Nonlocal)):
                out.append(st)
            if isinstance(st, ast.FunctionDef):
                walk(st.body, False, True)
                continue
            if not in_def:
                for n in ast.walk(st):
                    if isinstance(n, (ast.Yield, ast.YieldFrom, ast.Await)):
                        out.append(n)
            if isinstance(st, (ast.For, ast.While)):
                walk(st.body, True, in_def)
                walk(st.orelse, in_loop, in_def)
            else:
                for f in ("body", "orelse", "finalbody"):
                    walk(getattr(st, f, []) or [], in_loop, in_def)
                for hd in getattr(st, "handlers", []) or []:
                    walk(hd.body, in_loop, in_def)
    walk(tree.body, False, False)
    return out


def multiline_string_tokens(text):
    bad = []
    try:
        for tok in tokenize.generate_tokens(io.StringIO(text).readline):
            if tok.type in (tokenize.STRING, getattr(tokenize, "FSTRING_MIDDLE",
                                                    -1)) \
                    and tok.start[0] != tok.end[0]:
                bad.append(tok.string[:30])
    except (tokenize.TokenError, IndentationError, SyntaxError):
        pass
    return bad


def compiles(text):
    try:
        with warnings.catch_warnings():
            warnings.simplefilter("ignore")
            compile(text, "<template>", "exec")
        return None
    except SyntaxError as exc:
        return f"{exc.msg} (line {exc.lineno}: {(exc.text or '').strip()})"
    except ValueError as exc:
        return f"ValueError: {exc}"


def in_block(text, indent):
    head = ""
    for i in range(indent):
        head += "    " * i + "if 1:\n"
    return head + text


def literal_body_ok(body: str):
    """DFA of python \"...\" literal bodies: no bare quote, no raw newline /
    carriage return / NUL, even backslash parity at the end."""
    esc = False
    for ch in body:
        if esc:
            esc = False
            if ch in "\n\r":
                return False, "backslash-newline continuation"
            continue
        if ch == "\\":
            esc = True
        elif ch == '"':
            return False, "bare double quote"
        elif ch in "\n\r":
            return False, "raw line break"
        elif ch == "\0":
            return False, "NUL character"
    if esc:
        return False, "dangling backslash would escape the closing quote"
    return True, ""


def check(chk, repo, tier):
    gen = Gen(repo)
    EF = repo.mod("elements").rel
    TF = repo.mod("transpile").rel
    chk.trusted_base += ["CPython compile() as the syntax oracle",
                         "textwrap.indent", "vystatic.pe interpreter subset"]

    # ---- (1) leaves: every table entry, every indent context ----------------
    entries = table_keys_with_nodes(repo, "elements")
    chk.floor("element table entries", len(entries), 300)
    elems = gen.elements()
    n_leaf = 0
    for key, knode, vnode in entries:
        val = elems.get(key)
        cons = f"elements[{key!r}]"
        if not (isinstance(val, tuple) and len(val) == 2
                and isinstance(val[0], str)):
            chk.ob("C02.leaf-shape", cons, False,
                   f"table value is not a (code, arity) pair: {val!r}", EF,
                   knode.lineno)
            continue
        if not isinstance(val[1], int) or isinstance(val[1], bool):
            chk.ob("C02.leaf-shape", cons, False,
                   f"arity {val[1]!r} is not an integer (it is pasted into "
                   "generated code by lambda_wrap)", EF, knode.lineno)
        for indent in (0, 1, 2):
            try:
                text = gen.transpile_token(gen.token("GENERAL", key), indent)
            except GeneratorRaised as exc:
                chk.ob("C02.generator-accepts", cons, False,
                       f"transpile_token raised {exc}", EF, knode.lineno,
                       witness=key)
                break
            err = compiles(in_block(text, indent))
            n_leaf += 1
            chk.ob("C02.leaf-compiles", cons, err is None,
                   f"template does not compile at indent {indent}: {err}",
                   EF, knode.lineno, witness=key,
                   sample={"key": key, "indent": indent} if indent == 1
                   else None)
            if err:
                break
            # directly followed by another statement, and as the only
            # statement of a block
            err2 = compiles(in_block(text + "\n" + text, indent))
            chk.ob("C02.leaf-composes", cons, err2 is None,
                   f"template followed by itself does not compile: {err2}",
                   EF, knode.lineno, witness=key + key)
        else:
            text0 = gen.transpile_token(gen.token("GENERAL", key), 0)
            tree = ast.parse(text0)
            free = free_context_statements(tree)
            chk.ob("C02.leaf-context-free", cons, not free,
                   "template contains a statement that is only legal inside a "
                   "loop/def: " + ", ".join(type(f).__name__ for f in free),
                   EF, knode.lineno, witness=key)
            ml = multiline_string_tokens(text0)
            chk.ob("C02.leaf-no-multiline-string", cons, not ml,
                   f"string literal spanning lines would be corrupted by "
                   f"indentation: {ml}", EF, knode.lineno, witness=key)
    chk.unit("leaf compile witnesses", n_leaf)
    # unknown GENERAL token
    t = gen.transpile_token(gen.token("GENERAL", "\x00unknown"), 1)
    chk.ob("C02.leaf-compiles", "GENERAL/<not in table>",
           compiles(in_block(t, 1)) is None, "default template broken", TF)

    # ---- token kinds -----------------------------------------------------------
    token_kind_templates(chk, gen, None, TF, tier)

    # ---- (4) STRING transducer --------------------------------------------------
    string_transducer(chk, gen, TF, tier)

    # ---- (2)+(3) structure skeletons in every reachable hole state ------------
    ex = Explorer(repo, tier, gen).explore()
    chk.unit("hole states", len(ex.states))
    chk.unit("shapes", len(ex.shapes))
    chk.unit("generated texts", len(ex.cache))
    chk.unit("state x text evaluations", ex.n_evaluated)
    chk.unit("loop-nesting states cut by the uniformity bound", ex.capped)
    chk.floor("hole states", len(ex.states), 20)
    for rec in ex.records:
        cons = rec.construct()
        if rec.result.raised is not None:
            chk.ob("C02.generator-accepts", cons, False,
                   f"the generator raised {rec.result.raised} for a "
                   f"grammar-derived shape ({rec.shape.label})", TF,
                   witness=rec.witness)
            continue
        if rec.inherited:
            continue
        v = rec.verdict
        chk.ob("C02.skeleton-compiles", cons, v.compile_error is None,
               f"{v.compile_error} in state [{rec.state.describe()}], shape "
               f"{rec.shape.label}", TF, witness=rec.witness,
               sample={"state": rec.state.describe(),
                       "shape": rec.shape.label, "hole": rec.hole,
                       "probe": rec.probe})
    indent_uniformity(chk, gen, ex, TF)
    # parameter value language of named functions
    function_parameters(chk, repo, gen, TF)
    # coverage of the generator: every return of the transpile functions must
    # have been reached by some instantiation
    generator_coverage(chk, repo, gen)

    if tier == "thorough":
        composition_crosscheck(chk, repo, gen, ex, TF)

    chk.explanation = (
        "Decides syntactic validity of the generated Python for all programs "
        "by induction on the parse tree: every table template is compiled in "
        "three block contexts and shown context-free; every structure "
        "skeleton (extracted by interpreting the current transpile.py on "
        "symbolic branches) is compiled with every admissible break/recurse "
        "lowering in every reachable hole state (fixpoint over parse parent x "
        "python def/loop context); the STRING escaping loop is checked as a "
        "transducer into the DFA of python literal bodies. Branch counts are "
        "unrolled to 5 (quick) / 8 (thorough); loop nesting inside one def to "
        "2 / 3 (uniform beyond). Does not decide programs outside the "
        "statement's grammar (modifier without operands, λ|…; with empty "
        "arity branch).")
    chk.assumptions += [
        "holes are filled only by texts that themselves satisfy the rule "
        "(induction hypothesis)",
        "the parser hands parents to branches only through the recursive "
        "parse(...) calls recognised by ParseRelation (else exit 2)",
    ]


# ---------------------------------------------------------------------------


def number_values(max_len):
    """All NUMBER token values up to max_len the lexer can produce."""
    out = []
    for n in range(1, max_len + 1):
        for tup in itertools.product("07.°", repeat=n):
            s = "".join(tup)
            if s.count("°") >= 2:
                continue
            if any(p.count(".") >= 2 for p in s.split("°")):
                continue
            if s[0] == "0" and len(s) > 1 and s[1] not in "°.":
                continue
            out.append(s)
    return out


def token_kind_templates(chk, gen, lm, TF, tier):
    kinds = gen.kinds()
    chk.floor("token kinds", len(kinds), 9)
    samples = {
        "NUMBER": number_values(4 if tier == "thorough" else 3),
        "GENERAL": [],
        "COMPRESSED_NUMBER": ["", "a", "λƛ", "\n", '"', "\\"],
        "COMPRESSED_STRING": ["", "a", "λƛ", "\n", '"', "\\", "'"],
        "VARIABLE_GET": ["", "x", "_", "_x", "ab_C", "__"],
        "VARIABLE_SET": ["", "x", "_", "_x", "ab_C", "__"],
        "CODEPAGE_NUMBER": ["a", '"', "\n", "\\", "λ", "'"],
        "CHARACTER": ["a", '"', "\n", "\\", "λ", "'", "`"],
        "STRING": [],  # handled by the transducer
    }
    # variable names as the current lexer can produce them, in either of its
    # modes (one representative per character class beyond the identifier
    # characters; a few adversarial ones if the language is unrestricted)
    from ..lexprobe import LexProbe, ANYSET
    lp = LexProbe(gen.repo, gen.it)
    ident = set("abcdefghijklmnopqrstuvwxyzABCDEFGHIJKLMNOPQRSTUVWXYZ_")
    for k in ("VARIABLE_GET", "VARIABLE_SET"):
        alpha = lp.alphabet(k)
        extra = ["+", "(", ",", '"', "λ"] if alpha is ANYSET else sorted(
            alpha - ident)[:12]
        samples[k] = samples[k] + extra + ["x" + e for e in extra[:4]]
    for k in kinds:
        if k not in samples:
            # a kind this table does not know: its values are whatever the
            # probed lexer puts into tokens of that kind, plus - when the
            # kind takes arbitrary text - the payloads that matter to a
            # python string / identifier context
            seen = []
            for res in lp._cache.values():
                if isinstance(res, list):
                    for kk, vv in res:
                        if kk == k and vv not in seen:
                            seen.append(vv)
            alpha = lp.alphabet(k)
            adversarial = ["", "a", "λƛ", "\n", '"', "\\", "'", "a\\",
                           '\\"', "{", "%s"] if alpha is ANYSET else []
            samples[k] = seen[:400] + [a for a in adversarial
                                       if a not in seen]
            if not seen:
                # no short probe builds this kind: look behind the digraph
                # heads (new two-character openers) with a longer tail; the
                # values are still exactly what the lexer produces
                o = lp.other
                dig = [h for h in lp.reps
                       if lp.run(h + o) == [("GENERAL", h + o)]]
                for h in dig:
                    for a in lp.reps:
                        for t in ("x", "xy", "_x", ""):
                            res = lp.run(h + a + t)
                            if isinstance(res, list):
                                for kk, vv in res:
                                    if kk == k and vv not in seen:
                                        seen.append(vv)
                samples[k] = seen[:400]
            chk.info("C02.token-compiles", f"token/{k}",
                     f"token kind {k} is not in the value table: "
                     f"{len(samples[k])} values taken from the probed lexer"
                     + (" and the free-text payload classes"
                        if alpha is ANYSET else ""))
        for val in samples[k]:
            for dc in (True, False):
                cons = f"token/{k}"
                try:
                    text = gen.transpile_token(gen.token(k, val), 1,
                                               dict_compress=dc)
                except GeneratorRaised as exc:
                    chk.ob("C02.generator-accepts", cons, False,
                           f"transpile_token raised {exc} for value {val!r}",
                           TF, witness=val)
                    continue
                err = compiles(in_block(text, 1))
                chk.ob("C02.token-compiles", cons, err is None,
                       f"value {val!r}: {err}", TF, witness=val,
                       sample={"kind": k, "value": val})


def string_values(reps, maxlen):
    """The STRING value language of the lexer over class representatives:
    back-quoted strings are sequences of units (a non-backslash, non-backquote
    character, or a backslash followed by any character); two-character
    strings are any string of length <= 2."""
    plain = [c for c in reps if c not in "\\`"]
    units = plain + ["\\" + c for c in reps]
    out = {""}
    frontier = [""]
    for _ in range(maxlen):
        nxt = []
        for s in frontier:
            for u in units:
                t = s + u
                if len(t) <= maxlen and t not in out:
                    out.add(t)
                    nxt.append(t)
        frontier = nxt
    for a in reps:
        out.add(a)
        for b2 in reps:
            out.add(a + b2)
    return sorted(out, key=lambda x: (len(x), x))


def escape_class(value, err=""):
    """why a STRING value cannot be a python literal body when the backslash
    pairs are passed through: an incomplete \\x \\u \\U \\N escape, or a raw
    carriage return (None: some other reason)"""
    i = 0
    while i < len(value):
        if value[i] == "\\" and i + 1 < len(value):
            c = value[i + 1]
            need = {"x": 2, "u": 4, "U": 8}.get(c)
            if need is not None:
                digits = value[i + 2:i + 2 + need]
                if len(digits) < need or any(
                        d not in "0123456789abcdefABCDEF" for d in digits):
                    return f"incomplete \\{c} escape"
            if c == "N":
                return "incomplete \\N escape"
            i += 2
            continue
        i += 1
    if "\r" in value and "unicodeescape" not in err:
        return "raw carriage return"
    return None


def string_transducer(chk, gen, TF, tier):
    """Class-exhaustive check of the STRING escaping loop."""
    enc = gen.it.module("vyxal.encoding")
    comp = enc.get("compression")
    # classes of the *input* (escape, delimiter, compression characters) and
    # of the *output* language: in a python literal x u U N after a backslash
    # demand hex digits / a name, a raw carriage return ends the line
    reps = ["\\", "`", '"', "'", "\n", "a", "n", " ", comp[0], comp[-1],
            "{", "0"]
    maxlen = 4 if tier == "thorough" else 3
    vals = string_values(reps if tier == "thorough" else reps[:9], maxlen)
    py = ["x", "u", "U", "N", "\r", "g", "0", "{", "}"]
    seen = set(vals)
    for k in (1, 2, 3):
        for t in itertools.product(["\\", "a"] + py, repeat=k):
            v = "".join(t)
            if any(c in v for c in py[:5]) and v not in seen and not (
                    len(v) - len(v.rstrip("\\"))) % 2:
                seen.add(v)
                vals.append(v)
    # the dictionary decoder distinguishes compression characters by their
    # position (short-dictionary range or not, pair value in range or not):
    # every character alone / before a plain one, and all strings <= 3 over
    # the boundary positions
    try:
        n_small = len(gen.it.module("vyxal.dictionary").get(
            "small_dictionary"))
    except Exception:  # noqa: BLE001
        n_small = len(comp) // 2
    edge = sorted({comp[0], comp[min(n_small, len(comp)) - 1],
                   comp[min(n_small, len(comp) - 1)], comp[-1]})
    extra = set()
    for c in comp:
        extra |= {c, c + "a", c + " ", "\\" + c, c + "\\a"}
    alpha = edge + ["a", " ", "\\"]
    for k in (1, 2, 3):
        for t in itertools.product(alpha, repeat=k):
            extra.add("".join(t))
    extra = sorted(x for x in extra
                   if not (len(x) - len(x.rstrip("\\"))) % 2)
    n = 0
    for dc in (False, True):
        for s in (vals + [x for x in extra if x not in set(vals)]
                  if dc else vals):
            n += 1
            cons = ("token/STRING/dict_compress" if dc
                    else "token/STRING/raw")
            try:
                text = gen.transpile_token(gen.token("STRING", s), 1,
                                           dict_compress=dc)
            except GeneratorRaised as exc:
                chk.ob("C02.generator-accepts", cons, False,
                       f"transpile_token raised {exc} for {s!r}", TF,
                       witness=s)
                continue
            err = compiles(in_block(text, 1))
            spelled = ("`" + s + "`") if len(s) != 2 else ("‛" + s)
            why = escape_class(s, err) if err else None
            if why:
                cons = f"{cons}:{why}"
            chk.ob("C02.string-literal-wellformed", cons, err is None,
                   f"STRING value {s!r} is emitted as {text.strip()!r}: "
                   f"{err}", TF, witness=spelled,
                   sample={"value": s, "emitted": text.strip()}
                   if len(s) == 2 else None)
    chk.unit("STRING values through the escaping loop", n)


def function_parameters(chk, repo, gen, TF):
    """Parameter strings that parse.process_parameters can hand to the
    FunctionDef template: numeric by str.isnumeric, '*', or a sanitised
    name; one representative per character the sanitiser keeps."""
    # the parameter language, by interpreting the current
    # parse.process_parameters on one-character parameters
    pparse = gen.it.module("vyxal.parse")
    try:
        proc = pparse.get("process_parameters")
    except KeyError:
        raise AnalysisError(
            "anchor vanished: parse.process_parameters") from None
    enc = gen.it.module("vyxal.encoding")
    codepage = enc.get("codepage")
    cands = []
    kept_odd = []
    for ch in list(codepage) + ["é", "٣", "\u2028"]:
        if ch in ":":
            continue
        gen.it.steps = 0
        try:
            _, params = proc([gen.token("GENERAL", "f:a" + ch + "b")])
            _, single = proc([gen.token("GENERAL", "f:" + ch)])
        except Exception as exc:  # noqa: BLE001
            chk.ob("C02.generator-accepts", "process_parameters", False,
                   f"process_parameters raised {exc} on parameter text "
                   f"{'a' + ch + 'b'!r}", TF, witness=f"@f:a{ch}b|1;")
            continue
        if params and ch in params[0] and not (ch.isalnum() or ch == "_"):
            kept_odd.append(ch)
            cands.append(("name", params[0]))
        if single and single[0] == ch and not ch.isascii():
            cands.append(("numeric", ch))
        elif single and single[0] == ch and ch.isdigit():
            cands.append(("numeric", ch))
    chk.unit("non-identifier characters process_parameters keeps",
             "".join(kept_odd))
    cands += [("name", ""), ("name", "ab"), ("numeric", "12"), ("star", "*"),
              ("numeric", "0"), ("numeric", "00"), ("numeric", "02"),
              ("numeric", "007")]
    for kind, p in cands:
        cons = f"FunctionDef/parameter/{kind}"
        try:
            st = gen.struct("FunctionDef", "f", [p], Hole("body"))
            text = gen.transpile_ast([st], 0)
        except GeneratorRaised as exc:
            chk.ob("C02.generator-accepts", cons, False,
                   f"parameter {p!r} (accepted by process_parameters): the "
                   f"generator raised {exc}", TF, witness=f"@f:{p}|1;")
            continue
        err = compiles(text)
        chk.ob("C02.skeleton-compiles", cons, err is None,
               f"parameter {p!r}: {err}", TF, witness=f"@f:{p}|1;",
               sample={"parameter": p})
    # API-mismatch lint: str.isnumeric() guarding int()
    for modname in ("parse", "transpile"):
        mod = repo.mod(modname)
        for fn in mod.functions.values():
            for n in ast.walk(fn):
                if isinstance(n, ast.If):
                    for t in ast.walk(n.test):
                        if isinstance(t, ast.Call) and isinstance(
                                t.func, ast.Attribute) \
                                and t.func.attr == "isnumeric":
                            subj = ast.unparse(t.func.value)
                            uses_int = any(
                                isinstance(c, ast.Call)
                                and isinstance(c.func, ast.Name)
                                and c.func.id == "int" and c.args
                                and ast.unparse(c.args[0]) == subj
                                for b in n.body for c in ast.walk(b))
                            if uses_int:
                                chk.ob(
                                    "C02.isnumeric-guards-int",
                                    f"{modname}.{fn.name}/{subj}", False,
                                    f"`{subj}.isnumeric()` guards "
                                    f"`int({subj})`, but isnumeric accepts "
                                    "characters int() rejects (², ½, ...); "
                                    "str.isdecimal is the matching guard",
                                    mod.rel, n.lineno, witness="@f:²|1;")


def regex_kept_chars(pattern: str) -> set[str]:
    """Characters kept by re.sub(pattern, '', s) when pattern is one negated
    class."""
    import re._parser as sre  # noqa: PLC0415
    import re._constants as sc  # noqa: PLC0415
    parsed = sre.parse(pattern)
    if len(parsed) != 1 or parsed[0][0] != sc.IN:
        raise AnalysisError(f"sanitiser regex is not a single class: {pattern}")
    items = parsed[0][1]
    if not items or items[0][0] != sc.NEGATE:
        raise AnalysisError(f"sanitiser regex is not negated: {pattern}")
    kept = set()
    for op, arg in items[1:]:
        if op == sc.LITERAL:
            kept.add(chr(arg))
        elif op == sc.RANGE:
            kept.update(chr(c) for c in range(arg[0], arg[1] + 1))
        elif op == sc.CATEGORY:
            raise AnalysisError(f"category escape in sanitiser: {pattern}")
        else:
            raise AnalysisError(f"unsupported regex item in {pattern}")
    return kept


def generator_coverage(chk, repo, gen):
    """Every `return` of the transpile functions was reached by some
    instantiation; otherwise a new arm exists that no shape covers."""
    # dead arms today: lowering arms for parents the parser never produces are
    # exercised here only for coverage
    for cls in STRUCT_CLASSES + [None]:
        for which in ("BreakStatement", "RecurseStatement"):
            try:
                gen.transpile_ast([gen.struct(which, gen.cls(cls))], 1)
            except GeneratorRaised:
                pass
    try:  # lambda_wrap's multi-structure arm (no caller passes >1 today)
        gen.lambda_wrap([gen.hole_struct("a"), gen.hole_struct("b")])
        gen.lambda_wrap([gen.struct("RecurseStatement", None)])
    except GeneratorRaised:
        pass
    mod = repo.mod("transpile")
    missing = []
    total = 0
    for fname in ("transpile_ast", "transpile_single", "transpile_token",
                  "transpile_structure", "transpile_lambda", "lambda_wrap"):
        fn = mod.function(fname)
        for n in ast.walk(fn):
            if isinstance(n, ast.Return):
                total += 1
                if ("vyxal.transpile", fname, n.lineno) not in \
                        gen.it.return_hits:
                    missing.append(f"{fname}:{n.lineno}")
    chk.unit("generator return statements reached", total - len(missing))
    if missing:
        raise AnalysisError(
            "generator arms not reached by any instantiation (new structure "
            "kind or arm?): " + ", ".join(missing))


def block_body(text, indent):
    """statements of `text` (emitted at `indent`) as an ast dump, or the
    syntax error"""
    fresh: dict[str, str] = {}
    text = re.sub(r"(?i)hex[0-9]{4,}",
                  lambda m: fresh.setdefault(m.group().lower(),
                                             f"fresh{len(fresh)}"),
                  text)  # the interpreter's secrets/uuid stand-ins count up
    try:
        with warnings.catch_warnings():
            warnings.simplefilter("ignore")
            tree = ast.parse(in_block(text, indent))
    except SyntaxError as exc:
        return None, f"{exc.msg} (line {exc.lineno})"
    body = tree.body
    for _ in range(indent):
        if len(body) != 1 or not isinstance(body[0], ast.If):
            return None, "the text leaves the block it was emitted into"
        body = body[0].body
    return [ast.dump(b) for b in body], None


def indent_uniformity(chk, gen, ex, TF):
    """The fixpoint composes texts generated at indent 0; that is only an
    argument about nested programs if a skeleton emitted at indent k is the
    same statement list, k blocks deep."""
    n = 0
    for sh in ex.shapes:
        try:
            base = gen.transpile_ast([sh.build(gen, {})], 0)
        except GeneratorRaised:
            continue  # reported by generator-accepts
        want, err0 = block_body(base, 0)
        if want is None:
            continue  # reported by skeleton-compiles
        for k in (1, 2, 3):
            cons = f"{sh.label}@indent{k}"
            try:
                text = gen.transpile_ast([sh.build(gen, {})], k)
            except GeneratorRaised as exc:
                chk.ob("C02.generator-accepts", cons, False,
                       f"the generator raised {exc} at indent {k}", TF,
                       witness=shape_witness(sh, k))
                break
            got, err = block_body(text, k)
            n += 1
            ok = got == want
            chk.ob("C02.indent-uniform", cons, ok,
                   f"{sh.label} emitted inside {k} enclosing block(s) "
                   + (f"does not compile: {err}" if got is None else
                      "is a different statement list than at top level"),
                   TF, witness=shape_witness(sh, k),
                   sample={"shape": sh.label, "indent": k} if k == 2 and
                   sh.label.startswith("If/3") else None)
            if not ok:
                break
    chk.unit("skeleton x indent comparisons", n)


def shape_witness(sh, k):
    """a program that puts the shape k blocks deep (for-loop bodies)"""
    if sh.holes:
        pre, post = sh.spell[sh.holes[0]]
        inner = pre + "1" + post
    else:
        inner = sh.label
    return "3(" * k + inner + ")" * k


def composition_crosscheck(chk, repo, gen, ex, TF):
    """Thorough: concrete depth-2/3 compositions compiled as whole programs;
    every failure must already be explained by a root-cause finding."""
    root_bad = set()
    for rec in ex.records:
        if rec.verdict.compile_error and not rec.inherited:
            root_bad.add((rec.shape.cls, rec.probe))
    reps = {}
    for sh in ex.shapes:
        reps.setdefault(sh.cls + ("/slot" if sh.slot_holes else ""), sh)
    shapes = list(reps.values())
    n = 0
    unexplained = 0

    def fill_of(shape, content_for_hole):
        fill = {}
        for h in shape.holes:
            c = content_for_hole(h)
            if h in shape.slot_holes:
                fill[h] = c if c is not None else gen.generic("GENERAL", "+")
            else:
                fill[h] = [c] if c is not None else []
        return fill

    leaves = [
        ("X", lambda par: gen.struct("BreakStatement", gen.cls(par))),
        ("x", lambda par: gen.struct("RecurseStatement", gen.cls(par))),
        ("+", lambda par: gen.generic("GENERAL", "+")),
    ]
    rel = ex.rel
    for s1 in shapes:
        if not s1.holes:
            continue
        p1 = ex.child_parent(s1, type("S", (), {"parent": None})())
        for s2 in shapes:
            if not s2.holes:
                continue
            st2 = type("S", (), {"parent": p1})()
            p2 = ex.child_parent(s2, st2)
            for lname, mk in leaves:
                try:
                    inner = s2.build(gen, fill_of(s2, lambda h: mk(p2)))
                    outer = s1.build(gen, fill_of(s1, lambda h: inner))
                    text = gen.transpile_ast([outer], 0)
                except GeneratorRaised:
                    continue
                n += 1
                err = compiles(text)
                if err:
                    which = {"X": "BreakStatement", "x": "RecurseStatement"
                             }.get(lname)
                    explained = any(
                        (c, f"{which}({p2})") in root_bad
                        for c in (s1.cls, s2.cls))
                    if not explained:
                        unexplained += 1
                        chk.ob("C02.composition-crosscheck",
                               f"{s1.label}>{s2.label}>{lname}", False,
                               f"composition fails to compile ({err}) but no "
                               "root-cause finding of the fixpoint explains "
                               "it", TF)
    chk.unit("depth-2 compositions compiled", n)
    chk.ob("C02.composition-crosscheck", "all depth-2 compositions",
           unexplained == 0, "see individual findings", TF,
           sample={"compositions": n})
