"""C12 - interpreter context is balanced after every construct.

JVM-verifier style height analysis of the four bookkeeping lists
(context_values, inputs, stacks, function_stack) over (a) every structure
skeleton x admissible early exit in every reachable hole state, (b) every
element / modifier template, (c) every python function of the package that
pushes or pops one of the lists."""

from __future__ import annotations

import ast

from ..core import AnalysisError, dotted
from ..grammar import Explorer
from ..heights import HeightAnalysis, CTX_LISTS, ZERO, ctx_effect_of_call
from ..templates import Gen, table_keys_with_nodes

level = "other"


def check(chk, repo, tier):
    gen = Gen(repo)
    TF = repo.mod("transpile").rel
    EF = repo.mod("elements").rel
    chk.trusted_base += ["CPython ast", "vystatic.pe interpreter subset",
                         "vystatic.heights structured-CFG height analysis"]

    # (a) skeletons ------------------------------------------------------------
    ex = Explorer(repo, tier, gen).explore()
    chk.unit("hole states", len(ex.states))
    chk.unit("shapes", len(ex.shapes))
    chk.unit("state x text evaluations", ex.n_evaluated)
    chk.floor("hole states", len(ex.states), 20)
    push_sites = 0
    for r in ex.cache.values():
        if r.tree is not None and r is ex.cache.get((None,)):
            pass
    seen_sk = set()
    for rec in ex.records:
        if rec.probe == "skeleton" and rec.result.tree is not None \
                and rec.shape.label not in seen_sk:
            seen_sk.add(rec.shape.label)
            for n in ast.walk(rec.result.tree):
                if isinstance(n, ast.Call):
                    eff = ctx_effect_of_call(n)
                    if eff and eff[1] > 0:
                        push_sites += 1
    chk.floor("ctx push sites in structure skeletons", push_sites, 9)
    for rec in ex.records:
        if rec.result.text is None or rec.verdict.compile_error:
            continue  # C02's business
        if rec.inherited:
            continue
        cons = rec.construct()
        if not rec.verdict.issues:
            chk.ob("C12.balance", cons, True, sample={
                "state": rec.state.describe(), "shape": rec.shape.label,
                "hole": rec.hole, "probe": rec.probe})
            continue
        for iss in rec.verdict.issues:
            for lst in iss.lists:
                chk.ob("C12.balance", f"{cons}/{iss.kind}/{lst}", False,
                       f"{iss.detail} in state [{rec.state.describe()}], "
                       f"shape {rec.shape.label}", TF, witness=rec.witness)

    # (b) leaf templates ----------------------------------------------------------
    elems = gen.elements()
    for key, knode, _ in table_keys_with_nodes(repo, "elements"):
        val = elems.get(key)
        if not (isinstance(val, tuple) and isinstance(val[0], str)):
            continue
        leaf_balance(chk, f"elements[{key!r}]", val[0], EF, knode.lineno, key)
    for key, knode, _ in table_keys_with_nodes(repo, "modifiers"):
        val = gen.modifiers().get(key)
        if isinstance(val, str):
            leaf_balance(chk, f"modifiers[{key!r}]", val, EF, knode.lineno,
                         key)
    # every token-kind template
    for k in gen.kinds():
        for v in ("a", "", "_a", "1"):
            try:
                text = gen.transpile_token(gen.token(k, v), 0)
            except Exception:  # noqa: BLE001 - C02 reports generator failures
                continue
            leaf_balance(chk, f"token/{k}", text, TF, None, v)

    # (c) python functions that push/pop a bookkeeping list ------------------------
    n_fn = 0
    for modname in repo.package_modules():
        if modname.endswith(".dictionary"):
            continue
        mod = repo.mod(modname)
        for fn, qual in all_functions(mod.tree):
            names = ctx_param_names(fn)
            sites = [n for n in own_nodes(fn) if isinstance(n, ast.Call)
                     and ctx_effect_of_call(n, names)]
            raw = [n for n in own_nodes(fn)
                   if isinstance(n, (ast.Assign, ast.AugAssign))
                   and any(isinstance(t, ast.Attribute)
                           and t.attr in CTX_LISTS
                           and (dotted(t.value) or "").split(".")[0] in names
                           for t in (n.targets if isinstance(n, ast.Assign)
                                     else [n.target]))]
            if not sites and not raw:
                continue
            n_fn += 1
            driver = creates_context(fn)
            ha = HeightAnalysis(ctx_names=names)
            ha.run_function(fn)
            cons = f"python:{modname.split('.')[-1]}.{qual}"
            issues = [i for i in ha.issues
                      if not (driver and i.kind in ("fallthrough", "return",
                                                    "raw-write"))]
            if driver:
                chk.info("C12.python-balance", cons,
                         "creates the Context itself; its registrations and "
                         "attribute initialisations are the initial depth "
                         "(frozen exemption: exits/raw stores are not "
                         "checked, loops inside are)")
            if not issues:
                chk.ob("C12.python-balance", cons, True,
                       sample={"function": cons, "sites": len(sites)})
            for iss in issues:
                for lst in iss.lists:
                    chk.ob("C12.python-balance", f"{cons}/{iss.kind}/{lst}",
                           False, iss.detail, mod.rel, iss.lineno,
                           witness=PY_WITNESS.get(cons))
    chk.floor("python functions touching bookkeeping lists", n_fn, 3)
    n_sw = 0
    for modname in repo.package_modules():
        if modname.endswith(".dictionary"):
            continue
        mod = repo.mod(modname)
        for st in mod.tree.body:
            if isinstance(st, (ast.FunctionDef, ast.ClassDef)):
                n_sw += swallowed_failures(
                    chk, f"python:{modname.split('.')[-1]}.{st.name}", st,
                    mod.rel)
    chk.unit("broad exception handlers examined", n_sw)

    stray_stopiteration(chk, repo)

    chk.explanation = (
        "Decides, for all programs, that every normally terminating construct "
        "restores the depth of the four bookkeeping lists: each structure "
        "skeleton (extracted from the current transpile.py) is analysed with "
        "every admissible break/recurse lowering in every reachable hole "
        "state (fixpoint over parse parent x python def/loop context x "
        "heights since def/loop entry); heights must agree at merges, at loop "
        "back-edges, at break/continue (loop-entry height), at return / "
        "fall-through of every def (zero) and at the skeleton's exit (entry "
        "height). The same analysis covers every table template and every "
        "python function that pushes/pops a list. By induction the depth is "
        "unchanged at every statement boundary outside loops/lambdas. "
        "Exception edges are excluded ('finishes normally') - except "
        "StopIteration, which builtin map/filter and LazyList.__next__ take "
        "for the end of the data: element code must not let it escape "
        "(every one-argument next() outside a generator is under a handler).")
    chk.assumptions += [
        "the lists are only resized through ctx.<list>.append(..)/pop(); any "
        "other resize is itself reported (raw-write)",
        "holes are height-neutral on fall-through (induction hypothesis)",
    ]


LAZY_DRIVERS = {"map", "filter", "itertools.takewhile", "itertools.dropwhile",
                "itertools.filterfalse", "itertools.starmap",
                "itertools.accumulate", "itertools.groupby", "takewhile",
                "dropwhile", "filterfalse", "starmap", "accumulate",
                "groupby"}


def calls_user_function(fexpr, params):
    """does the callable handed to a lazy driver run a Vyxal function?
    (safe_apply(...), or a direct call of one of the enclosing function's
    value parameters)"""
    for m in ast.walk(fexpr):
        if isinstance(m, ast.Call):
            d = (dotted(m.func) or "").split(".")[-1]
            if d == "safe_apply":
                return True
            if isinstance(m.func, ast.Name) and m.func.id in params:
                return True
    if isinstance(fexpr, ast.Name) and fexpr.id in params:
        return True
    return False


def stray_stopiteration(chk, repo):
    """A lambda body that raises StopIteration does not abort the program
    when the iterator that drives it is a builtin map / filter / itertools
    object: that object ends quietly, the program finishes normally, and the
    lambda's four pushes are never undone.  Inside a generator (function or
    expression) PEP 479 turns it into RuntimeError.  Two rules: (1) Vyxal
    functions are driven lazily only from generator frames; (2) if some driver
    is unprotected, every place element code can raise StopIteration
    (one-argument next(), .__next__(), raise) outside a generator is reported
    too."""
    unprotected = []
    n_drv = 0
    for modname in ("elements", "helpers", "LazyList"):
        mod = repo.mod(modname)
        for fn, qual in all_functions(mod.tree):
            params = {a.arg for a in fn.args.args if a.arg not in ("ctx",
                                                                   "self")}
            for n in own_nodes(fn):
                if not (isinstance(n, ast.Call) and (dotted(n.func) or "")
                        in LAZY_DRIVERS and n.args):
                    continue
                short = (dotted(n.func) or "").split(".")[-1]
                pos = 1 if short in ("accumulate", "groupby") else 0
                cands = list(n.args[pos:pos + 1]) + [
                    k.value for k in n.keywords if k.arg in ("key", "func")]
                if not any(calls_user_function(c, params) for c in cands):
                    continue
                n_drv += 1
                # protected: consumed inside a generator frame of this function
                cur = getattr(n, "_parent", None)
                prot = False
                while cur is not None and cur is not fn:
                    if isinstance(cur, ast.GeneratorExp):
                        prot = True
                    cur = getattr(cur, "_parent", None)
                own = list(own_nodes(fn))
                if any(isinstance(x, (ast.Yield, ast.YieldFrom)) for x in own):
                    prot = True
                cons = f"{modname}.{qual}:{ast.unparse(n)[:50]}"
                if not prot:
                    unprotected.append(cons)
                chk.ob("C12.lambda-driver-protected", cons, prot,
                       f"`{ast.unparse(n)[:60]}` runs a Vyxal function from a "
                       f"builtin {dotted(n.func)} object: a StopIteration "
                       "escaping from the function is taken for the end of "
                       "the data - the program finishes normally with a "
                       "truncated list and the lambda's bookkeeping entries "
                       "still pushed", mod.rel, n.lineno,
                       witness="⟨3|4⟩ λ_ ⟨⟩ ⟨1|2⟩ •;F  ends at (2,2,2,1)")
    chk.unit("lazy drivers of Vyxal functions examined", n_drv)
    if n_drv == 0:
        chk.ob("C12.lambda-driver-protected", "elements/helpers/LazyList",
               True, sample="no builtin map/filter/itertools object drives "
                            "a Vyxal function; generator frames do")

    n_sites = 0
    for modname in ("elements", "helpers", "LazyList"):
        mod = repo.mod(modname)
        for fn, qual in all_functions(mod.tree):
            nodes = list(own_nodes(fn))
            if any(isinstance(n, (ast.Yield, ast.YieldFrom)) for n in nodes):
                continue
            if qual.endswith("__next__"):
                continue  # the iterator protocol itself
            for n in nodes:
                bad = None
                if isinstance(n, ast.Call) and isinstance(n.func, ast.Name) \
                        and n.func.id == "next" and len(n.args) == 1 \
                        and not n.keywords:
                    bad = f"next({ast.unparse(n.args[0])[:30]})"
                elif isinstance(n, ast.Call) and isinstance(
                        n.func, ast.Attribute) and n.func.attr == "__next__":
                    bad = f"{ast.unparse(n)[:30]}"
                elif isinstance(n, ast.Raise) and n.exc is not None and \
                        "StopIteration" in ast.unparse(n.exc):
                    bad = "raise StopIteration"
                if bad is None:
                    continue
                n_sites += 1
                guarded = False
                child = n
                cur = getattr(n, "_parent", None)
                while cur is not None and cur is not fn:
                    if isinstance(cur, ast.Try) and any(
                            child is s for s in cur.body) and any(
                            h.type is None or any(
                                t in ast.unparse(h.type) for t in (
                                    "StopIteration", "Exception"))
                            for h in cur.handlers):
                        guarded = True
                        break
                    if isinstance(cur, (ast.GeneratorExp,)):
                        guarded = True  # runs inside a generator frame
                        break
                    child = cur
                    cur = getattr(cur, "_parent", None)
                cons = f"{modname}.{qual}:{bad}"
                if guarded or unprotected:
                    chk.ob("C12.no-stray-stopiteration", cons, guarded,
                           f"`{bad}` can raise StopIteration out of {qual} "
                           f"while {unprotected[0] if unprotected else ''} "
                           "would take it for the end of its data: the "
                           "program finishes normally and the lambda's "
                           "bookkeeping entries stay pushed", mod.rel,
                           n.lineno,
                           witness=STOP_WITNESS.get(f"{modname}.{qual}"),
                           sample={"site": f"{qual}:{bad}"})
                else:
                    chk.info("C12.no-stray-stopiteration", cons,
                             "can raise StopIteration, but every lazy driver "
                             "of Vyxal functions is a generator frame: it "
                             "surfaces as RuntimeError (the program does not "
                             "finish normally)")
    chk.unit("next()/raise StopIteration sites outside generators", n_sites)
    chk.floor("next()/raise StopIteration sites outside generators",
              n_sites, 8)


STOP_WITNESS = {
    "LazyList.LazyList.compare":
        '⟨1|2⟩ λ 0ɾ 0ɾ" s ;F  leaves (2,2,2,1) from (1,1,1,0)',
}
PY_WITNESS = {
    "python:LazyList.LazyList.output": "3ɾ, leaves (1,1,2,0) from (1,1,1,0)",
}


# calls that cannot run a Vyxal function (they convert text / numbers; they
# never iterate a lazy list): a handler that swallows their failures has
# nothing to unwind
NO_USER_CODE = {"input", "vy_eval", "eval", "str", "type", "int", "float",
                "complex", "repr", "vyxalify", "chr", "ord", "isinstance",
                "bytes", "open", "print"}
NO_USER_CODE_MODULES = {"sympy", "math", "re", "ast", "json", "string",
                        "urllib", "num2words", "mpmath", "base64", "random",
                        "traceback", "sys", "os"}


def swallowed_failures(chk, cons, scope_node, file, line_base=None):
    """A handler that catches every exception and carries on resumes the
    program after a failure that may have happened in the middle of a lambda
    body (between its pushes and its pops): it has to cut all four
    bookkeeping lists back, and cannot without naming them."""
    n = 0
    mentioned = {m.attr for m in ast.walk(scope_node)
                 if isinstance(m, ast.Attribute) and m.attr in CTX_LISTS}
    for tr in ast.walk(scope_node):
        if not isinstance(tr, ast.Try):
            continue
        for h in tr.handlers:
            ty = dotted(h.type) if h.type is not None else "BaseException"
            if ty not in ("Exception", "BaseException"):
                continue
            leaves = any(isinstance(m, ast.Raise) or (
                isinstance(m, ast.Call) and (dotted(m.func) or "") in (
                    "sys.exit", "exit", "quit", "os._exit"))
                for st in h.body for m in ast.walk(st))
            if leaves:
                continue
            risky = []
            for st in tr.body:
                for c in ast.walk(st):
                    if not isinstance(c, ast.Call):
                        continue
                    d = dotted(c.func) or ast.unparse(c.func)
                    if d in NO_USER_CODE or d.split(".")[0] in \
                            NO_USER_CODE_MODULES:
                        continue
                    if isinstance(c.func, ast.Attribute) and not isinstance(
                            c.func.value, ast.Name):
                        continue  # method of an intermediate (str) result
                    risky.append(d)
            n += 1
            if not risky:
                chk.ob("C12.swallowed-failure-unwinds", f"{cons}/try", True)
                continue
            missing = [l for l in CTX_LISTS if l not in mentioned]
            if not missing:
                chk.ob("C12.swallowed-failure-unwinds", f"{cons}/try", True)
            for lst in missing:
                chk.ob("C12.swallowed-failure-unwinds",
                       f"{cons}/except {ty}/{lst}", False,
                       f"the handler swallows any failure of "
                       f"{sorted(set(risky))[:4]} and the program carries on, "
                       f"but nothing here cuts ctx.{lst} back: a failure in "
                       "the middle of a lambda body leaves the entry that "
                       "lambda pushed", file,
                       line_base if line_base is not None else tr.lineno,
                       witness="the guarded call runs a lambda / element "
                               "that raises (e.g. random choice from ⟨⟩)")
    return n


def leaf_balance(chk, cons, text, file, line, witness):
    try:
        tree = ast.parse(text)
    except SyntaxError:
        return  # C02 reports it
    swallowed_failures(chk, cons, tree, file, line)
    ha = HeightAnalysis()
    ha.run_text(tree.body)
    if not ha.issues:
        chk.ob("C12.leaf-neutral", cons, True)
    for iss in ha.issues:
        for lst in iss.lists:
            chk.ob("C12.leaf-neutral", f"{cons}/{iss.kind}/{lst}", False,
                   iss.detail, file, line, witness=witness)


def all_functions(tree):
    out = []

    def rec(node, prefix):
        for ch in ast.iter_child_nodes(node):
            if isinstance(ch, ast.FunctionDef):
                out.append((ch, prefix + ch.name))
                rec(ch, prefix + ch.name + ".")
            elif isinstance(ch, ast.ClassDef):
                rec(ch, prefix + ch.name + ".")
            else:
                rec(ch, prefix)
    rec(tree, "")
    return out


def own_nodes(fn):
    """Nodes of fn excluding nested function bodies."""
    stack = list(ast.iter_child_nodes(fn))
    while stack:
        n = stack.pop()
        yield n
        if isinstance(n, (ast.FunctionDef, ast.Lambda)):
            continue
        stack.extend(ast.iter_child_nodes(n))


def ctx_param_names(fn):
    names = {"ctx"}
    for a in fn.args.args + fn.args.kwonlyargs:
        if a.arg in ("ctx", "context"):
            names.add(a.arg)
    return tuple(sorted(names))


def creates_context(fn):
    for n in own_nodes(fn):
        if isinstance(n, ast.Assign):
            for v in ast.walk(n.value):
                if isinstance(v, ast.Call) and dotted(v.func) in (
                        "Context", "context.Context", "vyxal.context.Context"):
                    return True
    return False
