"""C08 - vectorising elements act element-wise (structural clauses).

(S) every `vectorise(F, args...)` call in the element library is a *conformant
    self fallback* - F is the innermost enclosing named function and the
    arguments are its value parameters, bare, in declaration order - or a
    reviewed exception; every function of the frozen instance list still has
    such a fallback;
(K) the overload table of a frozen instance claims no new kind tuple that
    contains a list (a new list arm stops the element acting element-wise);
(L) eager/lazy symmetry: where a lazy list reaches the vectorise fallback, an
    eager list must reach it too (no arm keyed `list` without a `LazyList`
    twin unless the types were taken with simple=True);
(H) the vectorise helper pairs arguments as documented: scalars are held
    fixed, list-kinded parameters are iterated, two lists go through vy_zip
    (zero fill, never the truncating builtin zip), argument order is kept,
    eager and lazy lists share one kind."""

from __future__ import annotations

import ast
import json
import os

from ..core import AnalysisError, VERIF_ROOT, dotted, enclosing_function

level = "other"

DATA = os.path.join(VERIF_ROOT, "vystatic", "data", "c08_instances.json")

# vectorise calls that deliberately name another function or transform an
# argument first (reviewed; one reason each): (enclosing function, callee)
EXCEPTIONS = {
    ("vy_bin", "vy_bin"): "str arm maps code points first: "
                          "vectorise(vy_bin, wrapify(chr_ord(lhs)))",
    ("chr_ord", "chr_ord"): "str arm vectorises over the characters",
    ("vy_exec", "helper"): "nested helper is the reciprocal; it recurses on "
                           "itself",
    ("function_call", "vectorised_not"): "list overload of † is a different "
                                         "element by documentation",
    ("vy_bin", "negate"): "number arm: negates every binary digit of a "
                          "negative number (temp is a fresh digit list, not "
                          "the argument)",
}


# list-kinded overloads of documented-vectorising elements that the
# documentation itself lists as overloads (reviewed)
DOCUMENTED_LIST_OVERLOADS = {
    ("log_mold_multi", "(list, list)"): "• on two lists is 'mold a to the "
                                        "shape of b' (documented overload)",
    ("modulo", "(str, list)"): "% with a string and a list is string "
                               "formatting (documented overload)",
    ("zero_slice", "(ts[0], NUMBER_TYPE)"): "Ẏ slices its list operand "
                                            "(documented overload any-num)",
    ("zero_slice", "(NUMBER_TYPE, ts[1])"): "same, operands swapped",
    ("one_slice", "(ts[0], NUMBER_TYPE)"): "Ż slices its list operand "
                                           "(documented overload any-num)",
    ("one_slice", "(NUMBER_TYPE, ts[1])"): "same, operands swapped",
}


REVIEWED_SHORTCUTS: dict = {}


def wildcard_keys(fn):
    """dispatch keys like `(ts[0], str)`: the wildcard position also matches
    list / LazyList, so that shape is taken away from the vectorise fallback
    (the repository's own wildcard arms pair the wildcard with a *function*
    kind, which a documented overload)"""
    out = []
    for n in ast.walk(fn):
        if isinstance(n, ast.Dict) and is_dispatch_dict(n):
            for k in n.keys:
                if isinstance(k, ast.Tuple) and any(
                        isinstance(e, ast.Subscript) and isinstance(
                            e.value, ast.Name) and e.value.id == "ts"
                        for e in k.elts):
                    others = [dotted(e) or "" for e in k.elts
                              if not isinstance(e, ast.Subscript)]
                    if not any("FunctionType" in o for o in others):
                        out.append(ast.unparse(k))
    return out


def shortcuts_before_dispatch(fn):
    """`if <test on a value parameter>: return ...` statements at the top
    level of fn, ahead of the statement that contains the vectorise fallback,
    whose test does not establish a scalar kind for the parameter"""
    from ..lazy import guard_says_not_lazy
    params = value_params(fn)
    out = []
    for st in fn.body:
        if any(isinstance(c, ast.Call) and dotted(c.func) == "vectorise"
               for c in ast.walk(st)) and not isinstance(st, ast.If):
            break
        if not isinstance(st, ast.If):
            continue
        if any(isinstance(c, ast.Call) and dotted(c.func) == "vectorise"
               for c in ast.walk(st)):
            continue  # the if itself is (part of) the dispatch
        rets = [r for r in ast.walk(st) if isinstance(r, ast.Return)]
        if not rets:
            continue
        names = {m.id for m in ast.walk(st.test) if isinstance(m, ast.Name)}
        touched = [p_ for p_ in params if p_ in names]
        if not touched:
            continue
        if isinstance(st.test, ast.Compare) and isinstance(
                st.test.ops[0], (ast.Is, ast.IsNot)) and isinstance(
                st.test.comparators[0], ast.Constant) \
                and st.test.comparators[0].value is None:
            continue  # an optional parameter left out, not a value test
        kinded = "vy_type" in ast.unparse(st.test) or "isinstance" in \
            ast.unparse(st.test) or "type(" in ast.unparse(st.test) or any(
            guard_says_not_lazy(st.test, p_, i) is True
            for i, p_ in enumerate(params))
        # a kind test names a kind: `type(lhs) is type(rhs)` compares two
        # unknown kinds and establishes a scalar for neither
        kind_names = names - set(params) - {"type", "isinstance", "vy_type",
                                             "len", "all", "any", "ctx"}
        if kinded and not kind_names and not any(
                guard_says_not_lazy(st.test, p_, i) is True
                for i, p_ in enumerate(params)):
            kinded = False
        if kinded or "ts" in names:
            continue
        out.append((st, f"if {ast.unparse(st.test)[:40]}: return"))
    return out


def value_params(fn):
    return [a.arg for a in fn.args.args if a.arg not in ("ctx", "_", "self")]


def innermost_named(node):
    fn = enclosing_function(node)
    while isinstance(fn, ast.Lambda):
        fn = enclosing_function(fn)
    return fn


def classify_call(call, fn):
    """'conformant' | 'permuted' | 'other-function' | 'transformed'"""
    if not call.args:
        return "malformed", None
    f = call.args[0]
    fname = f.id if isinstance(f, ast.Name) else ast.unparse(f)
    params = value_params(fn)
    rest = call.args[1:]
    for kw in call.keywords:
        if kw.arg in ("rhs", "other") :
            rest = rest + [kw.value]
    names = [a.id if isinstance(a, ast.Name) else None for a in rest]
    if fname != fn.name:
        return "other-function", fname
    if all(n is not None for n in names):
        if names == params[:len(names)] and len(names) >= 1:
            return "conformant", fname
        if sorted(names) == sorted(params[:len(names)]) or set(names) <= set(
                params):
            return "permuted", fname
    return "transformed", fname


def list_keys_of(fn):
    """kind tuples containing list / LazyList that the overload tables of fn
    claim (dict-dispatch keys and `ts == (...)` tests)."""
    out = []

    def has_list(node):
        for n in ast.walk(node):
            if isinstance(n, ast.Name) and n.id in ("list", "LazyList"):
                return True
        return False
    for n in ast.walk(fn):
        if isinstance(n, ast.Dict) and is_dispatch_dict(n):
            for k in n.keys:
                if k is not None and has_list(k):
                    out.append(ast.unparse(k))
        if isinstance(n, ast.Compare) and len(n.ops) == 1 and isinstance(
                n.ops[0], (ast.Eq, ast.Is)) and has_list(n.comparators[0]) \
                and mentions_type(n.left):
            out.append(ast.unparse(n.comparators[0]))
    return sorted(set(out))


def mentions_type(node):
    for n in ast.walk(node):
        if isinstance(n, ast.Name) and n.id == "ts":
            return True
        if isinstance(n, ast.Call) and dotted(n.func) in ("vy_type", "type",
                                                          "primitive_type"):
            return True
    return False


def is_dispatch_dict(d: ast.Dict):
    par = getattr(d, "_parent", None)
    return isinstance(par, ast.Attribute) and par.attr == "get"


def ts_is_simple(fn):
    """Is every `ts = vy_type(...)` in fn taken with simple=True?"""
    found = False
    for n in ast.walk(fn):
        if isinstance(n, ast.Assign) and isinstance(n.value, ast.Call) \
                and dotted(n.value.func) == "vy_type":
            found = True
            if not any(kw.arg == "simple" and isinstance(
                    kw.value, ast.Constant) and kw.value.value is True
                    for kw in n.value.keywords):
                return False
    return found


def composes_vectorising(fn, mod, is_vec, depth=0):
    """The body is `return g(h(p, q), ...)`: a composition of element-wise
    functions applied to the bare value parameters (each used at most once
    per call, in any nesting) is element-wise itself."""
    body = [st for st in fn.body if not (
        isinstance(st, ast.Expr) and isinstance(st.value, ast.Constant))]
    if len(body) != 1 or not isinstance(body[0], ast.Return) \
            or body[0].value is None:
        return False
    params = set(value_params(fn))

    def ok(e, top):
        if isinstance(e, ast.Name):
            return e.id in params and not top
        if isinstance(e, ast.Constant):
            return not top
        if isinstance(e, ast.Call) and isinstance(e.func, ast.Name):
            g = e.func.id
            if g == fn.name:
                return False
            vec = is_vec(g) or (
                depth < 2 and g in mod.functions and composes_vectorising(
                    mod.functions[g], mod, is_vec, depth + 1))
            if not vec:
                return False
            args = [a for a in e.args] + [
                k.value for k in e.keywords if k.arg != "ctx"]
            args = [a for a in args
                    if not (isinstance(a, ast.Name) and a.id == "ctx")]
            return bool(args) and all(ok(a, False) for a in args)
        return False
    return ok(body[0].value, True)


def scan(repo):
    mod = repo.mod("elements")
    info = {}
    calls = []
    for n in ast.walk(mod.tree):
        if isinstance(n, ast.Call) and dotted(n.func) == "vectorise":
            fn = innermost_named(n)
            if fn is None or fn.name == "vectorise":
                continue
            kind, callee = classify_call(n, fn)
            calls.append((fn, n, kind, callee))
    for fn, n, kind, callee in calls:
        if kind == "conformant":
            d = info.setdefault(fn.name, {"node": fn, "calls": 0})
            d["calls"] += 1
    for name, d in info.items():
        d["list_keys"] = list_keys_of(d["node"])
    return mod, calls, info


def freeze(repo):
    mod, calls, info = scan(repo)
    data = {name: {"list_keys": d["list_keys"]} for name, d in sorted(
        info.items()) if name in mod.functions}
    os.makedirs(os.path.dirname(DATA), exist_ok=True)
    with open(DATA, "w", encoding="utf-8") as fh:
        json.dump(data, fh, ensure_ascii=False, indent=1, sort_keys=True)
    return data


def check(chk, repo, tier):
    chk.trusted_base += ["CPython ast",
                         "vystatic/data/c08_instances.json (frozen instance "
                         "list confirmed on the reference tree)"]
    if not os.path.exists(DATA):
        raise AnalysisError("frozen instance list missing: " + DATA)
    with open(DATA, encoding="utf-8") as fh:
        frozen = json.load(fh)
    mod, calls, info = scan(repo)
    EF = mod.rel
    chk.floor("vectorise call sites", len(calls), 100)
    chk.floor("frozen instances", len(frozen), 95)

    # ---- (S) every call site ----------------------------------------------------
    for fn, n, kind, callee in calls:
        cons = f"{fn.name}:vectorise({', '.join(ast.unparse(a) for a in n.args)[:60]})"
        if kind == "conformant":
            chk.ob("C08.fallback-conformant", cons, True,
                   sample={"function": fn.name})
            continue
        if (fn.name, callee) in EXCEPTIONS and (
                fn.name in info or fn.name not in frozen):
            chk.info("C08.reviewed-exception", cons,
                     EXCEPTIONS[(fn.name, callee)])
            continue
        if kind == "transformed" and fn.name in info:
            chk.info("C08.transformed-argument", cons,
                     "an argument is transformed before vectorising; a "
                     "conformant fallback exists in the same function")
            continue
        msg = {
            "permuted": "passes the value parameters in a different order "
                        "than the function declares them: list-scalar and "
                        "scalar-list shapes are computed with swapped "
                        "operands",
            "other-function": f"vectorises through `{callee}` instead of "
                              f"`{fn.name}` itself: items of a list are sent "
                              "to a different element",
            "transformed": "transforms an argument and has no conformant "
                           "fallback",
            "malformed": "vectorise() without a function",
        }[kind]
        chk.ob("C08.fallback-conformant", cons, False, msg, EF, n.lineno,
               witness=f"{fn.name} applied to a list")

    # ---- frozen instances keep their fallback; (K) no new list arm ----------------
    for name, rec in frozen.items():
        if name not in mod.functions:
            raise AnalysisError(
                f"anchor vanished: elements.{name} (frozen vectorising "
                "instance)")
        fn = mod.functions[name]
        chk.ob("C08.instance-keeps-fallback", name,
               name in info or composes_vectorising(
                   fn, mod, lambda g: g in info and g in frozen),
               f"`{name}` no longer falls back to vectorise({name}, <its "
               "parameters in order>) for list arguments", EF, fn.lineno,
               witness=f"{name} applied to a list")
        now = list_keys_of(fn)
        new = [k for k in now if k not in rec["list_keys"]]
        chk.ob("C08.no-new-list-arm", name, not new,
               f"the overload table of `{name}` now claims the kind tuple(s) "
               f"{new} itself, so those list shapes are no longer handled "
               "element-wise", EF, fn.lineno, sample={"list_keys": now}
               if now else None)

    # ---- (N) numbers are recognised in every class of sympy's tower ----------------
    for name in frozen:
        fn = mod.functions[name]
        bad = tower_unaware_tests(fn)
        chk.ob("C08.number-arms-recognise-every-class", name, not bad,
               (f"`{bad[0][1]}` picks the number overload by python class: a "
                "number written in the program is a sympy Integer (0, 1, -1, "
                "1/2 are singletons of their own), so the arm is skipped and "
                "neither the scalar nor any item of a list is handled")
               if bad else "", EF, bad[0][0].lineno if bad else fn.lineno,
               witness="⟨`ab`|`c`⟩ `x` 5 ø↲")

    # ---- (D) what the documentation calls vectorising claims no list shape ----------
    from ..core import read_elements_yaml  # noqa: PLC0415
    from ..templates import Gen, table_keys_with_nodes  # noqa: PLC0415
    gen_ = Gen(repo)
    elems_ = gen_.elements()
    fn_of = {}
    for key, knode, vnode in table_keys_with_nodes(repo, "elements"):
        v = elems_.get(key)
        if isinstance(v, tuple) and isinstance(v[0], str):
            try:
                t_ = ast.parse(v[0])
            except SyntaxError:
                continue
            if isinstance(vnode, ast.Call) and dotted(vnode.func) == \
                    "process_element" and vnode.args and isinstance(
                    vnode.args[0], ast.Name) \
                    and vnode.args[0].id in mod.functions:
                fn_of[key] = [vnode.args[0].id]  # the element's function
            else:
                fn_of[key] = []
    n_doc = 0
    for rec in read_elements_yaml(repo):
        if str(rec.get("vectorise")).lower() != "true":
            continue
        for fname in fn_of.get(rec["key"], []):
            n_doc += 1
            keys = [k for k in list_keys_of(mod.functions[fname])
                    if k.replace(" ", "") != "list"
                    and (fname, k) not in DOCUMENTED_LIST_OVERLOADS]
            keys += [k for k in wildcard_keys(mod.functions[fname])
                     if (fname, k) not in DOCUMENTED_LIST_OVERLOADS]
            for sc in shortcuts_before_dispatch(mod.functions[fname]):
                chk.ob("C08.no-shortcut-before-dispatch",
                       f"yaml[{rec['key']!r}] -> {fname}:{sc[1]}",
                       (fname, sc[1]) in REVIEWED_SHORTCUTS,
                       f"`{sc[1]}` returns before the kind dispatch of the "
                       f"documented-vectorising element {rec['key']!r} and is "
                       "not restricted to scalars: a list (an empty one, two "
                       "equal ones ...) takes this exit instead of being "
                       "handled item by item", EF, sc[0].lineno,
                       witness=f"5 ⟨⟩ {rec['key']} / two equal lists")
            chk.ob("C08.documented-vectorising-claims-no-list-shape",
                   f"yaml[{rec['key']!r}] -> {fname}", not keys,
                   f"the documentation marks {rec['key']!r} as vectorising, "
                   f"but `{fname}` handles the shape(s) {keys} itself "
                   "instead of applying the element to each item", EF,
                   mod.functions[fname].lineno,
                   witness=f"a list and a scalar given to {rec['key']}",
                   sample={"element": rec["key"], "function": fname}
                   if n_doc % 17 == 0 else None)
    chk.floor("documented-vectorising elements resolved to functions",
              n_doc, 60)

    # ---- (L) eager / lazy symmetry ----------------------------------------------------
    for fn in mod.functions.values():
        sym_check(chk, fn, fn.name in info, EF)

    # ---- (V) no hand-rolled one-level mapping in documented-vectorising elements ----
    one_level_rule(chk, repo, mod, set(frozen))

    # ---- (H) the helper ------------------------------------------------------------------
    helper_rules(chk, repo, mod)
    # lists are paired by iterating them: two iterators over one lazy list
    # must see the same items (shared with C13)
    from .c13 import iteration_rules  # noqa: PLC0415
    iteration_rules(chk, repo, "C08.lazy-iteration-independent")

    chk.explanation = (
        "Structural necessary conditions, decided for every element function: "
        "each vectorise(...) call is a conformant self fallback (same "
        "function, its own value parameters bare and in order) or a reviewed "
        "exception; the 100+ functions confirmed as vectorising keep such a "
        "fallback and claim no new list-containing kind tuple; where a lazy "
        "list reaches the fallback an eager list does too; the vectorise "
        "helper's pairing table iterates exactly the list-kinded parameters, "
        "keeps scalars fixed and argument order, pairs two lists through "
        "vy_zip, which zero-fills; list and LazyList share one kind. Does not "
        "decide the results of the scalar arms.")
    chk.assumptions += ["safe_apply calls the function with the given "
                        "arguments in the given order"]


ONE_LEVEL_REVIEWED = {
    ("brackets_balanced", "lhs"): "iterates the characters of its string "
                                  "argument (øβ is documented for strings)",
}


def one_level_rule(chk, repo, mod, vectorising_names):
    from ..core import read_elements_yaml  # noqa: PLC0415
    from ..lazy import LazyViews, excluded_by_guard  # noqa: PLC0415
    from ..templates import table_keys_with_nodes  # noqa: PLC0415
    docs = {r["key"]: r for r in read_elements_yaml(repo)
            if r["kind"] == "element"}
    n = 0
    for key, kn, vn in table_keys_with_nodes(repo, "elements"):
        if not (isinstance(vn, ast.Call) and dotted(vn.func) ==
                "process_element" and vn.args
                and isinstance(vn.args[0], ast.Name)):
            continue
        rec = docs.get(key)
        if not rec or rec.get("vectorise") != "true":
            continue
        fname = vn.args[0].id
        fn = mod.functions.get(fname)
        if fn is None:
            continue
        n += 1
        ok = True
        for p in value_params(fn):
            if (fname, p) in ONE_LEVEL_REVIEWED:
                continue
            lv = LazyViews(fn, p, {c: set() for c in vectorising_names
                                   if c != fname})
            for node in ast.walk(fn):
                iters = []
                if isinstance(node, ast.For):
                    iters = [(node.iter, node.body)]
                elif isinstance(node, (ast.ListComp, ast.GeneratorExp,
                                       ast.SetComp)):
                    iters = [(g.iter, [node.elt]) for g in node.generators]
                for it_expr, body in iters:
                    if not lv.is_view(it_expr):
                        continue
                    if excluded_by_guard(node, fn, p):
                        continue
                    recursive = any(
                        isinstance(c, ast.Call) and (
                            (dotted(c.func) or "") in (fname, "vectorise",
                                                       "safe_apply")
                            or (dotted(c.func) or "") in vectorising_names)
                        for b in body for c in ast.walk(b))
                    if recursive:
                        continue
                    ok = False
                    chk.ob("C08.no-one-level-mapping",
                           f"{fname}:{p}:{ast.unparse(it_expr)[:40]}", False,
                           f"the documented-vectorising element {key!r} maps "
                           f"over `{ast.unparse(it_expr)[:40]}` by hand, one "
                           "level deep, without recursing or calling "
                           "vectorise: nested lists are not handled "
                           "element-wise", mod.rel, node.lineno,
                           witness=f"⟨⟨1|2⟩|⟨0|1|1⟩|1⟩ {key}")
        if ok:
            chk.ob("C08.no-one-level-mapping", fname, True)
    chk.floor("documented-vectorising element functions", n, 80)


def sym_check(chk, fn, has_fallback, EF):
    """(L): `list` claimed without a LazyList twin while ts is not simple."""
    simple = ts_is_simple(fn)
    for n in ast.walk(fn):
        if isinstance(n, ast.Dict) and is_dispatch_dict(n) and not simple:
            keys = [ast.unparse(k) for k in n.keys if k is not None]
            for k in n.keys:
                if k is None:
                    continue
                txt = ast.unparse(k)
                if any(isinstance(m, ast.Name) and m.id == "list"
                       for m in ast.walk(k)):
                    twin = txt.replace("list", "LazyList")
                    ok = twin in keys
                    if not ok and not dict_ts_simple(n, fn):
                        chk.ob("C08.eager-lazy-symmetry",
                               f"{fn.name}:{txt}", False,
                               f"arm {txt} is taken for an eager list but a "
                               "lazy list falls through to "
                               + ("the vectorise fallback" if has_fallback
                                  else "the default")
                               + " (types taken without simple=True)", EF,
                               k.lineno,
                               witness=f"{fn.name}([..]) vs "
                                       f"{fn.name}(LazyList([..]))")
                    else:
                        chk.ob("C08.eager-lazy-symmetry", f"{fn.name}:{txt}",
                               True)
        # `vy_type(x) is list` guarding a vectorise self call
        if isinstance(n, ast.If):
            t = n.test
            guards_vec = any(
                isinstance(c, ast.Call) and dotted(c.func) == "vectorise"
                for b in n.body for c in ast.walk(b))
            if not guards_vec:
                continue
            one_sided = None
            if isinstance(t, ast.Compare) and len(t.ops) == 1 and isinstance(
                    t.ops[0], (ast.Is, ast.Eq)) and isinstance(
                    t.comparators[0], ast.Name) and t.comparators[0].id in (
                    "list", "LazyList") and isinstance(t.left, ast.Call) \
                    and dotted(t.left.func) in ("vy_type", "type"):
                is_simple = any(kw.arg == "simple" for kw in t.left.keywords)
                if not is_simple:
                    one_sided = t.comparators[0].id
            if isinstance(t, ast.Call) and dotted(t.func) == "isinstance" \
                    and len(t.args) == 2 and isinstance(t.args[1], ast.Name) \
                    and t.args[1].id in ("list", "LazyList"):
                one_sided = t.args[1].id
            if one_sided:
                chk.ob("C08.eager-lazy-symmetry",
                       f"{fn.name}:if {ast.unparse(t)}", False,
                       f"the vectorise fallback is reached only for "
                       f"{one_sided}; the other list kind is not vectorised",
                       EF, n.lineno)


def dict_ts_simple(d, fn):
    """the .get(<ts>) argument of this dispatch dict comes from a simple
    vy_type"""
    par = getattr(d, "_parent", None)
    call = getattr(par, "_parent", None)
    if not isinstance(call, ast.Call) or not call.args:
        return False
    a = call.args[0]
    if isinstance(a, ast.Call) and dotted(a.func) == "vy_type":
        return any(kw.arg == "simple" for kw in a.keywords)
    if isinstance(a, ast.Name):
        for n in ast.walk(fn):
            if isinstance(n, ast.Assign) and any(
                    isinstance(t, ast.Name) and t.id == a.id
                    for t in n.targets) and isinstance(n.value, ast.Call) \
                    and dotted(n.value.func) == "vy_type":
                return any(kw.arg == "simple" for kw in n.value.keywords)
    return False


def helper_rules(chk, repo, mod):
    EF = mod.rel
    vec = mod.function("vectorise")
    params = [a.arg for a in vec.args.args]
    if params[:4] != ["function", "lhs", "rhs", "other"]:
        raise AnalysisError("vectorise signature changed: " + str(params))
    tables = [n for n in ast.walk(vec) if isinstance(n, ast.Dict)
              and n.keys and all(isinstance(k, ast.Tuple) for k in n.keys)]
    n_rows = 0
    for tbl in tables:
        par = getattr(tbl, "_parent", None)
        tname = par.targets[0].id if isinstance(par, ast.Assign) else "?"
        explicit = "explicit" in tname
        width = len(tbl.keys[0].elts)
        names = ["lhs", "rhs", "other"][:width]
        for k, v in zip(tbl.keys, tbl.values):
            kinds = [("list" if ast.unparse(e) == "list" else "scalar")
                     for e in k.elts]
            n_rows += 1
            cons = f"vectorise.{tname}[{ast.unparse(k)}]"
            if explicit:
                continue  # explicit (modifier v) table: different contract
            if width == 3 and kinds.count("list") == 3:
                chk.info("C08.helper-row", cons,
                         "three lists: outside the statement (dyadic pairing)")
                continue
            ok, why = row_ok(v, kinds, names)
            chk.ob("C08.helper-row", cons, ok, why, EF, k.lineno,
                   sample={"row": ast.unparse(k)})
    chk.floor("rows of vectorise's pairing tables", n_rows, 12)
    # results are wrapped lazily and the monadic path maps over iterable(lhs)
    # vy_zip zero-fills
    vz = mod.function("vy_zip")
    uses_zip = [n for n in ast.walk(vz) if isinstance(n, ast.Call)
                and dotted(n.func) == "zip"]
    def binds_zero(handler):
        """names the handler sets (first is the padded item)"""
        for s_ in handler.body:
            if isinstance(s_, ast.Assign):
                if isinstance(s_.value, ast.Constant) and s_.value.value == 0:
                    return True
                if isinstance(s_.value, ast.Tuple) and any(
                        isinstance(e, ast.Constant) and e.value == 0
                        and not isinstance(e.value, bool)
                        for e in s_.value.elts):
                    return True
        return False

    handlers = [n for n in ast.walk(vz) if isinstance(n, ast.ExceptHandler)
                and "StopIteration" in ast.unparse(n.type or ast.Constant(
                    value=""))]
    fills = [h for h in handlers if binds_zero(h)]
    longest = [n for n in ast.walk(vz) if isinstance(n, ast.Call)
               and (dotted(n.func) or "").endswith("zip_longest")]
    # state each handler records (a counter or a flag)
    state_names = []
    for h in handlers:
        for s_ in h.body:
            for t in ast.walk(s_):
                if isinstance(t, ast.Name) and isinstance(t.ctx, ast.Store):
                    state_names.append(t.id)
    both = any(isinstance(n, ast.Compare) and isinstance(
        n.comparators[0], ast.Constant) and n.comparators[0].value == 2
        for n in ast.walk(vz)) or any(
        isinstance(n, ast.BoolOp) and isinstance(n.op, ast.And)
        and len({m.id for m in ast.walk(n) if isinstance(m, ast.Name)
                 and m.id in state_names}) >= 2 for n in ast.walk(vz))
    # sentinel idiom: next(it, END) twice; `x is END` decides the fill and
    # the end of the loop - never the truth value of the item
    dflt = [n for n in ast.walk(vz) if isinstance(n, ast.Call)
            and dotted(n.func) == "next" and len(n.args) == 2]
    sentinel_ok = False
    if len(dflt) >= 2 and len({ast.unparse(n.args[1]) for n in dflt}) == 1 \
            and not isinstance(dflt[0].args[1], ast.Constant):
        end = ast.unparse(dflt[0].args[1])

        def is_end(t):
            return isinstance(t, ast.Compare) and len(t.ops) == 1 and \
                isinstance(t.ops[0], ast.Is) and ast.unparse(
                    t.comparators[0]) == end
        zero_fills = [n for n in ast.walk(vz) if isinstance(n, ast.IfExp)
                      and is_end(n.test) and isinstance(n.body, ast.Constant)
                      and n.body.value == 0
                      and not isinstance(n.body.value, bool)]
        zero_fills += [n for n in ast.walk(vz) if isinstance(n, ast.If)
                       and is_end(n.test) and any(
                           isinstance(b, ast.Assign) and isinstance(
                               b.value, ast.Constant) and b.value.value == 0
                           for b in n.body)]
        both_end = any(isinstance(n, ast.BoolOp) and isinstance(n.op, ast.And)
                       and sum(1 for v in n.values if is_end(v)) >= 2
                       for n in ast.walk(vz))
        sentinel_ok = len(zero_fills) >= 2 and both_end
    ok = not uses_zip and (sentinel_ok or (len(fills) >= 2 and both) or any(
        any(kw.arg == "fillvalue" and isinstance(kw.value, ast.Constant)
            and kw.value.value == 0 for kw in c.keywords) for c in longest))
    chk.ob("C08.zip-zero-fill", "elements.vy_zip", ok,
           "vy_zip no longer pads the shorter list with 0 until both are "
           "exhausted (truncating zip / missing fill)", EF, vz.lineno,
           witness="⟨1|2|3⟩ ⟨10|20⟩ +  should give ⟨11|22|3⟩",
           sample={"fill handlers": len(fills), "until both exhausted": both})
    # scalars / numbers / the one list kind are recognised for every class
    scalar_classification(chk, repo)


# ---------------------------------------------------------------------------
# sympy's numeric class tower (a fact about the library, not about the repo):
# exact rationals are instances of Rational *subclasses* - 1/2 is Half, 0 is
# Zero, 1 is One, -1 is NegativeOne, other integers are Integer.  A test by
# exact type against sympy.Rational therefore misses most numbers.
class _Basic:
    pass


class _Expr(_Basic):
    pass


class _Number(_Expr):
    pass


class _Rational(_Number):
    pass


class _Integer(_Rational):
    pass


class _Zero(_Integer):
    pass


class _One(_Integer):
    pass


class _NegativeOne(_Integer):
    pass


class _Half(_Rational):
    pass


class _Symbolic(_Expr):
    """pi, sqrt(2), E ...: irrational results are sympy expressions"""


TOWER = {"Basic": _Basic, "Expr": _Expr, "Number": _Number,
         "Rational": _Rational, "Integer": _Integer}
NUMBER_REPS = [("python int", 3), ("python int 0", 0),
               ("sympy Rational (3/2)", _Rational()),
               ("sympy Half (1/2)", _Half()),
               ("sympy Integer", _Integer()), ("sympy Zero", _Zero()),
               ("sympy One", _One()), ("sympy NegativeOne", _NegativeOne()),
               ("sympy irrational expression", _Symbolic())]


def tower_unaware_tests(fn):
    """Number tests in `fn` that miss part of the numeric tower:
    * `type(v) in (int, sympy.Integer, sympy.Rational)` / `type(v) is
      sympy.Rational` - exact-class tests never match Zero, One, NegativeOne,
      Half (and an exact test against Rational misses every Integer) unless
      the same condition also asks is_sympy / isinstance;
    * `isinstance(p, int)` on a value parameter - a number written in the
      program is a sympy Integer, not a python int.
    Returns [(node, text)]."""
    from ..flow import copy_env, subst
    env = copy_env(fn)
    params = {a.arg for a in fn.args.args if a.arg not in ("ctx", "self")}
    out = []

    def companions(node):
        """the boolean expression the test sits in mentions a subclass-aware
        test of the same thing"""
        cur = node
        par = getattr(cur, "_parent", None)
        while isinstance(par, (ast.BoolOp, ast.UnaryOp)):
            cur = par
            par = getattr(cur, "_parent", None)
        txt = ast.unparse(cur)
        return "is_sympy(" in txt or "vy_type(" in txt or (
            "isinstance(" in txt and "sympy." in txt)

    for n in ast.walk(fn):
        if isinstance(n, ast.Compare) and len(n.ops) == 1 and isinstance(
                n.left, ast.Call) and dotted(n.left.func) == "type" \
                and isinstance(n.ops[0], (ast.In, ast.Is, ast.Eq, ast.NotIn,
                                          ast.IsNot, ast.NotEq)):
            rhs = subst(n.comparators[0], env)
            names = {dotted(m) for m in ast.walk(rhs)
                     if isinstance(m, (ast.Attribute, ast.Name))}
            if any(x and x.startswith("sympy.") for x in names) \
                    and not companions(n):
                out.append((n, ast.unparse(n)[:60]))
        if isinstance(n, ast.Call) and dotted(n.func) == "isinstance" \
                and len(n.args) == 2 and isinstance(n.args[0], ast.Name) \
                and n.args[0].id in params:
            kinds = subst(n.args[1], env)
            ks = {dotted(m) for m in ast.walk(kinds)
                  if isinstance(m, (ast.Attribute, ast.Name))}
            if "int" in ks and not any(
                    x and x.startswith("sympy.") for x in ks) \
                    and "str" not in ks and not companions(n):
                out.append((n, ast.unparse(n)[:60]))
    return out


def scalar_classification(chk, repo):
    """vectorise pairs a scalar with every item only if the scalar is
    *recognised* as one.  primitive_type and vy_type depend on nothing but the
    class of their argument, so interpreting them once per class of the
    numeric tower decides them for every value."""
    from ..pe import Interp, PRaise, StubModule, Unsupported
    it = Interp(repo)
    it.stubs["sympy"] = StubModule("sympy", dict(TOWER))
    hp = it.module("vyxal.helpers")
    el = it.module("vyxal.elements")
    try:
        prim = hp.get("primitive_type")
        vt = el.get("vy_type")
        SC = hp.get("SCALAR_TYPE")
        NT = el.get("NUMBER_TYPE")
        LL = it.module("vyxal.LazyList").get("LazyList")
    except KeyError as exc:
        raise AnalysisError(f"anchor vanished: {exc}") from None
    lazy = it.instantiate(LL, [[1]], {})
    HF = repo.mod("helpers").rel
    EF = repo.mod("elements").rel

    def run(fn, *args, **kw):
        it.steps = 0
        try:
            return ("value", fn(*args, **kw))
        except PRaise as exc:
            return ("raised", f"{exc.cls_name}{exc.pargs}")
        except Unsupported as exc:
            raise AnalysisError(
                f"{fn.__name__} uses a construct the interpreter does not "
                f"model: {exc}") from None

    n = 0
    cases = NUMBER_REPS + [("str", "ab"), ("empty str", "")]
    for label, rep in cases:
        n += 1
        got = run(prim, rep)
        chk.ob("C08.scalar-recognised", f"helpers.primitive_type({label})",
               got == ("value", SC),
               f"primitive_type gives {got[1]!r} ({got[0]}) for a {label}: "
               "vectorise then does not pair it with every item of the other "
               "argument (it has no row for this kind / asserts)", HF,
               repo.mod("helpers").function("primitive_type").lineno,
               witness="⟨1|2|3⟩ 1 2/ +   (a list plus one half)",
               sample={"class": label})
    for label, rep in (("list", [1, 2]), ("LazyList", lazy)):
        n += 1
        got = run(prim, rep)
        chk.ob("C08.one-list-kind", f"helpers.primitive_type({label})",
               got == ("value", list),
               f"primitive_type gives {got[1]!r} for a {label}: eager and "
               "lazy lists must be the one kind `list` for vectorise", HF,
               repo.mod("helpers").function("primitive_type").lineno,
               sample={"class": label})
    for label, rep in NUMBER_REPS:
        for simple in (False, True):
            n += 1
            got = run(vt, rep, simple=simple)
            chk.ob("C08.number-recognised",
                   f"elements.vy_type({label})", got == ("value", NT),
                   f"vy_type gives {got[1]!r} ({got[0]}) for a {label}: the "
                   "overload tables are keyed by NUMBER_TYPE, so this number "
                   "takes the list fallback", EF,
                   repo.mod("elements").function("vy_type").lineno,
                   sample={"class": label} if not simple else None)
    for label, rep, want, wants in (("str", "a", str, str),
                                    ("list", [1], list, list),
                                    ("LazyList", lazy, LL, list)):
        for simple in (False, True):
            n += 1
            got = run(vt, rep, simple=simple)
            w = wants if simple else want
            chk.ob("C08.kind-recognised", f"elements.vy_type({label}, "
                   f"simple={simple})", got == ("value", w),
                   f"vy_type gives {got[1]!r} for a {label}", EF,
                   repo.mod("elements").function("vy_type").lineno)
    chk.unit("type-tower classifications (interpreted)", n)


def row_ok(v, kinds, names):
    """Check one pairing row: lambda: <safe_apply(...)> or a generator."""
    if not isinstance(v, ast.Lambda):
        return False, "row is not a lambda"
    body = v.body
    listed = [n for n, k in zip(names, kinds) if k == "list"]
    if not listed:
        call = body
        binding = {}
    else:
        if not isinstance(body, ast.GeneratorExp):
            return False, "row with list parameters is not a generator"
        call = body.elt
        gens = body.generators
        binding = {}
        if len(listed) == 1:
            if len(gens) != 1 or not isinstance(gens[0].iter, ast.Name) \
                    or gens[0].iter.id != listed[0] or not isinstance(
                    gens[0].target, ast.Name):
                return False, (f"must iterate exactly `{listed[0]}` "
                               f"(found `{ast.unparse(body)[-60:]}`)")
            binding[listed[0]] = gens[0].target.id
        else:
            g = gens[0]
            if not (isinstance(g.iter, ast.Call) and dotted(
                    g.iter.func) == "vy_zip" and len(g.iter.args) >= 2
                    and [ast.unparse(a) for a in g.iter.args[:2]]
                    == listed[:2] and isinstance(g.target, ast.Tuple)
                    and len(g.target.elts) == 2):
                return False, ("two list parameters must be paired with "
                               f"vy_zip({listed[0]}, {listed[1]}) "
                               f"(found `{ast.unparse(g.iter)}`)")
            binding[listed[0]] = g.target.elts[0].id
            binding[listed[1]] = g.target.elts[1].id
            if len(gens) != 1:
                return False, "extra loop in a two-list row"
    if not (isinstance(call, ast.Call) and dotted(call.func) == "safe_apply"
            and call.args and ast.unparse(call.args[0]) == "function"):
        return False, "row does not call safe_apply(function, ...)"
    got = [ast.unparse(a) for a in call.args[1:]]
    want = [binding.get(n, n) for n in names]
    if got != want:
        return False, (f"arguments are {got} but the row should pass {want} "
                       "(scalars fixed, list items in place, order kept)")
    return True, ""
