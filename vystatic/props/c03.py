"""C03 - literal contents and comments are data, never syntax.

Parser side: every read of a token's `.value` in parse.py (and the arity
lookup in transpile.lambda_wrap) is accounted for; a read that decides
grouping (comparison with / lookup in a syntax-significant constant, modifier
key, lambda arity) must, on every path reaching it, only see token kinds
whose value language cannot produce the constant.

Lexer side: payload characters consumed inside a literal/comment branch flow
only into that token's value and are never re-scanned."""

from __future__ import annotations

import ast

from ..core import AnalysisError, dotted
from ..kinds import KindWalker, ANYSET
from ..lexlaws import (Frames, law_payload_opaque, law_total,
                       value_languages_probe)
from ..lexprobe import LexProbe
from ..pe import Interp, ModuleEnv

level = "other"

# name-joining helpers: they concatenate the values of *all* tokens of a name
# branch by design; the result only feeds sanitised identifiers (C18) and a
# name position pushes no value.
NAME_HELPERS = {
    "process_parameters": "joins the tokens of a function-name branch into "
                          "name:param:param text (sanitised downstream)",
    "variable_name": "joins the tokens of a loop-variable branch, keeping "
                     "ASCII letters and underscore only",
}

# frozen copy of the lexer's kind/value table (re-derived on every run and
# compared): kind -> (charset or None for any, heads)
EXPECTED_LANG = {
    "STRING": None, "COMPRESSED_NUMBER": None, "COMPRESSED_STRING": None,
    "CHARACTER": None, "CODEPAGE_NUMBER": None, "GENERAL": None,
    "NUMBER": set("0123456789.°"),
    "VARIABLE_GET": set("abcdefghijklmnopqrstuvwxyz"
                        "ABCDEFGHIJKLMNOPQRSTUVWXYZ_"),
    "VARIABLE_SET": set("abcdefghijklmnopqrstuvwxyz"
                        "ABCDEFGHIJKLMNOPQRSTUVWXYZ_"),
}


def const_candidates(op, val):
    """Values `v` for which `v <op> val` holds, as a predicate over Lang."""
    if isinstance(op, (ast.Eq, ast.NotEq)):
        if isinstance(val, str):
            return [val]
        return None
    if isinstance(op, (ast.In, ast.NotIn)):
        if isinstance(val, str):
            # substring test: every non-empty substring, and the empty string
            subs = {""}
            for i in range(len(val)):
                for j in range(i + 1, min(len(val), i + 2) + 1):
                    subs.add(val[i:j])
            return sorted(subs)
        if isinstance(val, (list, tuple, set, frozenset)):
            return [v for v in val if isinstance(v, str)]
    return None


def check(chk, repo, tier):
    it = Interp(repo)
    lp = LexProbe(repo, it, thorough=(tier == "thorough"))
    langs = value_languages_probe(lp)
    kinds = lp.kinds
    chk.floor("token kinds", len(kinds), 9)
    LF = repo.mod("lexer").rel
    chk.trusted_base += ["CPython ast", "vystatic.pe constant folder"]
    # first of all: the probe model is only a model of a lexer that has no
    # memory; one that has is the violation, and nothing further is decided
    from ..lexlaws import law_stateless  # noqa: PLC0415
    if not law_stateless(chk, lp, "C03.lexer-stateless", LF):
        return
    from ..lexlaws import law_left_to_right  # noqa: PLC0415
    law_left_to_right(chk, lp, "C03.lexer-left-to-right", LF)

    # ---- lexer: kind/value table ------------------------------------------------
    for k in kinds:
        if k not in EXPECTED_LANG:
            # a kind the table does not know is held to the weakest promise
            # (free text): the parser-side rules then demand a kind guard on
            # every value test that such a token can reach
            chk.info("C03.value-language", f"TokenType.{k}",
                     "token kind not in the kind/value table: treated as "
                     "free text")
        lang = langs.get(k)
        if lang is None:
            chk.ob("C03.kind-is-built", f"TokenType.{k}", False,
                   "no lexer branch builds this kind", LF)
            continue
        exp = EXPECTED_LANG.get(k)
        if exp is None:
            chk.ob("C03.value-language", f"TokenType.{k}", True,
                   sample={"kind": k, "language": lang.describe()})
        else:
            ok = lang.chars is not ANYSET and lang.chars <= exp
            chk.ob("C03.value-language", f"TokenType.{k}", ok,
                   f"the lexer now lets {k} values contain "
                   f"{'any character' if lang.chars is ANYSET else sorted(lang.chars - exp)}"
                   "; the parser relies on this kind never spelling syntax",
                   LF, sample={"kind": k, "language": lang.describe()})
    # lexer laws on the class-exhaustive probe model
    fr = Frames(lp)
    chk.unit("literal forms found by probing", {
        "delimited": fr.delimited, "one-character": fr.prefix1,
        "two-character": fr.prefix2, "comment": fr.comment})
    chk.floor("delimited literal forms", len(fr.delimited), 3)
    chk.floor("prefix literal forms", len(fr.prefix1) + len(fr.prefix2), 3)
    chk.floor("comment heads", len(fr.comment), 1)
    # the same text in two token kinds must not share remembered code
    from .c06 import memo_keys  # noqa: PLC0415
    memo_keys(chk, repo, "C03")
    n = law_payload_opaque(chk, lp, fr, "C03.lexer-payload-opaque", LF)
    # every further lexer mode (a switch parameter of tokenise) is a lexer
    # of its own: its literal forms are discovered and held to the same law
    for m in range(1, len(lp.mode_names)):
        with lp.in_mode(m):
            frm = Frames(lp)
            n += law_payload_opaque(chk, lp, frm, "C03.lexer-payload-opaque",
                                    LF, tag=f" [mode {lp.mode_names[m]}]")
        chk.unit(f"literal forms in lexer mode {lp.mode_names[m]}", {
            "delimited": frm.delimited, "one-character": frm.prefix1,
            "two-character": frm.prefix2, "comment": frm.comment,
            "block comment": frm.block_comment})
    law_total(chk, lp, "C03.lexer-total", LF)
    # token kinds are distinct values (equal enum values alias each other:
    # CODEPAGE_NUMBER = "number" would *be* NUMBER)
    lmod = repo.mod("lexer")
    tt = lmod.cls("TokenType")
    vals = {}
    for st in tt.body:
        if isinstance(st, ast.Assign) and isinstance(st.targets[0], ast.Name) \
                and isinstance(st.value, ast.Constant):
            vals.setdefault(st.value.value, []).append(st.targets[0].id)
    dup = {v: ns for v, ns in vals.items() if len(ns) > 1}
    chk.ob("C03.token-kinds-distinct", "lexer.TokenType", not dup,
           f"token kinds share a value and are therefore the same enum "
           f"member: {dup}; every test for one of them also accepts the "
           "other", LF, tt.lineno, sample={"kinds": len(vals)})
    # no state carried from one call to the next through a default argument
    for modname in ("lexer", "parse", "transpile"):
        m_ = repo.mod(modname)
        for fn_ in ast.walk(m_.tree):
            if not isinstance(fn_, ast.FunctionDef):
                continue
            for d_ in list(fn_.args.defaults) + [
                    x for x in fn_.args.kw_defaults if x is not None]:
                mutable = isinstance(d_, (ast.List, ast.Dict, ast.Set)) or (
                    isinstance(d_, ast.Call) and (dotted(d_.func) or "") in (
                        "list", "dict", "set", "collections.deque", "deque",
                        "io.StringIO", "bytearray", "collections.defaultdict"))
                chk.ob("C03.no-mutable-default", f"{modname}.{fn_.name}",
                       not mutable,
                       f"`{ast.unparse(d_)}` is created once and shared by "
                       f"all calls of {fn_.name}: what one program leaves in "
                       "it shows up in the next", m_.rel, fn_.lineno)
    chk.unit("lexer probes (payload law)", n)
    chk.unit("lexer character classes", "".join(
        c if c.isprintable() else "?" for c in lp.reps))

    # ---- parser: every read of .value ------------------------------------------------
    pparse = it.module("vyxal.parse")
    pmod = repo.mod("parse")
    PF = pmod.rel

    def fold_parse(node):
        return it.eval(node, ModuleEnv(pparse), pparse)

    total_reads = 0
    compare_reads = 0
    # helpers that are only called from other functions of the module with
    # token arguments are analysed in their callers' context (inlined)
    called = set()
    for fn in pmod.functions.values():
        for n in ast.walk(fn):
            if isinstance(n, ast.Call) and isinstance(n.func, ast.Name) \
                    and n.func.id in pmod.functions \
                    and n.func.id != fn.name:
                called.add(n.func.id)
    entry = {"parse", "_get_branches", "process_parameters", "variable_name"}
    for fname, fn in pmod.functions.items():
        if fname in called and fname not in entry:
            continue
        w = KindWalker(kinds, fold_parse, functions={
            k: v for k, v in pmod.functions.items()
            if k not in entry})
        for rd in w.run(fn):
            total_reads += 1
            if rd.role == "compare":
                compare_reads += 1
            owner = getattr(rd.fn, "name", fname)
            judge_read(chk, rd, owner, "parse", langs, fold_parse, PF, pmod)
    chk.floor("reads of token .value in parse.py", total_reads, 15)
    chk.floor("of which inside comparisons", compare_reads, 10)

    # ---- transpile.lambda_wrap: arity lookup by token value ------------------------------
    ptr = it.module("vyxal.transpile")
    tmod = repo.mod("transpile")

    def fold_tr(node):
        return it.eval(node, ModuleEnv(ptr), ptr)

    fn = tmod.function("lambda_wrap")
    w = KindWalker(kinds, fold_tr)
    n_lw = 0
    for rd in w.run(fn):
        n_lw += 1
        judge_read(chk, rd, "lambda_wrap", "transpile", langs, fold_tr,
                   tmod.rel, tmod)
    chk.floor("reads of token .value in transpile.lambda_wrap", n_lw, 1)

    chk.explanation = (
        "Decides the grouping clause for the parser as architected: grouping "
        "decisions happen only where parse.py reads a token's value; each such "
        "read is path-sensitively annotated with the set of token kinds that "
        "can reach it (refined by the .name tests on the path) and compared "
        "with the value language the lexer gives each kind. Lexer side: the "
        "current tokenise is interpreted on every string of length <= 2 (and "
        "a reduced set of length 3) over the character classes the lexer "
        "itself distinguishes; for every literal form found (delimited, one- "
        "and two-character prefix literals, comments) replacing the payload "
        "by any class representative leaves the sequence of token kinds "
        "around it unchanged and the payload is the token's value; an escape "
        "character must keep itself and the next character in the payload. "
        "Does not decide what value a literal pushes (C05/C06).")
    chk.assumptions += [
        "tokens reach the parser only as lexer.Token objects built in "
        "lexer.tokenise (kind/value languages are derived from there)",
    ]


def judge_read(chk, rd, fname, modname, langs, fold, file, mod):
    where = f"{modname}.{fname}"
    text = mod.seg(getattr(rd.node, "_parent", rd.node)) \
        if hasattr(rd.node, "_parent") else ast.unparse(rd.node)
    text = " ".join(text.split())[:90]
    non_general = sorted(k for k in rd.kinds if k != "GENERAL")
    if fname in NAME_HELPERS:
        chk.info("C03.name-helper", f"{where}:{rd.base}.value",
                 NAME_HELPERS[fname])
        return
    if rd.role == "compare":
        op, other = rd.detail
        try:
            val = fold(other)
        except Exception:  # noqa: BLE001
            val = None
        cands = const_candidates(op, val)
        cname = ast.unparse(other)
        cons = f"{where}:{rd.base}.value {type(op).__name__} {cname}"
        if cands is None:
            # comparison with something that is not a constant: only safe
            # when nothing but GENERAL reaches it
            chk.ob("C03.syntax-test-kind-guarded", cons, not non_general,
                   f"`{text}` compares a token value with a non-constant while "
                   f"literal kinds {non_general} can reach it", file, rd.line)
            return
        risky = {}
        for k in non_general:
            hits = [c for c in cands if langs[k].can_equal(c)]
            if hits:
                risky[k] = hits[:4]
        chk.ob("C03.syntax-test-kind-guarded", cons, not risky,
               f"`{text}` decides grouping from the token *value* while "
               f"literal kinds can reach it and spell the constant: "
               + "; ".join(f"{k} can be {v}" for k, v in risky.items()),
               file, rd.line, witness=witness_for(cname, risky),
               sample={"read": cons, "kinds": sorted(rd.kinds)})
        return
    if rd.role == "truth":
        chk.ob("C03.read-accounted", f"{where}:{rd.base}.value (truthiness)",
               True)
        return
    if rd.role == "lookup":
        cons = f"{where}:{ast.unparse(rd.detail)}[{rd.base}.value]"
        chk.ob("C03.syntax-lookup-kind-guarded", cons, not non_general,
               f"`{text}` looks a token value up in a syntax table while kinds "
               f"{non_general} can reach it", file, rd.line,
               sample={"read": cons, "kinds": sorted(rd.kinds)})
        return
    if rd.role == "call-arg":
        call = rd.detail
        callee = dotted(call.func) or ast.unparse(call.func)
        cons = f"{where}:{callee}({rd.base}.value)"
        if callee == "int":
            ok = set(rd.kinds) <= {"NUMBER"}
            chk.ob("C03.metadata-kind-guarded", cons, ok,
                   f"`{text}` turns a token value into a number that steers "
                   f"parsing (lambda arity) while kinds {sorted(rd.kinds)} can "
                   "reach it; only a NUMBER token should", file, rd.line,
                   witness="λ\\2|+; gets arity 2 from a character literal",
                   sample={"read": cons, "kinds": sorted(rd.kinds)})
            return
        # modifier key stored in a structure / element-table lookup
        chk.ob("C03.metadata-kind-guarded", cons, not non_general,
               f"`{text}` uses a token value as a table key / structure "
               f"selector while literal kinds {non_general} can reach it",
               file, rd.line,
               witness="v\\+ gets arity 2 (that of +), v\\a gets 1"
               if "elements.get" in callee else None,
               sample={"read": cons, "kinds": sorted(rd.kinds)})
        return
    cons = f"{where}:{rd.base}.value ({rd.role})"
    chk.ob("C03.read-accounted", cons, not non_general,
           f"`{text}` reads a token value in the parser in a way the rule set "
           f"does not classify, and literal kinds {non_general} can reach it",
           file, rd.line)


def witness_for(cname, risky):
    if not risky:
        return None
    table = {
        "BREAK_CHARACTER": "1«X«2 parses to a BreakStatement",
        "RECURSE_CHARACTER": "1«x«2 parses to a RecurseStatement",
        "MONADIC_MODIFIERS": "⁺v+ / «v«+ become a modifier",
        "DYADIC_MODIFIERS": "«₌«++ becomes a modifier",
        "TRIADIC_MODIFIERS": "⁺≬+++ becomes a lambda",
        "'|'": "[1`|`2] and [1\\|2] split into two branches",
    }
    return table.get(cname, f"a literal spelling {cname}")


# ---------------------------------------------------------------------------


