"""C03 - literal contents and comments are data, never syntax.

Parser side: every read of a token's `.value` in parse.py (and the arity
lookup in transpile.lambda_wrap) is accounted for; a read that decides
grouping (comparison with / lookup in a syntax-significant constant, modifier
key, lambda arity) must, on every path reaching it, only see token kinds
whose value language cannot produce the constant.

Lexer side: payload characters consumed inside a literal/comment branch flow
only into that token's value and are never re-scanned."""

from __future__ import annotations

import ast

from ..core import AnalysisError, dotted
from ..kinds import KindWalker, value_languages, ANYSET
from ..lexmodel import LexModel, ANY
from ..pe import Interp, ModuleEnv

level = "other"

# name-joining helpers: they concatenate the values of *all* tokens of a name
# branch by design; the result only feeds sanitised identifiers (C18) and a
# name position pushes no value.
NAME_HELPERS = {
    "process_parameters": "joins the tokens of a function-name branch into "
                          "name:param:param text (sanitised downstream)",
    "variable_name": "joins the tokens of a loop-variable branch, keeping "
                     "ASCII letters and underscore only",
}

# frozen copy of the lexer's kind/value table (re-derived on every run and
# compared): kind -> (charset or None for any, heads)
EXPECTED_LANG = {
    "STRING": None, "COMPRESSED_NUMBER": None, "COMPRESSED_STRING": None,
    "CHARACTER": None, "CODEPAGE_NUMBER": None, "GENERAL": None,
    "NUMBER": set("0123456789.°"),
    "VARIABLE_GET": set("abcdefghijklmnopqrstuvwxyz"
                        "ABCDEFGHIJKLMNOPQRSTUVWXYZ_"),
    "VARIABLE_SET": set("abcdefghijklmnopqrstuvwxyz"
                        "ABCDEFGHIJKLMNOPQRSTUVWXYZ_"),
}


def const_candidates(op, val):
    """Values `v` for which `v <op> val` holds, as a predicate over Lang."""
    if isinstance(op, (ast.Eq, ast.NotEq)):
        if isinstance(val, str):
            return [val]
        return None
    if isinstance(op, (ast.In, ast.NotIn)):
        if isinstance(val, str):
            # substring test: every non-empty substring, and the empty string
            subs = {""}
            for i in range(len(val)):
                for j in range(i + 1, min(len(val), i + 2) + 1):
                    subs.add(val[i:j])
            return sorted(subs)
        if isinstance(val, (list, tuple, set, frozenset)):
            return [v for v in val if isinstance(v, str)]
    return None


def check(chk, repo, tier):
    it = Interp(repo)
    lm = LexModel(repo, it)
    langs = value_languages(lm)
    kinds = lm.kinds
    chk.floor("token kinds", len(kinds), 9)
    LF = repo.mod("lexer").rel
    chk.trusted_base += ["CPython ast", "vystatic.pe constant folder"]

    # ---- lexer: kind/value table ------------------------------------------------
    for k in kinds:
        if k not in EXPECTED_LANG:
            raise AnalysisError(
                f"token kind {k} is new: extend the kind/value table")
        lang = langs.get(k)
        if lang is None:
            chk.ob("C03.kind-is-built", f"TokenType.{k}", False,
                   "no lexer branch builds this kind", LF)
            continue
        exp = EXPECTED_LANG[k]
        if exp is None:
            chk.ob("C03.value-language", f"TokenType.{k}", True,
                   sample={"kind": k, "language": lang.describe()})
        else:
            ok = lang.chars is not ANYSET and lang.chars <= exp
            chk.ob("C03.value-language", f"TokenType.{k}", ok,
                   f"the lexer now lets {k} values contain "
                   f"{'any character' if lang.chars is ANYSET else sorted(lang.chars - exp)}"
                   "; the parser relies on this kind never spelling syntax",
                   LF, sample={"kind": k, "language": lang.describe()})
    lexer_payload_rules(chk, lm, LF)

    # ---- parser: every read of .value ------------------------------------------------
    pparse = it.module("vyxal.parse")
    pmod = repo.mod("parse")
    PF = pmod.rel

    def fold_parse(node):
        return it.eval(node, ModuleEnv(pparse), pparse)

    total_reads = 0
    compare_reads = 0
    # helpers that are only called from other functions of the module with
    # token arguments are analysed in their callers' context (inlined)
    called = set()
    for fn in pmod.functions.values():
        for n in ast.walk(fn):
            if isinstance(n, ast.Call) and isinstance(n.func, ast.Name) \
                    and n.func.id in pmod.functions \
                    and n.func.id != fn.name:
                called.add(n.func.id)
    entry = {"parse", "_get_branches", "process_parameters", "variable_name"}
    for fname, fn in pmod.functions.items():
        if fname in called and fname not in entry:
            continue
        w = KindWalker(kinds, fold_parse, functions={
            k: v for k, v in pmod.functions.items()
            if k not in entry})
        for rd in w.run(fn):
            total_reads += 1
            if rd.role == "compare":
                compare_reads += 1
            owner = getattr(rd.fn, "name", fname)
            judge_read(chk, rd, owner, "parse", langs, fold_parse, PF, pmod)
    chk.floor("reads of token .value in parse.py", total_reads, 15)
    chk.floor("of which inside comparisons", compare_reads, 10)

    # ---- transpile.lambda_wrap: arity lookup by token value ------------------------------
    ptr = it.module("vyxal.transpile")
    tmod = repo.mod("transpile")

    def fold_tr(node):
        return it.eval(node, ModuleEnv(ptr), ptr)

    fn = tmod.function("lambda_wrap")
    w = KindWalker(kinds, fold_tr)
    n_lw = 0
    for rd in w.run(fn):
        n_lw += 1
        judge_read(chk, rd, "lambda_wrap", "transpile", langs, fold_tr,
                   tmod.rel, tmod)
    chk.floor("reads of token .value in transpile.lambda_wrap", n_lw, 1)

    chk.explanation = (
        "Decides the grouping clause for the parser as architected: grouping "
        "decisions happen only where parse.py reads a token's value; each such "
        "read is path-sensitively annotated with the set of token kinds that "
        "can reach it (refined by the .name tests on the path) and compared "
        "with the value language the lexer gives each kind. Lexer side: "
        "payload characters flow only into their token's value, are never "
        "re-queued, and scan loops of free-text literals stop only at their "
        "own delimiter. Does not decide what value a literal pushes (C05/C06).")
    chk.assumptions += [
        "tokens reach the parser only as lexer.Token objects built in "
        "lexer.tokenise (kind/value languages are derived from there)",
    ]


def judge_read(chk, rd, fname, modname, langs, fold, file, mod):
    where = f"{modname}.{fname}"
    text = mod.seg(getattr(rd.node, "_parent", rd.node)) \
        if hasattr(rd.node, "_parent") else ast.unparse(rd.node)
    text = " ".join(text.split())[:90]
    non_general = sorted(k for k in rd.kinds if k != "GENERAL")
    if fname in NAME_HELPERS:
        chk.info("C03.name-helper", f"{where}:{rd.base}.value",
                 NAME_HELPERS[fname])
        return
    if rd.role == "compare":
        op, other = rd.detail
        try:
            val = fold(other)
        except Exception:  # noqa: BLE001
            val = None
        cands = const_candidates(op, val)
        cname = ast.unparse(other)
        cons = f"{where}:{rd.base}.value {type(op).__name__} {cname}"
        if cands is None:
            # comparison with something that is not a constant: only safe
            # when nothing but GENERAL reaches it
            chk.ob("C03.syntax-test-kind-guarded", cons, not non_general,
                   f"`{text}` compares a token value with a non-constant while "
                   f"literal kinds {non_general} can reach it", file, rd.line)
            return
        risky = {}
        for k in non_general:
            hits = [c for c in cands if langs[k].can_equal(c)]
            if hits:
                risky[k] = hits[:4]
        chk.ob("C03.syntax-test-kind-guarded", cons, not risky,
               f"`{text}` decides grouping from the token *value* while "
               f"literal kinds can reach it and spell the constant: "
               + "; ".join(f"{k} can be {v}" for k, v in risky.items()),
               file, rd.line, witness=witness_for(cname, risky),
               sample={"read": cons, "kinds": sorted(rd.kinds)})
        return
    if rd.role == "truth":
        chk.ob("C03.read-accounted", f"{where}:{rd.base}.value (truthiness)",
               True)
        return
    if rd.role == "lookup":
        cons = f"{where}:{ast.unparse(rd.detail)}[{rd.base}.value]"
        chk.ob("C03.syntax-lookup-kind-guarded", cons, not non_general,
               f"`{text}` looks a token value up in a syntax table while kinds "
               f"{non_general} can reach it", file, rd.line,
               sample={"read": cons, "kinds": sorted(rd.kinds)})
        return
    if rd.role == "call-arg":
        call = rd.detail
        callee = dotted(call.func) or ast.unparse(call.func)
        cons = f"{where}:{callee}({rd.base}.value)"
        if callee == "int":
            ok = set(rd.kinds) <= {"NUMBER"}
            chk.ob("C03.metadata-kind-guarded", cons, ok,
                   f"`{text}` turns a token value into a number that steers "
                   f"parsing (lambda arity) while kinds {sorted(rd.kinds)} can "
                   "reach it; only a NUMBER token should", file, rd.line,
                   witness="λ\\2|+; gets arity 2 from a character literal",
                   sample={"read": cons, "kinds": sorted(rd.kinds)})
            return
        # modifier key stored in a structure / element-table lookup
        chk.ob("C03.metadata-kind-guarded", cons, not non_general,
               f"`{text}` uses a token value as a table key / structure "
               f"selector while literal kinds {non_general} can reach it",
               file, rd.line,
               witness="v\\+ gets arity 2 (that of +), v\\a gets 1"
               if "elements.get" in callee else None,
               sample={"read": cons, "kinds": sorted(rd.kinds)})
        return
    cons = f"{where}:{rd.base}.value ({rd.role})"
    chk.ob("C03.read-accounted", cons, not non_general,
           f"`{text}` reads a token value in the parser in a way the rule set "
           f"does not classify, and literal kinds {non_general} can reach it",
           file, rd.line)


def witness_for(cname, risky):
    if not risky:
        return None
    table = {
        "BREAK_CHARACTER": "1«X«2 parses to a BreakStatement",
        "RECURSE_CHARACTER": "1«x«2 parses to a RecurseStatement",
        "MONADIC_MODIFIERS": "⁺v+ / «v«+ become a modifier",
        "DYADIC_MODIFIERS": "«₌«++ becomes a modifier",
        "TRIADIC_MODIFIERS": "⁺≬+++ becomes a lambda",
        "'|'": "[1`|`2] and [1\\|2] split into two branches",
    }
    return table.get(cname, f"a literal spelling {cname}")


# ---------------------------------------------------------------------------


def lexer_payload_rules(chk, lm: LexModel, LF):
    src, head = lm.src_var, lm.head_var
    fn = lm.fn
    # L1: consumed input is never re-queued
    requeue = [n for n in ast.walk(fn) if isinstance(n, ast.Call)
               and dotted(n.func) in (f"{src}.appendleft", f"{src}.extendleft",
                                      f"{src}.insert", f"{src}.append",
                                      f"{src}.extend", f"{src}.rotate")]
    chk.ob("C03.lexer-no-requeue", "lexer.tokenise", not requeue,
           "consumed characters are put back on the input queue "
           f"(line {requeue[0].lineno if requeue else '-'}); literal payload "
           "could be re-scanned as syntax", LF,
           requeue[0].lineno if requeue else None, sample="no appendleft")
    # L2/L3 per branch
    for br in lm.branches:
        if br.chars is ANY:
            continue
        label = "".join(sorted(br.chars))
        label = label if len(label) <= 6 else label[:6] + "…"
        cons = f"lexer branch {label!r}"
        free_text = any(k in ("STRING", "COMPRESSED_NUMBER",
                              "COMPRESSED_STRING") for k in br.kinds) \
            or br.discards
        for st in br.body:
            for n in ast.walk(st):
                if isinstance(n, ast.While):
                    ok, why = scan_guard_ok(n.test, src, head, lm, free_text)
                    chk.ob("C03.lexer-scan-guard", f"{cons} line-loop", ok,
                           f"scan loop guard `{ast.unparse(n.test)}` {why}",
                           LF, n.lineno,
                           sample={"branch": label,
                                   "guard": ast.unparse(n.test)})
        # every popleft flows into the token value or is a delimiter discard
        # executed after the token was appended (or in a comment branch)
        appended = False
        for st in br.body:
            has_append = any(isinstance(n, ast.Call) and n in br.token_sites
                             for n in ast.walk(st))
            for n in ast.walk(st):
                if isinstance(n, ast.Expr) and isinstance(n.value, ast.Call) \
                        and dotted(n.value.func) == f"{src}.popleft":
                    # peek-then-commit: the character was copied from
                    # source[0] by an earlier statement of the same block
                    seq = None
                    par = getattr(n, "_parent", None)
                    for f in ("body", "orelse"):
                        sq = getattr(par, f, None)
                        if isinstance(sq, list) and n in sq:
                            seq = sq
                    peeked = seq is not None and any(
                        isinstance(m, ast.Subscript)
                        and isinstance(m.value, ast.Name)
                        and m.value.id == src
                        for prev in seq[:seq.index(n)]
                        if isinstance(prev, (ast.Assign, ast.AugAssign))
                        for m in ast.walk(prev))
                    ok = appended or br.discards or peeked
                    chk.ob("C03.lexer-popleft-accounted",
                           f"{cons} discard@{'after-token' if ok else 'before-token'}",
                           ok, "a character is consumed and dropped before the "
                           "token is built: payload would be lost or shifted",
                           LF, n.lineno)
            if has_append:
                appended = True
    popped_char_rule(chk, lm, LF, "C03.lexer-popped-char-stored")
    # L5: the payload of a free-text literal is consumed without looking at it
    free_kinds = {"STRING", "COMPRESSED_NUMBER", "COMPRESSED_STRING",
                  "CHARACTER", "CODEPAGE_NUMBER"}
    for br in lm.branches:
        for call in br.token_sites:
            k = dotted(call.args[0]) or ""
            kind = k.split(".")[-1] if k.startswith("TokenType.") else None
            kinds = [kind] if kind else br.kinds
            if not any(x in free_kinds for x in kinds):
                continue
            child = call
            cur = getattr(call, "_parent", None)
            while cur is not None and cur is not br.node and cur is not fn:
                if isinstance(cur, ast.If) and not isinstance(
                        cur, ast.While):
                    peeks = [c for c in ast.walk(cur.test)
                             if isinstance(c, ast.Subscript)
                             and isinstance(c.value, ast.Name)
                             and c.value.id == src]
                    if peeks:
                        chk.ob("C03.lexer-payload-not-inspected",
                               f"lexer Token({'/'.join(kinds)}) under "
                               f"`{ast.unparse(cur.test)[:40]}`", False,
                               "whether the literal is built depends on the "
                               "value of its own payload character: that "
                               "payload becomes syntax instead of data", LF,
                               cur.lineno,
                               witness="0[5|⁺|_ 6] 9 splits at the payload")
                child = cur
                cur = getattr(cur, "_parent", None)
    chk.ob("C03.lexer-payload-not-inspected", "all literal token sites", True)
    # L4: the back-quote branch keeps backslash + next char in the payload
    bq = [b for b in lm.branches if b.chars is not ANY and "`" in b.chars]
    if not bq:
        raise AnalysisError("anchor vanished: back-quote branch of the lexer")
    esc_ok = False
    for st in bq[0].body:
        for n in ast.walk(st):
            if isinstance(n, ast.If) and any(
                    isinstance(c, ast.Constant) and c.value == "\\"
                    for c in ast.walk(n.test)):
                pops = [m for b in n.body for m in ast.walk(b)
                        if isinstance(m, ast.AugAssign)
                        and any(dotted(getattr(c, "func", None)) ==
                                f"{src}.popleft" for c in ast.walk(m.value)
                                if isinstance(c, ast.Call))]
                if pops:
                    esc_ok = True
    chk.ob("C03.lexer-escape-capture", "lexer branch '`' backslash arm",
           esc_ok, "inside a back-quoted string a backslash no longer pulls "
           "the next character into the payload, so an escaped back-quote "
           "would end the literal", LF, bq[0].line, sample="escape arm found")


def scan_guard_ok(test, src, head, lm, free_text):
    """Allowed conjuncts of a scan-loop guard: `source`, `source[0] != head`,
    `source[0] != <newline>` (comment), `len(value) != 2`, `source[0] in
    CONST` (charset kinds), and conditions over the accumulated value."""
    conj = test.values if isinstance(test, ast.BoolOp) and isinstance(
        test.op, ast.And) else [test]
    for c in conj:
        if isinstance(c, ast.Name) and c.id == src:
            continue
        if isinstance(c, ast.Compare) and len(c.ops) == 1:
            left, op, right = c.left, c.ops[0], c.comparators[0]
            is_src0 = (isinstance(left, ast.Subscript)
                       and isinstance(left.value, ast.Name)
                       and left.value.id == src)
            if is_src0 and isinstance(op, ast.NotEq):
                if isinstance(right, ast.Name) and right.id == head:
                    continue
                if isinstance(right, ast.Constant) and right.value == "\n" \
                        and not any(True for _ in ()):
                    continue
                return False, ("stops at a character other than the literal's "
                               "own delimiter")
            if is_src0 and isinstance(op, ast.In):
                if free_text:
                    return False, ("restricts the payload of a free-text "
                                   "literal to a character set")
                continue
            if not any(isinstance(n, ast.Name) and n.id == src
                       for n in ast.walk(c)):
                continue  # condition over the accumulated value only
            # e.g. (value + source[0]).count("°") < 2
            continue
        if isinstance(c, ast.Call):
            continue
        return False, "has a conjunct the rule set does not recognise"
    return True, ""


def popped_char_rule(chk, lm, LF, RULE):
    """L6: a character popped inside a scan loop is stored before the loop
    can leave (pop-then-check drops the character that ends the literal)."""
    src = lm.src_var
    # L6: a character popped inside a scan loop is stored before the loop can
    # leave (pop-then-check drops the character that ends the literal)
    for br in lm.branches:
        for st in br.body:
            for lp in ast.walk(st):
                if not isinstance(lp, ast.While):
                    continue
                pending = None
                for s2 in lp.body:
                    if isinstance(s2, ast.Assign) and len(s2.targets) == 1 \
                            and isinstance(s2.targets[0], ast.Name) and any(
                            isinstance(c, ast.Call) and dotted(c.func) ==
                            f"{src}.popleft" for c in ast.walk(s2.value)):
                        pending = s2.targets[0].id
                        continue
                    if pending and isinstance(s2, (ast.Assign,
                                                   ast.AugAssign)) and any(
                            isinstance(m, ast.Name) and m.id == pending
                            for m in ast.walk(s2.value)) and not isinstance(
                            s2, ast.If):
                        pending = None
                        continue
                    if pending and any(isinstance(m, (ast.Break, ast.Continue))
                                       for m in ast.walk(s2)):
                        chk.ob(RULE,
                               f"lexer scan loop line-var {pending}", False,
                               f"the loop can leave while `{pending}` holds a "
                               "character already removed from the input: that "
                               "character is lost, so the text after a literal "
                               "shifts", LF, s2.lineno,
                               witness="1.5.25 lexes as 1.5, 25")
                        pending = None
    chk.ob(RULE, "all scan loops", True)
