"""C20 - every element is typeable in one byte per character and reachable.

All obligations are finite and discharged by folding constants of the current
sources (code page, tables, parser constants, lexer head-dispatch table) and by
reading documents/knowledge/elements.yaml."""

from __future__ import annotations

import ast

from ..core import AnalysisError, read_elements_yaml, dotted, enclosing_function
from ..lexprobe import LexProbe
from ..pe import Interp, PRaise
from ..templates import table_keys_with_nodes, Gen

level = "other"

# documented glyphs that are not program characters (frozen, one reason each)
YAML_NON_CODEPAGE_OK = {
    "␤": "documentation glyph standing for the newline character (\\n is at "
         "code-page index 10); not typed in programs",
}
YAML_KEY_ALIASES = {"␤": "\n"}


def _homomorphism(fn: ast.FunctionDef):
    """`acc = ""; for c in param: acc += f(c); return acc` -> (loopvar, expr)."""
    body = [s for s in fn.body
            if not (isinstance(s, ast.Expr)
                    and isinstance(s.value, ast.Constant))]
    if len(body) != 3:
        return None
    init, loop, ret = body
    if not (isinstance(init, ast.Assign) and isinstance(init.value, ast.Constant)
            and init.value.value == "" and isinstance(loop, ast.For)
            and isinstance(ret, ast.Return)):
        return None
    acc = init.targets[0].id
    if not (isinstance(loop.iter, ast.Name)
            and loop.iter.id == fn.args.args[0].arg
            and isinstance(loop.target, ast.Name)
            and len(loop.body) == 1
            and isinstance(loop.body[0], ast.AugAssign)
            and isinstance(loop.body[0].op, ast.Add)
            and isinstance(loop.body[0].target, ast.Name)
            and loop.body[0].target.id == acc
            and isinstance(ret.value, ast.Name) and ret.value.id == acc):
        return None
    expr = loop.body[0].value
    names = {n.id for n in ast.walk(expr) if isinstance(n, ast.Name)}
    if acc in names:
        return None
    return loop.target.id, expr


def program_bytes_verbatim(chk, repo):
    """A program stored one byte per character reaches the byte-to-text
    converter unchanged: the file behind every vyxal_to_utf8(...) in main.py
    is opened in binary mode (a text-mode handle translates 0x0D / 0x0D 0x0A
    into 0x0A unless newline='' is given)."""
    main = repo.mod("main")
    n = 0
    def open_info(call):
        mode = call.args[1] if len(call.args) > 1 else next(
            (k.value for k in call.keywords if k.arg == "mode"), None)
        mtxt = mode.value if isinstance(mode, ast.Constant) \
            else ("r" if mode is None else None)
        newline = next((k.value for k in call.keywords
                        if k.arg == "newline"), None)
        verbatim = isinstance(newline, ast.Constant) and newline.value == ""
        return (mtxt is not None and "b" in mtxt) or verbatim

    def arm_of(node, fn):
        """the innermost if/else arm (statement list) that contains node"""
        child = node
        cur = getattr(node, "_parent", None)
        while cur is not None and cur is not fn:
            if isinstance(cur, ast.If):
                for arm in (cur.body, cur.orelse):
                    if any(child is x for x in arm):
                        return arm
            child = cur
            cur = getattr(cur, "_parent", None)
        return None

    def inside(node, arm):
        return arm is None or any(node is d for st in arm
                                  for d in ast.walk(st))

    for fn in main.functions.values():
        # (assignment, local name, open call) for `name = handle.read()`
        reads = []
        for w in ast.walk(fn):
            if not isinstance(w, ast.With):
                continue
            for item in w.items:
                oc, var = item.context_expr, item.optional_vars
                if not (isinstance(oc, ast.Call) and dotted(oc.func) in (
                        "open", "io.open") and isinstance(var, ast.Name)):
                    continue
                for a in [x for st in w.body for x in ast.walk(st)]:
                    if isinstance(a, ast.Assign) and len(a.targets) == 1 \
                            and isinstance(a.targets[0], ast.Name) and any(
                            isinstance(m, ast.Call) and isinstance(
                                m.func, ast.Attribute) and m.func.attr in (
                                "read", "readlines", "readline")
                            and isinstance(m.func.value, ast.Name)
                            and m.func.value.id == var.id
                            for m in ast.walk(a.value)):
                        reads.append((a, a.targets[0].id, oc))
        for c in ast.walk(fn):
            if not (isinstance(c, ast.Call) and (dotted(c.func) or ""
                                                 ).endswith("vyxal_to_utf8")
                    and c.args):
                continue
            n += 1
            names = {m.id for m in ast.walk(c.args[0])
                     if isinstance(m, ast.Name)}
            srcs = [oc for a, nm, oc in reads
                    if nm in names and inside(c, arm_of(a, fn))]
            # the handle read directly in the argument: f.read() under
            # `with open(...) as f`
            cur = getattr(c, "_parent", None)
            while cur is not None and cur is not fn:
                if isinstance(cur, ast.With):
                    for item in cur.items:
                        if isinstance(item.optional_vars, ast.Name) \
                                and item.optional_vars.id in names \
                                and isinstance(item.context_expr, ast.Call):
                            srcs.append(item.context_expr)
                cur = getattr(cur, "_parent", None)
            bad = [oc for oc in srcs if not open_info(oc)]
            chk.ob("C20.program-bytes-read-verbatim",
                   f"main.{fn.name}:{ast.unparse(c)[:50]}",
                   bool(srcs) and not bad,
                   ("the bytes handed to vyxal_to_utf8 come from "
                    f"`{ast.unparse(bad[0])[:60]}`, a text-mode "
                    "handle: universal newlines turn byte 0x0D (and 0x0D "
                    "0x0A) into 0x0A, so the element on that byte cannot be "
                    "written in a one-byte-per-character file") if bad else
                   "the source of the bytes handed to vyxal_to_utf8 could "
                   "not be traced to an open(...) in this function",
                   main.rel, c.lineno,
                   witness="file `8 2•` (• is byte 0x0D) run with flag v")
    chk.floor("vyxal_to_utf8 calls in main.py", n, 1)


def sibling_codepages(chk, repo, codepage, F):
    """The byte value of a character is its position in the code page; the
    repository writes the table down three times (the interpreter, the web
    editor's static/main.js, the documentation generator).  Position by
    position they must agree (the copies spell newline and space as the
    symbols for them)."""
    import os
    import re
    copies = {}
    for rel in ("static/main.js", "documents/knowledge/yaml_to_js.py"):
        path = os.path.join(repo.root, rel)
        if not os.path.exists(path):
            continue
        text = open(path, encoding="utf-8").read()
        m = re.search(r'(?:var\s+)?codepage\s*=\s*"((?:[^"\\]|\\.)*)"', text)
        if not m:
            continue
        parts = [m.group(1)]
        pos = m.end()
        while True:
            m2 = re.compile(r'\s*;?\s*codepage\s*\+=\s*"((?:[^"\\]|\\.)*)"'
                            ).match(text, pos)
            if not m2:
                break
            parts.append(m2.group(1))
            pos = m2.end()
        raw = "".join(parts)
        raw = re.sub(r"\\(.)", lambda q: {"n": "\n", "t": "\t"}.get(
            q.group(1), q.group(1)), raw)
        copies[rel] = raw.replace("\u2424", "\n").replace("\u2420", " ")
    chk.floor("sibling copies of the code page", len(copies), 1)
    for rel, other in copies.items():
        diff = [i for i in range(min(len(other), len(codepage)))
                if other[i] != codepage[i]]
        ok = not diff and len(other) == len(codepage)
        chk.ob("C20.codepage-agrees-with-its-copies", rel, ok,
               (f"byte {diff[0]} is {codepage[diff[0]]!r} in "
                f"vyxal/encoding.py but {other[diff[0]]!r} in {rel}"
                if diff else f"lengths differ ({len(codepage)} vs "
                f"{len(other)})")
               + ": a program typed in the editor / stored as bytes means "
               "something else to the interpreter", F,
               witness=f"byte {diff[0]}" if diff else None,
               sample={"copy": rel, "length": len(other)})


def check(chk, repo, tier):
    it = Interp(repo)
    enc = repo.mod("encoding")
    penc = it.module("vyxal.encoding")
    codepage = penc.get("codepage")
    chk.trusted_base += ["CPython ast", "vystatic.pe constant folder"]
    F = enc.rel

    sibling_codepages(chk, repo, codepage, F)

    # ---- (1) code page is a bijection byte <-> character -------------------
    chk.ob("C20.codepage-256", "encoding.codepage", isinstance(codepage, str)
           and len(codepage) == 256,
           f"code page has {len(codepage)} entries, expected 256", F,
           sample={"len": len(codepage)})
    seen = {}
    for i, ch in enumerate(codepage):
        ok = ch not in seen
        chk.ob("C20.codepage-distinct", f"encoding.codepage[{i}]", ok,
               f"character {ch!r} occurs at indices {seen.get(ch)} and {i}", F)
        seen.setdefault(ch, i)

    # ---- (2) byte<->text converters use the same constant, per character ----
    f_to = enc.function("vyxal_to_utf8")
    f_from = enc.function("utf8_to_vyxal")
    # both converters act character by character: conv(a + b) = conv(a) +
    # conv(b), checked on every pair of control bytes / quote / backslash /
    # boundary bytes (interpreting the current source)
    p_to0 = penc.get("vyxal_to_utf8")
    p_from0 = penc.get("utf8_to_vyxal")
    reps = sorted(set(range(0, 33)) | {34, 39, 92, 96, 127, 128, 254, 255})
    for label, conv, mk in (
            ("vyxal_to_utf8", p_to0, lambda xs: list(xs)),
            ("utf8_to_vyxal", p_from0,
             lambda xs: "".join(codepage[x] for x in xs))):
        bad = None
        try:
            single = {b: conv(mk([b])) for b in reps}
            for a in reps:
                for b2 in reps:
                    if conv(mk([a, b2])) != single[a] + single[b2]:
                        bad = bad or (a, b2)
        except (PRaise, Exception) as exc:  # noqa: BLE001
            bad = ("raised", repr(exc))
        chk.ob("C20.codec-per-character", f"encoding.{label}", bad is None,
               f"the converter does not act character by character: the pair "
               f"{bad} is not converted to the concatenation of its parts "
               "(so text -> bytes -> text is not the identity on strings)",
               F, witness=repr(bad) if bad else None,
               sample={"byte pairs": len(reps) ** 2})
    p_to = penc.get("vyxal_to_utf8")
    p_from = penc.get("utf8_to_vyxal")
    bad_rt = []
    for b in range(256):
        try:
            ch = p_to([b])
            back = p_from(ch)
            ok = back == chr(b) and len(ch) == 1
        except (PRaise, Exception) as exc:  # noqa: BLE001
            ok, ch, back = False, None, repr(exc)
        chk.ob("C20.byte-roundtrip", f"byte {b}", ok,
               f"byte {b} -> {ch!r} -> {back!r}", F, f_to.lineno)
        if not ok:
            bad_rt.append(b)
    for i, ch in enumerate(codepage):
        try:
            ok = p_to([ord(c) for c in p_from(ch)]) == ch
        except (PRaise, Exception):  # noqa: BLE001
            ok = False
        chk.ob("C20.char-roundtrip", f"codepage[{i}]", ok,
               f"character {ch!r} does not survive text->bytes->text", F,
               f_from.lineno)

    program_bytes_verbatim(chk, repo)

    # ---- tables ---------------------------------------------------------------
    el_entries = table_keys_with_nodes(repo, "elements")
    mod_entries = table_keys_with_nodes(repo, "modifiers")
    EF = repo.mod("elements").rel
    chk.floor("element table entries", len(el_entries), 300)
    chk.floor("modifier table entries", len(mod_entries), 5)
    pparse = it.module("vyxal.parse")
    PF = repo.mod("parse").rel
    info = pparse.get("STRUCTURE_INFORMATION")
    openers = list(info.keys())
    closers = [v[1] for v in info.values()]
    mods_parse = {
        "MONADIC_MODIFIERS": list(pparse.get("MONADIC_MODIFIERS")),
        "DYADIC_MODIFIERS": list(pparse.get("DYADIC_MODIFIERS")),
        "TRIADIC_MODIFIERS": list(pparse.get("TRIADIC_MODIFIERS")),
    }
    all_parse_mods = [m for v in mods_parse.values() for m in v]
    brk = pparse.get("BREAK_CHARACTER")
    rec = pparse.get("RECURSE_CHARACTER")
    chk.floor("structure openers", len(openers), 9)

    # (5') the tables are what their literal says: bound once, never written
    from ..templates import table_bindings  # noqa: PLC0415
    pkg_mods = [m for m in repo.package_modules()
                if not m.endswith(".dictionary")]
    for tname in ("elements", "modifiers"):
        binds = table_bindings(repo, tname)
        extra = [b for b in binds if not isinstance(b, ast.Dict)]
        chk.ob("C20.table-is-its-literal", f"elements.{tname}",
               len(binds) == 1 and not extra,
               f"the name `{tname}` is bound {len(binds)} times at module "
               "level" + (f" (also to `{ast.unparse(extra[0])[:50]}`)"
                          if extra else "")
               + ": the table the interpreter uses is not the documented "
               "literal (a defaultdict, for instance, gains a key for every "
               "unknown token it is asked about)", EF,
               extra[0].lineno if extra else None,
               witness="run `kX` twice under a modifier: the table has "
                       "grown an undocumented arity -1 entry")
        writes = []

        def is_local(node, name):
            """the name is a parameter / local of the enclosing function"""
            fn_ = enclosing_function(node)
            while fn_ is not None:
                if isinstance(fn_, (ast.FunctionDef, ast.Lambda)):
                    a_ = fn_.args
                    if name in {x.arg for x in a_.posonlyargs + a_.args
                                + a_.kwonlyargs}:
                        return True
                    if isinstance(fn_, ast.FunctionDef) and any(
                            isinstance(x, ast.Name) and x.id == name
                            and isinstance(x.ctx, ast.Store)
                            for x in ast.walk(fn_)):
                        return True
                fn_ = enclosing_function(fn_)
            return False

        for modname in pkg_mods:
            m = repo.mod(modname)
            for n in ast.walk(m.tree):
                if isinstance(n, (ast.Assign, ast.AugAssign, ast.AnnAssign,
                                  ast.Delete, ast.Call)) and is_local(n, tname):
                    continue
                tg = []
                if isinstance(n, ast.Assign):
                    tg = n.targets
                elif isinstance(n, (ast.AugAssign, ast.AnnAssign)):
                    tg = [n.target]
                elif isinstance(n, ast.Delete):
                    tg = n.targets
                for t in tg:
                    if isinstance(t, ast.Subscript) and (dotted(t.value) or ""
                                                         ).split(".")[-1] == \
                            tname:
                        writes.append((m, n))
                if isinstance(n, ast.Call) and isinstance(
                        n.func, ast.Attribute) and n.func.attr in (
                        "setdefault", "update", "pop", "popitem", "clear",
                        "__setitem__") and (dotted(n.func.value) or ""
                                            ).split(".")[-1] == tname:
                    writes.append((m, n))
        chk.ob("C20.table-never-written", f"elements.{tname}", not writes,
               (f"`{ast.unparse(writes[0][1])[:60]}` changes the table at "
                "run time") if writes else "",
               writes[0][0].rel if writes else EF,
               writes[0][1].lineno if writes else None)

    # (5) duplicate keys
    for tname, entries in (("elements", el_entries), ("modifiers", mod_entries)):
        first = {}
        for key, knode, _ in entries:
            ok = key not in first
            chk.ob("C20.no-duplicate-key", f"{tname}[{key!r}]", ok,
                   f"key {key!r} appears at lines {first.get(key)} and "
                   f"{knode.lineno}; the earlier entry is unreachable",
                   EF, knode.lineno)
            first.setdefault(key, knode.lineno)

    # (3) every key is written with code-page characters
    def in_cp(rule_c, text, where, line=None):
        bad = [c for c in text if c not in codepage]
        chk.ob("C20.key-in-codepage", rule_c, not bad,
               f"{text!r} uses characters outside the code page: {bad}",
               where, line, sample=text)

    for key, knode, _ in el_entries:
        in_cp(f"elements[{key!r}]", key, EF, knode.lineno)
    for key, knode, _ in mod_entries:
        in_cp(f"modifiers[{key!r}]", key, EF, knode.lineno)
    for o, c in zip(openers, closers):
        in_cp(f"STRUCTURE_INFORMATION[{o!r}]", o + c, PF)
    for lname, lst in mods_parse.items():
        for m in lst:
            in_cp(f"parse.{lname}[{m!r}]", m, PF)
    in_cp("parse.BREAK_CHARACTER", brk, PF)
    in_cp("parse.RECURSE_CHARACTER", rec, PF)

    # (4) every key lexes as exactly one GENERAL token (the current tokenise is
    # interpreted on the key itself)
    lp = LexProbe(repo, it)
    LF = repo.mod("lexer").rel
    # a key is reachable in every program, not only in the first one lexed:
    # the lexer must not remember earlier texts (a token pool keyed by the
    # character alone turns `+` into the CHARACTER token of an earlier `\+`)
    from ..lexlaws import law_stateless  # noqa: PLC0415
    if not law_stateless(chk, lp, "C20.lexer-stateless", LF):
        return
    dig_heads = lp.digraph_heads()
    chk.unit("digraph heads (by probing)", "".join(sorted(
        h for h in dig_heads if len(h) == 1)))
    if not [h for h in dig_heads if len(h) == 1]:
        raise AnalysisError("no digraph head found by probing the lexer")
    chk.unit("token kinds by head", {
        k: "".join(sorted(x for x in lp.heads_of(k) if len(x) == 1))[:40]
        for k in lp.kinds if k != "GENERAL"})

    prefixes = lp.neutral_prefixes()
    chk.unit("neutral context characters (class representatives)",
             "".join(prefixes))
    if len(prefixes) < 5:
        raise AnalysisError("fewer than 5 context characters found by "
                            "probing the lexer")

    def one_token(construct, key, where, line=None):
        ok, why = lp.lexes_as_one_general(key)
        chk.ob("C20.lexes-as-one-token", construct, ok,
               f"{key!r} is not scanned as one GENERAL token: {why}",
               where, line, sample={"key": key, "why": why})
        if ok:
            ok2, a, got = lp.lexes_as_one_general_after(key, prefixes)
            chk.ob("C20.lexes-as-one-token-in-context", construct, ok2,
                   f"after {a!r} the key {key!r} is not its own token: "
                   f"{(a or '') + key!r} is scanned as {got}", where, line,
                   witness=(a or "") + key)

    for key, knode, _ in el_entries:
        one_token(f"elements[{key!r}]", key, EF, knode.lineno)
    for key, knode, _ in mod_entries:
        one_token(f"modifiers[{key!r}]", key, EF, knode.lineno)
    for o, c in zip(openers, closers):
        one_token(f"opener {o!r}", o, PF)
        one_token(f"closer {c!r}", c, PF)
    for lname, lst in mods_parse.items():
        for m in lst:
            one_token(f"parse.{lname}[{m!r}]", m, PF)
    one_token("parse.BREAK_CHARACTER", brk, PF)
    one_token("parse.RECURSE_CHARACTER", rec, PF)
    one_token("branch separator '|'", "|", PF)

    # (6) no element key is shadowed by syntax
    syntax = {}
    for o in openers:
        syntax[o] = "structure opener"
    for c in closers:
        syntax.setdefault(c, "structure closer")
    for m in all_parse_mods:
        syntax.setdefault(m, "modifier")
    syntax.setdefault(brk, "break character")
    syntax.setdefault(rec, "recurse character")
    syntax.setdefault("|", "branch separator")
    syntax.setdefault(" ", "ignored by the parser")
    for key, knode, _ in el_entries:
        chk.ob("C20.not-shadowed-by-syntax", f"elements[{key!r}]",
               key not in syntax,
               f"element {key!r} can never run: the parser treats it as "
               f"{syntax.get(key)}", EF, knode.lineno)
    for key, knode, _ in mod_entries:
        bad = key in openers or key in closers or key in (brk, rec, "|", " ")
        chk.ob("C20.not-shadowed-by-syntax", f"modifiers[{key!r}]", not bad,
               f"modifier {key!r} is shadowed by structure syntax", EF,
               knode.lineno)
    # a character may be in at most one modifier list, and not an opener
    for lname, lst in mods_parse.items():
        for m in lst:
            others = [n for n, l2 in mods_parse.items()
                      if n != lname and m in l2]
            bad = bool(others) or m in openers or m in (brk, rec)
            chk.ob("C20.modifier-unambiguous", f"parse.{lname}[{m!r}]",
                   not bad, f"modifier {m!r} also is {others or 'syntax'}", PF)

    # (7) modifier tables agree
    special = _special_cased_modifiers(repo)
    mod_keys = {k for k, _, _ in mod_entries}
    for lname, lst in mods_parse.items():
        for m in lst:
            chk.ob("C20.modifier-has-template", f"parse.{lname}[{m!r}]",
                   m in mod_keys or m in special,
                   f"parse-level modifier {m!r} has neither a template in "
                   f"elements.modifiers nor a special case in parse()", PF,
                   sample={"modifier": m,
                           "via": "template" if m in mod_keys else "parse"})
    for key, knode, _ in mod_entries:
        chk.ob("C20.modifier-reachable", f"modifiers[{key!r}]",
               key in all_parse_mods,
               f"modifier template {key!r} is in no parse-level modifier list "
               "and can never be selected", EF, knode.lineno)
    # arity class of the template = arity class of the parse list
    need = {"MONADIC_MODIFIERS": {"function_A"},
            "DYADIC_MODIFIERS": {"function_A", "function_B"},
            "TRIADIC_MODIFIERS": {"function_A", "function_B", "function_C"}}
    mods_val = Gen(repo, it).modifiers()
    for lname, lst in mods_parse.items():
        for m in lst:
            if m in mods_val and isinstance(mods_val[m], str):
                used = {w for w in ("function_A", "function_B", "function_C")
                        if w in mods_val[m]}
                chk.ob("C20.modifier-arity", f"modifiers[{m!r}]",
                       used <= need[lname],
                       f"template of {m!r} uses {sorted(used)} but the parser "
                       f"supplies only {sorted(need[lname])}", EF)

    # (8) documented arity = table arity
    records = read_elements_yaml(repo)
    n_el = sum(1 for r in records if r["kind"] == "element")
    chk.floor("yaml element records", n_el, 400)
    YF = "documents/knowledge/elements.yaml"
    table = {}
    el_val = Gen(repo, it).elements()
    for key, _, _ in el_entries:
        v = el_val.get(key)
        if isinstance(v, tuple) and len(v) == 2:
            table[key] = v[1]
    seen_doc = set()
    for r in records:
        key = YAML_KEY_ALIASES.get(r["key"], r["key"])
        bad = [c for c in r["key"] if c not in codepage]
        if bad and r["key"] in YAML_NON_CODEPAGE_OK:
            chk.info("C20.yaml-key-in-codepage", f"yaml[{r['key']!r}]",
                     YAML_NON_CODEPAGE_OK[r["key"]])
        else:
            chk.ob("C20.yaml-key-in-codepage", f"yaml[{r['key']!r}]", not bad,
                   f"documented key {r['key']!r} uses characters outside the "
                   f"code page: {bad}", YF, r["line"])
        if r["kind"] != "element":
            chk.ob("C20.yaml-modifier-exists", f"yaml modifier {key!r}",
                   key in all_parse_mods,
                   f"documented modifier {key!r} is not a parse-level "
                   "modifier", YF, r["line"])
            continue
        ar = r.get("arity")
        if key in table and ar is not None and ar.strip('"').isdigit():
            doc = int(ar.strip('"'))
            chk.ob("C20.arity-matches-doc",
                   f"elements[{key!r}] vs doc record {r.get('name', '?')!r}",
                   table[key] == doc,
                   f"table arity {table[key]} but documented arity {doc}",
                   YF, r["line"], sample={"key": key, "arity": doc})
        elif key not in table and key not in syntax and len(key) <= 2 \
                and not bad:
            chk.ob("C20.documented-element-exists", f"yaml[{key!r}]",
                   _is_literal_syntax(key, lp),
                   f"documented element {key!r} is neither in the element "
                   "table nor structure/literal syntax", YF, r["line"])

    # thorough: every two-character string through the abstract lexer must
    # agree with the table on "one token" (no key is a prefix trap)
    if tier == "thorough":
        n = 0
        keys2 = {k for k, _, _ in el_entries if len(k) == 2}
        heads = {h for h in dig_heads if len(h) == 1}
        for a in codepage:
            for b2 in codepage:
                n += 1
                ok, _ = lp.lexes_as_one_general(a + b2)
                if (a + b2) in keys2:
                    chk.ob("C20.exhaustive-two-char", f"{a + b2!r}", ok,
                           "table key does not lex as one token", LF)
                elif ok and a not in heads:
                    chk.ob("C20.exhaustive-two-char", f"{a + b2!r}", False,
                           "non-digraph head accepted as digraph", LF)
        chk.unit("two-character strings lexed abstractly", n)
        chk.by_rule.setdefault("C20.exhaustive-two-char", [0, 0])
        chk.by_rule["C20.exhaustive-two-char"][0] += n
        chk.by_rule["C20.exhaustive-two-char"][1] += n
        chk.obligations += n
        chk.discharged += n

    chk.unit("elements", len(el_entries))
    chk.unit("modifiers", len(mod_entries))
    chk.unit("yaml records", len(records))
    chk.explanation = (
        "Finite and exhaustive: the code page, both converter functions, every "
        "key of the element/modifier/structure tables, the parser's modifier "
        "lists and every record of elements.yaml are folded from the current "
        "sources; each key is pushed through the lexer's head-dispatch table "
        "(extracted from the if/elif chain of lexer.tokenise) and compared "
        "with parser syntax and documented arity. Decides the whole statement "
        "except that 'matches the arity documented' is checked where the "
        "documentation gives a numeric arity.")
    chk.assumptions += [
        "elements.yaml keeps its regular '- element:' / two-space 'arity:' "
        "layout (read without a YAML library)",
        "the lexer is represented by interpreting its current source on the "
        "keys themselves (vystatic.pe subset; otherwise ANALYSIS-ERROR)",
    ]


def _is_literal_syntax(key, lp) -> bool:
    """the first character starts a literal / comment / digraph"""
    r = lp.run(key[0] + lp.other)
    return not (isinstance(r, list) and len(r) == 2
                and r[0] == ("GENERAL", key[0]))


def _special_cased_modifiers(repo) -> set[str]:
    """Modifier characters compared with `head.value` inside parse()."""
    fn = repo.mod("parse").function("parse")
    out = set()
    for n in ast.walk(fn):
        if isinstance(n, ast.Compare) and len(n.ops) == 1 and isinstance(
                n.ops[0], ast.Eq) and dotted(n.left) == "head.value" \
                and isinstance(n.comparators[0], ast.Constant):
            out.add(n.comparators[0].value)
    return out
