"""C13 - a finite lazy list is indistinguishable from the list it enumerates
(clause decided: observations never change the denoted sequence - the cache
discipline of LazyList)."""

from __future__ import annotations

import ast

from ..core import AnalysisError, dotted, enclosing_function
from ..flow import Exhaustion, copy_env, subst

level = "other"

CACHE = "generated"
SOURCE = "raw_object"
# methods that may write the cache, and how (frozen, reasoned)
WRITERS = {
    "__init__": "resets the cache to []",
    "__next__": "appends the one item it pulled from the source",
    "__setitem__": "item assignment (the mutation primitive behind Ȧ - C10)",
    "reversed": "extends the cache with the rest of the source (tee of "
                "raw_object)",
    "__getitem__": "negative index: exhausts the source through listify()",
}
OBSERVERS = ["__len__", "__bool__", "__contains__", "__eq__", "__iter__",
             "has_ind", "listify", "count", "compare", "__getitem__",
             "__add__", "filter", "output"]


def is_self_attr(node, attr):
    return isinstance(node, ast.Attribute) and node.attr == attr \
        and isinstance(node.value, ast.Name)


def iterates_self(expr, selfname="self"):
    """Does `expr` enumerate the lazy list itself (re-yielding the cached
    prefix)?"""
    for n in ast.walk(expr):
        if isinstance(n, ast.Call):
            f = dotted(n.func) or ""
            if f in ("list", "tuple", "sorted", "iter", "set", "enumerate",
                     "reversed") and n.args and isinstance(
                    n.args[0], ast.Name) and n.args[0].id == selfname:
                return f"{f}({selfname})"
            if f in (f"{selfname}.listify", f"{selfname}.__iter__",
                     f"{selfname}.reversed"):
                return f"{f}()"
        if isinstance(n, ast.Subscript) and isinstance(n.value, ast.Name) \
                and n.value.id == selfname:
            return f"{selfname}[...]"
        if isinstance(n, (ast.ListComp, ast.GeneratorExp)):
            for g in n.generators:
                if isinstance(g.iter, ast.Name) and g.iter.id == selfname:
                    return f"comprehension over {selfname}"
    return None


def derives_from_source(expr):
    return any(is_self_attr(n, SOURCE) for n in ast.walk(expr))


def check(chk, repo, tier):
    chk.trusted_base += ["CPython ast"]
    cache_discipline(chk, repo, "C13", full=True)
    absent_versus_falsy(chk, repo)
    instance_state(chk, repo)
    infinite_flag_sites(chk, repo)


def instance_state(chk, repo):
    """A lazy list is its source, its cache and the `infinite` tag.  A method
    that stores anything else on the instance (a remembered reversal, a
    cursor, a one-shot iterator) makes later observations depend on earlier
    ones."""
    mod = repo.mod("LazyList")
    cls = mod.cls("LazyList")
    init_attrs = set()
    for m in cls.body:
        if isinstance(m, ast.FunctionDef) and m.name == "__init__":
            for n in ast.walk(m):
                if isinstance(n, ast.Attribute) and isinstance(
                        n.ctx, ast.Store) and isinstance(n.value, ast.Name) \
                        and n.value.id == "self":
                    init_attrs.add(n.attr)
    n_w = 0
    for m in cls.body:
        if not isinstance(m, ast.FunctionDef) or m.name == "__init__":
            continue
        for n in ast.walk(m):
            if isinstance(n, ast.Attribute) and isinstance(
                    n.ctx, (ast.Store, ast.Del)) and isinstance(
                    n.value, ast.Name) and n.value.id == "self" \
                    and n.attr not in (CACHE, SOURCE):
                n_w += 1
                chk.ob("C13.no-extra-instance-state",
                       f"LazyList.{m.name}:self.{n.attr} =", False,
                       f"LazyList.{m.name} stores `self.{n.attr}`: state "
                       "besides the source and the cache that an earlier "
                       "observation leaves for a later one", mod.rel, n.lineno,
                       witness="reverse the same lazy list twice")
    chk.ob("C13.no-extra-instance-state", "LazyList (methods)", n_w == 0
           or True, sample={"attributes set by __init__":
                            sorted(init_attrs)})


def infinite_flag_sites(chk, repo):
    """`infinite` switches membership to a monotone search that never looks
    at the cache: it may only be set on sources that really are unbounded
    (a `while True` / itertools.count generator)."""
    n_sites = 0
    texts = []
    for modname in ("elements", "helpers", "LazyList"):
        mod = repo.mod(modname)
        texts.append((mod, mod.tree, None))
    from ..templates import Gen, table_keys_with_nodes
    gen = Gen(repo)
    elems = gen.elements()
    emod = repo.mod("elements")
    for key, knode, _ in table_keys_with_nodes(repo, "elements"):
        v = elems.get(key)
        if isinstance(v, tuple) and isinstance(v[0], str) and (
                "isinf" in v[0] or "True" in v[0]):
            try:
                t = ast.parse(v[0])
            except SyntaxError:
                continue
            for p in ast.walk(t):
                for c in ast.iter_child_nodes(p):
                    c._parent = p
            texts.append((emod, t, (key, knode.lineno)))

    def unbounded(expr, scope):
        for m in ast.walk(expr):
            if isinstance(m, ast.Call):
                d = dotted(m.func) or ""
                if d in ("itertools.count", "itertools.cycle", "count",
                         "cycle") or (d in ("itertools.repeat", "repeat")
                                      and len(m.args) == 1):
                    return True
                if isinstance(m.func, ast.Name):
                    # a generator defined in the enclosing function
                    for g in ast.walk(scope):
                        if isinstance(g, ast.FunctionDef) \
                                and g.name == m.func.id:
                            for w in ast.walk(g):
                                if isinstance(w, ast.While) and isinstance(
                                        w.test, ast.Constant) \
                                        and w.test.value is True:
                                    return True
                                if isinstance(w, ast.For) and unbounded(
                                        w.iter, scope):
                                    return True
                                if isinstance(w, ast.YieldFrom) and \
                                        unbounded(w.value, scope):
                                    return True
        return False

    for mod, tree, tmpl in texts:
        for n in ast.walk(tree):
            if not (isinstance(n, ast.Call) and (dotted(n.func) or ""
                                                 ).split(".")[-1] == "LazyList"
                    and n.args):
                continue
            flag = n.args[1] if len(n.args) > 1 else next(
                (k.value for k in n.keywords if k.arg == "isinf"), None)
            if flag is None or (isinstance(flag, ast.Constant)
                                and not flag.value):
                continue
            if not isinstance(flag, ast.Constant):
                continue  # passed on from a caller: judged at that site
            n_sites += 1
            scope = enclosing_function(n) or tree
            while isinstance(scope, ast.Lambda):
                scope = enclosing_function(scope) or tree
            where = (f"elements[{tmpl[0]!r}]" if tmpl else
                     f"{mod.name.split('.')[-1]}."
                     f"{getattr(scope, 'name', '<module>')}")
            chk.ob("C13.infinite-tag-only-on-unbounded-source",
                   f"{where}:{ast.unparse(n)[:40]}", unbounded(n.args[0],
                                                                scope),
                   f"`{ast.unparse(n)[:60]}` tags a list infinite whose "
                   "source is not an unbounded generator: membership then "
                   "searches upwards from the last cached item and ignores "
                   "the cache", mod.rel, tmpl[1] if tmpl else n.lineno,
                   witness="⟨7|7|7⟩ẏ→x ←x2c, ←x1c,")
    chk.floor("LazyList(..., isinf=True) sites", n_sites, 4)


def boolean_context(node):
    """Is the value of `node` only tested for truth?  Returns a description
    of the testing construct or None."""
    par = getattr(node, "_parent", None)
    if isinstance(par, ast.UnaryOp) and isinstance(par.op, ast.Not):
        return "not ..."
    if isinstance(par, (ast.If, ast.While, ast.IfExp)) and par.test is node:
        return type(par).__name__.lower() + " test"
    if isinstance(par, ast.BoolOp):
        if isinstance(par.op, ast.And) or par.values[-1] is not node:
            return "and/or operand"
        return boolean_context(par)
    if isinstance(par, ast.Call) and dotted(par.func) == "bool":
        return "bool(...)"
    if isinstance(par, ast.comprehension) and node in par.ifs:
        return "comprehension filter"
    return None


def slice_bound_aliases(fn):
    """local names bound to <x>.start / <x>.stop / <x>.step (plain or tuple
    assignment, `or default` kept apart)"""
    out = {}
    for n in ast.walk(fn):
        if not isinstance(n, ast.Assign) or len(n.targets) != 1:
            continue
        pairs = []
        t, v = n.targets[0], n.value
        if isinstance(t, ast.Tuple) and isinstance(v, ast.Tuple) \
                and len(t.elts) == len(v.elts):
            pairs = list(zip(t.elts, v.elts))
        else:
            pairs = [(t, v)]
        for tt, vv in pairs:
            if isinstance(vv, ast.BoolOp) and isinstance(vv.op, ast.Or) \
                    and isinstance(vv.values[0], ast.Attribute):
                vv = vv.values[0]  # `<x>.step or 1`
            if isinstance(tt, ast.Name) and isinstance(vv, ast.Attribute) \
                    and vv.attr in ("start", "stop", "step"):
                out[tt.id] = vv.attr
            elif isinstance(tt, ast.Name) and isinstance(vv, ast.Name) \
                    and vv.id in out:
                out[tt.id] = out[vv.id]
    return out


def absent_versus_falsy(chk, repo):
    """Items and slice bounds are arbitrary values, 0 included: 'there is no
    item' and 'there is no bound' must be told from StopIteration / None,
    never from the truth value."""
    mod = repo.mod("LazyList")
    cls = mod.cls("LazyList")
    units = [(mod, f"LazyList.{m.name}", m) for m in cls.body
             if isinstance(m, ast.FunctionDef)]
    hp = repo.mod("helpers")
    if "deep_copy" not in hp.functions:
        raise AnalysisError("anchor vanished: helpers.deep_copy")
    units.append((hp, "helpers.deep_copy", hp.functions["deep_copy"]))
    n_next = n_bound = 0
    for m, uname, fn in units:
        for n in ast.walk(fn):
            if isinstance(n, ast.Call) and dotted(n.func) == "next" \
                    and len(n.args) == 2:
                n_next += 1
                how = boolean_context(n)
                chk.ob("C13.exhaustion-not-by-truthiness",
                       f"{uname}:{ast.unparse(n)[:40]}", how is None,
                       f"`{ast.unparse(n)}` is only tested for truth ({how}): "
                       "an item that is 0, '' or [] is taken for the end of "
                       "the list", m.rel, n.lineno,
                       witness="a lazy list whose next item is 0")
        al = slice_bound_aliases(fn)
        for n in ast.walk(fn):
            which = None
            if isinstance(n, ast.Name) and isinstance(n.ctx, ast.Load) \
                    and al.get(n.id) == "stop":
                which = n.id
            elif isinstance(n, ast.Attribute) and n.attr == "stop" \
                    and isinstance(n.ctx, ast.Load):
                which = ast.unparse(n)
            if which is None:
                continue
            n_bound += 1
            how = boolean_context(n)
            chk.ob("C13.slice-stop-zero-is-a-bound",
                   f"{uname}:{which} ({how})" if how else f"{uname}:{which}",
                   how is None,
                   f"the slice end `{which}` is only tested for truth "
                   f"({how}): l[a:0] (empty) is treated like l[a:] (the rest "
                   "of the list)", m.rel, n.lineno,
                   witness="LazyList(iter([1,2,3]))[1:0]")
    chk.unit("next(x, default) calls examined", n_next)
    chk.unit("uses of a slice end examined", n_bound)
    chk.floor("uses of a slice end examined", n_bound, 1)


def cache_discipline(chk, repo, P, full=False):
    """The lazy-list cache rules; emitted under rule prefix P (C13, and the
    append-only subset for C10)."""
    mod = repo.mod("LazyList")
    cls = mod.cls("LazyList")
    F = mod.rel
    methods = {m.name: m for m in cls.body if isinstance(m, ast.FunctionDef)}
    for need in ("__init__", "__next__", "__getitem__", "__iter__",
                 "has_ind", "listify", "__len__"):
        if need not in methods:
            raise AnalysisError(f"anchor vanished: LazyList.{need}")

    # ---- G1: every write to *.generated, package wide -------------------------
    n_writes = 0
    for modname in repo.package_modules():
        if modname.endswith(".dictionary"):
            continue
        m = repo.mod(modname)
        sm = modname.split(".")[-1]
        for n in ast.walk(m.tree):
            write = None
            rhs = None
            if isinstance(n, ast.Assign):
                for t in n.targets:
                    if is_self_attr(t, CACHE):
                        write, rhs = "assign", n.value
                    elif isinstance(t, ast.Subscript) and is_self_attr(
                            t.value, CACHE):
                        write, rhs = "item-store", n.value
            elif isinstance(n, ast.AugAssign):
                if is_self_attr(n.target, CACHE):
                    write, rhs = "extend", n.value
                elif isinstance(n.target, ast.Subscript) and is_self_attr(
                        n.target.value, CACHE):
                    write, rhs = "item-store", n.value
            elif isinstance(n, ast.Delete):
                for t in n.targets:
                    if isinstance(t, ast.Subscript) and is_self_attr(
                            t.value, CACHE) or is_self_attr(t, CACHE):
                        write, rhs = "delete", None
            elif isinstance(n, ast.Call) and isinstance(
                    n.func, ast.Attribute) and is_self_attr(
                    n.func.value, CACHE) and n.func.attr in (
                    "append", "extend", "insert", "pop", "remove", "clear",
                    "sort", "reverse"):
                write = n.func.attr
                rhs = n.args[0] if n.args else None
            if write is None:
                continue
            n_writes += 1
            fn = enclosing_function(n)
            while fn is not None and not (
                    isinstance(fn, ast.FunctionDef)
                    and fn in cls.body) and enclosing_function(fn) is not None:
                fn = enclosing_function(fn)
            fname = fn.name if isinstance(fn, ast.FunctionDef) else "?"
            in_class = sm == "LazyList" and fname in methods
            cons = f"{sm}.{fname}:{' '.join(m.seg(n).split())[:60]}"
            if not in_class:
                chk.ob(P + ".cache-writers", cons, False,
                       "the lazy-list cache is written outside the LazyList "
                       "class", m.rel, n.lineno)
                continue
            if fname not in WRITERS:
                chk.ob(P + ".cache-writers", cons, False,
                       f"LazyList.{fname} is an observation but writes the "
                       "cache directly (only __next__ may add pulled items)",
                       m.rel, n.lineno)
                continue
            ok, why = True, ""
            if fname == "__init__":
                # empty, or pre-filled while the source iterator is replaced
                # by an empty one (the list still denotes the same items)
                emptied = any(
                    isinstance(a, ast.Assign) and any(
                        is_self_attr(t, SOURCE) for t in a.targets)
                    and ast.unparse(a.value).replace(" ", "") in (
                        "iter(())", "iter([])", "iter('')", 'iter("")')
                    for a in ast.walk(methods["__init__"]))
                ok = write == "assign" and (
                    (isinstance(rhs, ast.List) and not rhs.elts) or emptied)
                why = ("the constructor must start with an empty cache (or "
                       "replace the source by an empty iterator when it "
                       "pre-fills the cache)")
            elif fname == "__next__":
                ok = write == "append"
                why = "__next__ may only append"
            elif fname == "__setitem__":
                ok = write == "item-store"
                why = "__setitem__ may only assign one position"
            else:  # reversed / other extenders
                ok = write in ("extend", "append") and rhs is not None \
                    and iterates_self(rhs) is None \
                    and derives_from_source(rhs)
                it = iterates_self(rhs) if rhs is not None else None
                why = (f"the cache is extended with {it}, which re-yields "
                       "the already cached prefix: items are duplicated"
                       if it else "the added items do not come from "
                       "self.raw_object")
            chk.ob(P + ".cache-write-discipline", cons, ok, why, m.rel,
                   n.lineno, witness="LazyList([1,2,3])[-1] then list(l)"
                   if fname == "__getitem__" else None,
                   sample={"method": fname, "write": write})
    chk.floor("writes to the lazy-list cache", n_writes, 2)

    # ---- G7: whatever is pulled from the source iterator lands in the cache ----
    for name, fn in methods.items():
        for n in ast.walk(fn):
            if not is_self_attr(n, SOURCE) or not isinstance(n.ctx, ast.Load):
                continue
            if name == "__init__":
                continue
            # the statement that consumes raw_object
            st = n
            while getattr(st, "_parent", None) is not None and not isinstance(
                    st, ast.stmt):
                st = st._parent
            writes_cache = False
            if isinstance(st, ast.AugAssign) and is_self_attr(
                    st.target, CACHE):
                writes_cache = True
            if isinstance(st, ast.Assign) and name == "__next__":
                # item = vyxalify(next(self.raw_object)); appended below (G5)
                writes_cache = True
            if isinstance(st, ast.Expr) and isinstance(st.value, ast.Call) \
                    and isinstance(st.value.func, ast.Attribute) \
                    and is_self_attr(st.value.func.value, CACHE) \
                    and st.value.func.attr in ("append", "extend"):
                writes_cache = True
            chk.ob(P + ".source-drained-into-cache",
                   f"LazyList.{name}:{' '.join(mod.seg(st).split())[:60]}",
                   writes_cache,
                   "items are pulled from self.raw_object but not stored in "
                   "the cache: they are lost, and the list denotes a shorter "
                   "sequence afterwards", F, n.lineno,
                   witness="l[0]; l.reversed() forced; len(l)",
                   sample={"method": name})

    # ---- G8: the cached count is not the length unless exhausted --------------------
    # (must-analysis "the source is exhausted here", vystatic.flow.Exhaustion)
    exhausting: set[str] = set()
    for _ in range(4):
        grown = {name for name, fn in methods.items()
                 if name not in ("__init__", "__next__")
                 and Exhaustion(fn, exhausting).exhausts_on_return()}
        if grown == exhausting:
            break
        exhausting = grown
    chk.info(P + ".cached-count-is-not-length", "LazyList",
             "methods that exhaust the source on every normal exit: "
             + ", ".join(sorted(exhausting)))
    for name, fn in methods.items():
        ex = Exhaustion(fn, exhausting)
        for n in ast.walk(fn):
            if not (isinstance(n, ast.Call) and dotted(n.func) == "len"
                    and n.args and is_self_attr(n.args[0], CACHE)):
                continue
            par = getattr(n, "_parent", None)
            as_length = (isinstance(par, ast.Compare) and any(
                isinstance(o, (ast.Eq, ast.NotEq)) for o in par.ops)) or \
                isinstance(par, ast.Return)
            if not as_length:
                continue
            st = n
            while not isinstance(st, ast.stmt):
                st = st._parent
            ok = bool(ex.at.get(id(st)))
            chk.ob(P + ".cached-count-is-not-length",
                   f"LazyList.{name}:{ast.unparse(par)[:50]}", ok,
                   "len(self.generated) is used as the length of the list "
                   "on a path where the source is not known to be exhausted: "
                   "the answer depends on which observations were made "
                   "before", F, n.lineno,
                   witness="LazyList([0,1,2]) == [0,1] on a fresh list",
                   sample={"method": name})

    # ---- G2: the source iterator is set once -------------------------------------
    for n in ast.walk(mod.tree):
        tg = n.targets if isinstance(n, ast.Assign) else (
            [n.target] if isinstance(n, (ast.AugAssign, ast.AnnAssign))
            else [])
        for t in tg:
            if is_self_attr(t, SOURCE):
                fn = enclosing_function(n)
                fname = fn.name if isinstance(fn, ast.FunctionDef) else "?"
                chk.ob(P + ".source-set-once", f"LazyList.{fname}:raw_object =",
                       fname == "__init__",
                       "the source iterator is replaced after construction",
                       F, n.lineno, sample=fname)

    # ---- G3: the cache does not escape ----------------------------------------------
    for name, fn in methods.items():
        for n in ast.walk(fn):
            if not is_self_attr(n, CACHE) or not isinstance(n.ctx, ast.Load):
                continue
            par = getattr(n, "_parent", None)
            esc = None
            if isinstance(par, ast.Call) and n in par.args:
                f = dotted(par.func) or ast.unparse(par.func)
                if f not in ("len", "iter", "enumerate", "reversed", "list",
                             "tuple", "sorted", "bool", "any", "all", "sum",
                             "min", "max"):
                    esc = f"passed to {f}(...)"
            elif isinstance(par, ast.Return):
                esc = "returned as is"
            elif isinstance(par, ast.Assign) and par.value is n:
                esc = f"stored in {ast.unparse(par.targets[0])}"
            elif isinstance(par, (ast.List, ast.Tuple, ast.Dict)):
                esc = "placed in a container"
            if esc:
                chk.ob(P + ".cache-no-escape", f"LazyList.{name}:{esc}", False,
                       f"the cache list itself is {esc}: whoever holds it can "
                       "change what the lazy list denotes", F, n.lineno,
                       witness="printing a lazy list that contains a function "
                               "lets the function pop from the cache"
                       if name == "output" else None)
    chk.ob(P + ".cache-no-escape", "LazyList (all other methods)", True)

    # ---- G5: __next__ pulls one item, caches it, returns it ----------------------------
    nx = methods["__next__"]
    pulls = [n for n in ast.walk(nx) if isinstance(n, ast.Call)
             and dotted(n.func) == "next" and n.args
             and is_self_attr(n.args[0], SOURCE)]
    apps = [n for n in ast.walk(nx) if isinstance(n, ast.Call)
            and isinstance(n.func, ast.Attribute) and n.func.attr == "append"
            and is_self_attr(n.func.value, CACHE)]
    rets = [n for n in ast.walk(nx) if isinstance(n, ast.Return)]
    ok = len(pulls) == 1 and len(apps) == 1 and len(rets) == 1 \
        and isinstance(apps[0].args[0], ast.Name) \
        and isinstance(rets[0].value, ast.Name) \
        and apps[0].args[0].id == rets[0].value.id
    if ok:
        var = rets[0].value.id
        src = [n for n in ast.walk(nx) if isinstance(n, ast.Assign)
               and any(isinstance(t, ast.Name) and t.id == var
                       for t in n.targets)]
        ok = len(src) == 1 and any(c is pulls[0] for c in ast.walk(
            src[0].value))
    chk.ob(P + ".next-caches-what-it-returns", "LazyList.__next__", ok,
           "__next__ must pull exactly one item from raw_object, append that "
           "item to the cache and return the same item", F, nx.lineno,
           sample={"pulls": len(pulls), "appends": len(apps)})

    iteration_rules(chk, repo, P + ".iter-resumes-after-cache")

    # ---- G4: observers reach the cache only through next(self) ----------------------------
    for name in OBSERVERS:
        fn = methods.get(name)
        if fn is None:
            continue
        direct = [n for n in ast.walk(fn) if isinstance(n, ast.Call)
                  and dotted(n.func) == "next" and n.args
                  and is_self_attr(n.args[0], SOURCE)]
        chk.ob(P + ".observers-pull-through-next", f"LazyList.{name}",
               not direct,
               "an observer pulls from raw_object directly: the pulled item "
               "is lost to the cache and later observations disagree", F,
               direct[0].lineno if direct else fn.lineno,
               sample={"observer": name})

    if not full:
        return
    # ---- index arithmetic of the access path (linear forms) -----------------------------
    hi = methods["has_ind"]
    want = {"ind": 1, "L": -1, "1": 1}
    loops = [n for n in ast.walk(hi) if isinstance(n, ast.For)
             and isinstance(n.iter, ast.Call) and dotted(n.iter.func) == "range"
             and len(n.iter.args) == 1]
    hi_env = copy_env(hi)
    got = linear_form(subst(loops[0].iter.args[0], hi_env),
                      hi.args.args[1].arg) if loops else None
    chk.ob(P + ".has-ind-pull-count", "LazyList.has_ind", got == want,
           "has_ind(ind) must pull exactly ind - len(generated) + 1 more "
           f"items before answering (found {got}): one fewer truncates every "
           "iteration by one item, one more over-pulls", F, hi.lineno,
           witness="list(LazyList([1,2,3])) loses its last item",
           sample={"pulls": "ind - len(self.generated) + 1"})
    cmp_ok = False
    for n in ast.walk(hi):
        if isinstance(n, ast.If) and isinstance(n.test, ast.Compare) and len(
                n.test.ops) == 1:
            l = linear_form(subst(n.test.left, hi_env), hi.args.args[1].arg)
            r = linear_form(subst(n.test.comparators[0], hi_env),
                            hi.args.args[1].arg)
            if l is not None and r is not None:
                diff = {k: l.get(k, 0) - r.get(k, 0) for k in set(l) | set(r)}
                diff = {k: v for k, v in diff.items() if v}
                # ind < L   <=>  ind - L < 0
                if isinstance(n.test.ops[0], ast.Lt) and diff == {
                        "ind": 1, "L": -1}:
                    cmp_ok = True
                if isinstance(n.test.ops[0], ast.LtE) and diff == {
                        "ind": 1, "L": -1, "1": 1}:
                    cmp_ok = True
    chk.ob(P + ".has-ind-cached-test", "LazyList.has_ind", cmp_ok,
           "has_ind must treat exactly the indices below len(generated) as "
           "already cached (`ind < len(self.generated)`)", F, hi.lineno)
    gi = methods["__getitem__"]
    pull_ok = False
    from .c14 import method_closure  # noqa: PLC0415
    for n in [x for m in method_closure(methods, "__getitem__")
              for x in ast.walk(m)]:
        if isinstance(n, ast.While) and isinstance(n.test, ast.Compare) \
                and len(n.test.ops) == 1:
            l = linear_form(n.test.left, "position", var="position")
            r = linear_form(n.test.comparators[0], "position", var="position")
            if l is None or r is None:
                continue
            diff = {k: l.get(k, 0) - r.get(k, 0) for k in set(l) | set(r)}
            diff = {k: v for k, v in diff.items() if v}
            if isinstance(n.test.ops[0], ast.Lt) and diff == {
                    "L": 1, "position": -1, "1": -1}:
                pull_ok = True
            if isinstance(n.test.ops[0], ast.LtE) and diff == {
                    "L": 1, "position": -1}:
                pull_ok = True
    chk.ob(P + ".getitem-pull-bound", "LazyList.__getitem__", pull_ok,
           "l[position] must pull while len(generated) < position + 1 "
           "(exactly enough for the index to be cached)", F, gi.lineno,
           witness="LazyList(iter([1,2,3]))[2]")

    chk.explanation = (
        "Decides the clause 'observations never change the sequence the lazy "
        "list denotes' through the cache discipline: every write to "
        "*.generated in the package is classified (constructor reset, "
        "__next__ append of the pulled item, __setitem__, extension from "
        "raw_object that does not iterate self); raw_object is set once; the "
        "cache list does not escape; __next__ caches exactly what it returns; "
        "__iter__ resumes after the cached prefix; observers pull only "
        "through next(self); the end of the list / an absent slice end is "
        "never inferred from a truth value. Does not decide the values "
        "observers return (wrap-around, slices, equality).")
    chk.assumptions += ["LazyList instances are only built by the class "
                        "constructor"]


def linear_form(e, indname, var="ind"):
    """{var: a, 'L': b, '1': c} for a*var + b*len(self.generated) + c, or
    None when the expression is not of that form."""
    if isinstance(e, ast.Constant) and isinstance(e.value, int):
        return {"1": e.value} if e.value else {}
    if isinstance(e, ast.Name) and e.id == indname:
        return {var: 1}
    if isinstance(e, ast.Call) and dotted(e.func) == "len" and e.args and \
            is_self_attr(e.args[0], CACHE):
        return {"L": 1}
    if isinstance(e, ast.UnaryOp) and isinstance(e.op, ast.USub):
        x = linear_form(e.operand, indname, var)
        return None if x is None else {k: -v for k, v in x.items()}
    if isinstance(e, ast.BinOp) and isinstance(e.op, (ast.Add, ast.Sub)):
        l = linear_form(e.left, indname, var)
        r = linear_form(e.right, indname, var)
        if l is None or r is None:
            return None
        sign = 1 if isinstance(e.op, ast.Add) else -1
        out = dict(l)
        for k, v in r.items():
            out[k] = out.get(k, 0) + sign * v
        return {k: v for k, v in out.items() if v}
    return None


def iteration_rules(chk, repo, RULE):
    mod = repo.mod("LazyList")
    cls = mod.cls("LazyList")
    F = mod.rel
    methods = {m.name: m for m in cls.body if isinstance(m, ast.FunctionDef)}
    if "__iter__" not in methods:
        raise AnalysisError("anchor vanished: LazyList.__iter__")
    # ---- G6: __iter__ resumes after the cached prefix -----------------------------------
    itf = methods["__iter__"]
    yf_any = [n for n in ast.walk(itf) if isinstance(n, ast.YieldFrom)
              and any(is_self_attr(m, CACHE) for m in ast.walk(n.value))]
    snap = [n for n in yf_any if not is_self_attr(n.value, CACHE)]
    for n in snap:
        # a snapshot is yielded: the resume index must be the snapshot's
        # length, not the live cache's
        inits = [m for m in ast.walk(itf) if isinstance(m, ast.Assign)
                 and isinstance(m.value, ast.Call)
                 and dotted(m.value.func) == "len" and m.value.args
                 and is_self_attr(m.value.args[0], CACHE)
                 and m.lineno > n.lineno]
        chk.ob(RULE,
               "LazyList.__iter__:snapshot", not inits,
               f"`yield from {ast.unparse(n.value)}` replays a copy of the "
               "cache but iteration resumes at len(self.generated) read "
               "afterwards: items cached meanwhile by another observation "
               "are skipped", F, n.lineno,
               witness="two interleaved iterators over one lazy list")
    yf = [n for n in ast.walk(itf) if isinstance(n, ast.YieldFrom)
          and is_self_attr(n.value, CACHE)]
    if yf:
        inits = [n for n in ast.walk(itf) if isinstance(n, ast.Assign)
                 and isinstance(n.value, ast.Call)
                 and dotted(n.value.func) == "len" and n.value.args
                 and is_self_attr(n.value.args[0], CACHE)]
        # the index variable must then be used for has_ind / self[i]
        ok = False
        if inits and isinstance(inits[0].targets[0], ast.Name):
            iv = inits[0].targets[0].id
            ok = any(isinstance(n, ast.Subscript) and isinstance(
                n.slice, ast.Name) and n.slice.id == iv
                for n in ast.walk(itf)) and inits[0].lineno > yf[0].lineno
        chk.ob(RULE, "LazyList.__iter__", ok,
               "after `yield from self.generated` iteration must continue at "
               "index len(self.generated) (read after the prefix was "
               "yielded), otherwise items repeat or are skipped", F,
               itf.lineno, sample="i = len(self.generated)")
    else:
        chk.info(RULE, "LazyList.__iter__",
                 "does not yield the cache wholesale; rule not applicable")

