"""C04 - omitting trailing closers never changes the parse (necessary
structural conditions on the lexer and the branch collector)."""

from __future__ import annotations

import ast

from ..core import AnalysisError, dotted, parent_chain
from ..lexlaws import Frames, law_closer_optional, law_total
from ..lexprobe import LexProbe
from ..pe import Interp

level = "other"


def programs(info, depth, thorough):
    """well-formed, fully closed programs over the structure alphabet"""
    openers = list(info.items())  # opener -> (class, closer)
    leafs = ["", "1"] + (["1 2"] if thorough else [])
    memo = {}

    def P(d):
        if d in memo:
            return memo[d]
        out = list(leafs)
        if d > 0:
            inner = P(d - 1)
            # a diverse sample of the inner level: the leaves plus, for every
            # opener, its first (empty-bodied), a one-leaf and a last shape
            small = list(leafs)
            by_op = {}
            for q in inner:
                if q and q[0] in info:
                    by_op.setdefault(q[0], []).append(q)
            for op0, lst in by_op.items():
                pick = [lst[0], lst[min(1, len(lst) - 1)], lst[-1]]
                if thorough:
                    pick += lst[2:6]
                for q in pick:
                    if q not in small:
                        small.append(q)
            for op, (cls, cl) in openers:
                name = cls.name
                shapes = []
                if name == "IfStatement":
                    shapes = [[b] for b in small] + [
                        [a, b] for a in small[:3] for b in small[:3]]
                    if thorough:
                        shapes += [[a, b, c] for a in small[:2]
                                   for b in small[:2] for c in small[:2]]
                elif name == "ForLoop":
                    shapes = [[b] for b in small] + [["v", b]
                                                     for b in small[:4]]
                elif name == "WhileLoop":
                    shapes = [[b] for b in small] + [
                        [a, b] for a in small[:3] for b in small[:3]]
                elif name == "FunctionCall":
                    shapes = [["f"]] + [["f", b] for b in small[:4]] + [
                        ["f:1", b] for b in small[:3]]
                elif name == "Lambda":
                    shapes = [[b] for b in small] + [["2", b]
                                                     for b in small[:4]]
                elif name == "ListLiteral":
                    shapes = [[]] + [[b] for b in small] + [
                        [a, b] for a in small[:3] for b in small[:3]]
                else:
                    shapes = [[b] for b in small]
                for sh in shapes:
                    body = op + "|".join(sh) + cl
                    out.append(body)
                    if thorough:
                        out.append("1" + body)
        memo[d] = out
        return out
    return P(depth)


def closer_sweep(chk, repo, it, tier):
    """For every generated closed program and every droppable suffix of its
    trailing closers, the current tokenise+parse (interpreted) must build the
    same tree."""
    from ..pe import PRaise  # noqa: PLC0415
    pp = it.module("vyxal.parse")
    lx = it.module("vyxal.lexer")
    parse, tokenise = pp.get("parse"), lx.get("tokenise")
    info = pp.get("STRUCTURE_INFORMATION")
    closers = {v[1] for v in info.values()}
    thorough = tier == "thorough"
    progs = programs(info, 3 if thorough else 2, thorough)
    progs = list(dict.fromkeys(progs))
    if not thorough and len(progs) > 1500:
        progs = progs[::max(1, len(progs) // 1500)]
    cache = {}

    lexfn = repo.mod("lexer").functions.get("tokenise")
    modes = [False, True] if lexfn is not None and len(
        lexfn.args.args) >= 2 else [False]
    # programs that exercise the one-character-variable mode: a nameless
    # variable directly before the closers
    progs += [op + x + cl for op, (_, cl) in [
        (o, (None, v[1])) for o, v in info.items()] for x in ("→", "←", "1→")]
    progs = list(dict.fromkeys(progs))
    # multi-character texts the lexer / parser mention (new digraph syntax):
    # in front of bracketed bodies, and as an opener of their own when they
    # end in an opener character
    atoms = []
    for modname in ("lexer", "parse"):
        for n_ in ast.walk(repo.mod(modname).tree):
            if isinstance(n_, ast.Constant) and isinstance(n_.value, str) \
                    and 2 <= len(n_.value) <= 3 and not n_.value.isalnum() \
                    and not n_.value.isspace() and n_.value not in atoms:
                atoms.append(n_.value)
    atoms = atoms[:30]
    # digraph heads (one GENERAL token with whatever follows) in front of
    # every opener: the places new two-character syntax can be given
    singles = []
    for n_ in ast.walk(repo.mod("lexer").tree):
        if isinstance(n_, ast.Constant) and isinstance(n_.value, str) \
                and len(n_.value) <= 8:
            singles += [c for c in n_.value if c not in singles]
    for h_ in singles:
        it.steps = 0
        try:
            ts_ = list(tokenise(h_ + "Ǎ"))
        except (PRaise, StopIteration):
            continue
        if len(ts_) == 1 and ts_[0].d["value"] == h_ + "Ǎ" \
                and ts_[0].d["name"].name == "GENERAL":
            atoms += [h_ + op_ for op_ in info if h_ + op_ not in atoms]
    bracket_bodies = ["[a|b]", "[a|[b|c]]", "[a]", "(a|1)", "{1}", "⟨1|2⟩"]
    atom_progs = []
    for a_ in atoms:
        atom_progs += [a_ + q for q in bracket_bodies]
        if a_[-1] in info:
            cl_ = info[a_[-1]][1]
            atom_progs += [a_ + b_ + cl_ for b_ in (
                "", "a", "ab|cd", "ab|cd|", "a|" + a_ + "b" + cl_)]
    chk.unit("programs built around multi-character syntax constants",
             len(atom_progs))
    progs += [q for q in atom_progs if q not in progs]

    def tree(src, mode=False):
        if (src, mode) not in cache:
            it.steps = 0
            try:
                cache[(src, mode)] = repr(list(parse(
                    tokenise(src, mode) if mode else tokenise(src))))
            except PRaise as exc:
                cache[(src, mode)] = f"<raised {exc.cls_name}{exc.pargs}>"
            except StopIteration:
                cache[(src, mode)] = "<raised StopIteration>"
        return cache[(src, mode)]
    def tail_values(src, mode, k_):
        it.steps = 0
        try:
            ts = list(tokenise(src, mode) if mode else tokenise(src))
        except (PRaise, StopIteration):
            return None
        return [t.d["value"] for t in ts[-k_:]]

    n = 0
    bad = None
    for mode in modes:
        for p in progs:
            k = 0
            while k < len(p) and p[len(p) - 1 - k] in closers:
                k += 1
            full = tree(p, mode)
            if p in atom_progs and any(
                    f"value='{c}'" in full or f'value="{c}"' in full
                    for c in closers):
                continue  # a closer left over as an element: not syntax here
            for drop in range(1, k + 1):
                if p in atom_progs and tail_values(p, mode, drop) != list(
                        p[-drop:]):
                    continue  # the last characters are payload, not closers
                n += 1
                if tree(p[:-drop], mode) != full:
                    bad = bad or (p + (" [flag V]" if mode else ""),
                                  p[:-drop], full, tree(p[:-drop], mode))
    chk.ob("C04.closed-and-truncated-parse-alike", "tokenise + parse",
           bad is None,
           f"{bad[0]!r} parses to {bad[2][:120]} but with the trailing "
           f"closer(s) left off ({bad[1]!r}) to {bad[3][:120]}" if bad else "",
           repo.mod("parse").rel, witness=repr(bad[1]) if bad else None,
           sample={"closed programs": len(progs), "truncations compared": n})
    chk.unit("closed programs generated", len(progs))
    chk.unit("truncations compared", n)


def check(chk, repo, tier):
    chk.trusted_base += ["CPython ast", "vystatic.pe interpreter subset"]
    it = Interp(repo)
    lp = LexProbe(repo, it, thorough=(tier == "thorough"))
    fr = Frames(lp)
    LF = repo.mod("lexer").rel
    # ---- lexer laws on the class-exhaustive probe model ----------------------------
    law_total(chk, lp, "C04.lexer-end-of-input-tolerant", LF)
    chk.floor("delimited literal forms", len(fr.delimited), 3)
    n = law_closer_optional(chk, lp, fr, "C04.closer-optional", LF)
    chk.unit("lexer probes (closer law)", n)
    chk.unit("lexer probes (all)", lp.n_probes)

    # ---- lexer + parser together: dropping trailing closers ------------------------------
    closer_sweep(chk, repo, it, tier)

    # ---- parser -------------------------------------------------------------------------
    pmod = repo.mod("parse")
    PF = pmod.rel
    gb = pmod.function("_get_branches")
    pf = pmod.function("parse")
    toks = gb.args.args[0].arg
    stack = gb.args.args[1].arg
    loops = [n for n in gb.body if isinstance(n, ast.While)]
    ok = len(loops) == 1 and isinstance(loops[0].test, ast.BoolOp) and {
        ast.unparse(v) for v in loops[0].test.values} >= {toks, stack}
    chk.ob("C04.collector-stops-at-end-of-input", "_get_branches loop", ok,
           f"the collector must loop `while {toks} and {stack}` so that end "
           "of input ends the structure exactly like its closer", PF,
           gb.lineno, sample=ast.unparse(loops[0].test) if loops else None)
    pops = [n for n in ast.walk(gb) if isinstance(n, ast.Call)
            and dotted(n.func) == f"{toks}.popleft"]
    for p in pops:
        inside = any(any(p is x for x in ast.walk(s)) for lp in loops
                     for s in lp.body)
        chk.ob("C04.collector-stops-at-end-of-input",
               f"_get_branches:{ast.unparse(p)}", inside,
               "tokens are dequeued outside the guarded loop", PF, p.lineno)
    bad = [n for n in ast.walk(gb) if isinstance(n, (ast.Raise, ast.Assert))]
    chk.ob("C04.collector-never-rejects", "_get_branches", not bad,
           "the branch collector raises/asserts: an unclosed structure would "
           "be rejected instead of parsed as if closed", PF,
           bad[0].lineno if bad else gb.lineno)
    rets = [n for n in ast.walk(gb) if isinstance(n, ast.Return)]
    ok = len(rets) == 1 and rets[0] in gb.body
    chk.ob("C04.collector-single-exit", "_get_branches return", ok,
           "the collector must return the branches the same way however the "
           "loop ended (one unconditional return)", PF, gb.lineno)
    # the outermost closer is dropped, not stored: closed == truncated
    closer_if = None
    for n in ast.walk(gb):
        if isinstance(n, ast.Call) and dotted(n.func) == f"{stack}.pop":
            closer_if = n
    ok = False
    if closer_if is not None:
        par = getattr(closer_if, "_parent", None)
        seq = None
        while par is not None and seq is None:
            for f in ("body", "orelse"):
                s = getattr(par, f, None)
                if isinstance(s, list) and any(
                        any(closer_if is x for x in ast.walk(st)) for st in s):
                    seq = s
            par = getattr(par, "_parent", None)
        if seq:
            after = [st for st in seq if isinstance(st, ast.If)
                     and ast.unparse(st.test) == stack]
            ok = bool(after) and all(
                "append" in ast.unparse(st) for st in after)
    chk.ob("C04.outer-closer-not-stored", "_get_branches closing arm", ok,
           "after popping the expected closer the token may be kept only "
           f"`if {stack}:` (an inner structure); storing the outermost "
           "closer makes closed and truncated programs differ", PF,
           closer_if.lineno if closer_if is not None else gb.lineno)

    # parse(): raise/assert sites must not depend on closing state
    n_r = 0
    for n in ast.walk(pf):
        if isinstance(n, (ast.Raise, ast.Assert)):
            n_r += 1
            cond_nodes = []
            if isinstance(n, ast.Assert):
                cond_nodes.append(n.test)
            for par in parent_chain(n):
                if isinstance(par, (ast.If, ast.While)):
                    cond_nodes.append(par.test)
                if par is pf:
                    break
            names = set()
            for c in cond_nodes:
                names |= {m.id for m in ast.walk(c) if isinstance(m, ast.Name)}
            dep = names & {"bracket_stack", "tokens", "end_bracket"}
            # `while tokens:` is the main loop every statement sits in
            dep.discard("tokens") if all(
                not (isinstance(c, ast.Name) is False and "tokens" in
                     ast.unparse(c) and c is not pf.body)
                for c in cond_nodes) else None
            real = {d for d in dep if d != "tokens"}
            chk.ob("C04.parser-rejections-independent-of-closing",
                   f"parse:{' '.join(ast.unparse(n).split())[:50]}", not real,
                   f"a raise/assert in parse() depends on {sorted(real)}: "
                   "whether a structure was closed would change acceptance",
                   PF, n.lineno, sample=ast.unparse(n)[:50])
    chk.unit("raise/assert sites in parse()", n_r)
    # bracket_stack is only initialised, pushed and handed to the collector
    for n in ast.walk(pf):
        if isinstance(n, ast.Name) and n.id == "bracket_stack":
            par = getattr(n, "_parent", None)
            ok = (isinstance(par, (ast.Assign, ast.AnnAssign))
                  and isinstance(n.ctx, ast.Store)) or (
                isinstance(par, ast.Attribute) and par.attr == "append") or (
                isinstance(par, ast.Call) and dotted(par.func) ==
                "_get_branches")
            chk.ob("C04.parser-ignores-closing-state",
                   f"parse:bracket_stack@{type(par).__name__}", ok,
                   f"parse() reads bracket_stack (`{ast.unparse(par)[:50]}`): "
                   "its content after the collector returned tells closed "
                   "from truncated programs", PF, n.lineno)

    chk.explanation = (
        "Lexer: the current tokenise, interpreted on every string of length "
        "<= 2 (and a reduced set of length 3) over its own character classes, "
        "never raises, and for every delimited literal form the tokens of "
        "`d payload` equal those of `d payload d` for all payloads of up to "
        "two class characters. Parser (structural): the branch collector "
        "loops while tokens remain, never raises, returns once, and does not "
        "store the outermost closer; parse() never consults the closing "
        "state and none of its rejections depends on it. Front end as a "
        "whole: for ~700 (thorough: all depth-3) closed programs generated "
        "from the structure table and every droppable suffix of their "
        "trailing closers, the interpreted tokenise+parse builds the same "
        "tree (bounded; the structural rules carry the general argument).")


