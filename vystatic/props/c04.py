"""C04 - omitting trailing closers never changes the parse (necessary
structural conditions on the lexer and the branch collector)."""

from __future__ import annotations

import ast

from ..core import AnalysisError, dotted, parent_chain
from ..lexmodel import LexModel, ANY
from ..pe import Interp

level = "other"


def guarded_by_source(node, src, stop):
    """Is `node` inside the body of an `if`/`while` whose test starts with the
    truthiness of the input queue (so end of input is handled)?"""
    child = node
    for par in parent_chain(node):
        if par is stop:
            break  # the main `while source:` loop only guards the head pop
        if isinstance(par, ast.BoolOp) and isinstance(par.op, ast.And):
            first = par.values[0]
            if isinstance(first, ast.Name) and first.id == src and not any(
                    child is x for x in ast.walk(first)):
                return True  # later conjunct of `source and ...`
        if isinstance(par, (ast.If, ast.While)):
            in_body = any(child is s or any(child is x for x in ast.walk(s))
                          for s in par.body)
            in_test = any(child is x for x in ast.walk(par.test))
            t = par.test
            first = t.values[0] if isinstance(t, ast.BoolOp) and isinstance(
                t.op, ast.And) else t
            if isinstance(first, ast.Name) and first.id == src:
                if in_body:
                    return True
                if in_test and isinstance(t, ast.BoolOp) and not any(
                        child is x for x in ast.walk(first)):
                    return True  # later conjunct of `source and ...`
        if par is stop:
            break
        child = par
    return False


def check(chk, repo, tier):
    chk.trusted_base += ["CPython ast"]
    it = Interp(repo)
    lm = LexModel(repo, it)
    src, head = lm.src_var, lm.head_var
    LF = repo.mod("lexer").rel
    fn = lm.fn

    # ---- (L-e) every look at the input queue tolerates end of input -------------
    n_access = 0
    for n in ast.walk(fn):
        acc = None
        if isinstance(n, ast.Call) and dotted(n.func) == f"{src}.popleft":
            acc = n
        elif isinstance(n, ast.Subscript) and isinstance(n.value, ast.Name) \
                and n.value.id == src:
            acc = n
        if acc is None:
            continue
        n_access += 1
        par = getattr(acc, "_parent", None)
        is_head_pop = isinstance(par, (ast.Assign, ast.AnnAssign)) and any(
            isinstance(t, ast.Name) and t.id == head
            for t in (par.targets if isinstance(par, ast.Assign)
                      else [par.target])) and getattr(
            par, "_parent", None) is lm.loop
        ok = is_head_pop or guarded_by_source(acc, src, lm.loop)
        chk.ob("C04.lexer-end-of-input-tolerant",
               f"lexer:{ast.unparse(acc)}@{_branch_label(lm, acc)}", ok,
               f"`{ast.unparse(acc)}` is not guarded by `{src}` being "
               "non-empty: a program that ends here (closer omitted) raises "
               "instead of lexing as if closed", LF, acc.lineno,
               sample={"access": ast.unparse(acc)})
    chk.floor("accesses to the lexer input queue", n_access, 15)

    # ---- (L-a..c) delimiter-terminated literals -------------------------------------
    n_lit = 0
    for br in lm.branches:
        if br.chars is ANY:
            continue
        closed = [k for k in br.kinds if k in (
            "STRING", "COMPRESSED_NUMBER", "COMPRESSED_STRING")]
        scans = [s for s in br.body if isinstance(s, ast.While)]
        if not closed or not scans:
            continue
        if not any(f"{src}[0] != {head}" in ast.unparse(s.test)
                   for s in scans):
            continue
        n_lit += 1
        label = "".join(sorted(br.chars))
        # the token is appended unconditionally, at the branch's top level
        top_appends = [s for s in br.body if isinstance(s, ast.Expr)
                       and any(c in br.token_sites for c in ast.walk(s))]
        chk.ob("C04.literal-built-without-closer", f"lexer branch {label!r}",
               bool(top_appends),
               "the literal token is only built on some paths (e.g. when the "
               "closing delimiter was seen): an unterminated literal at the "
               "end of the program disappears", LF, br.line,
               sample={"branch": label})
        # the closing delimiter is discarded only if present
        disc = [s for s in br.body if isinstance(s, ast.If)
                and isinstance(s.test, ast.Name) and s.test.id == src
                and any(isinstance(c, ast.Call) and dotted(c.func) ==
                        f"{src}.popleft" for c in ast.walk(s))]
        bare = [s for s in br.body if isinstance(s, ast.Expr)
                and isinstance(s.value, ast.Call)
                and dotted(s.value.func) == f"{src}.popleft"]
        chk.ob("C04.closer-optional", f"lexer branch {label!r}",
               bool(disc) and not bare,
               "the closing delimiter must be consumed under `if source:` "
               "(absent at end of input)", LF, br.line)
        # the value never includes the delimiter: the scan stops *before* it
        for s in scans:
            t = ast.unparse(s.test)
            chk.ob("C04.value-excludes-closer", f"lexer branch {label!r}",
                   t.replace(" ", "").startswith(f"{src}and"),
                   f"scan loop `{t}` must test the queue first and stop "
                   "before the delimiter", LF, s.lineno)
    chk.floor("delimiter-terminated literal branches", n_lit, 1)

    # ---- parser -------------------------------------------------------------------------
    pmod = repo.mod("parse")
    PF = pmod.rel
    gb = pmod.function("_get_branches")
    pf = pmod.function("parse")
    toks = gb.args.args[0].arg
    stack = gb.args.args[1].arg
    loops = [n for n in gb.body if isinstance(n, ast.While)]
    ok = len(loops) == 1 and isinstance(loops[0].test, ast.BoolOp) and {
        ast.unparse(v) for v in loops[0].test.values} >= {toks, stack}
    chk.ob("C04.collector-stops-at-end-of-input", "_get_branches loop", ok,
           f"the collector must loop `while {toks} and {stack}` so that end "
           "of input ends the structure exactly like its closer", PF,
           gb.lineno, sample=ast.unparse(loops[0].test) if loops else None)
    pops = [n for n in ast.walk(gb) if isinstance(n, ast.Call)
            and dotted(n.func) == f"{toks}.popleft"]
    for p in pops:
        inside = any(any(p is x for x in ast.walk(s)) for lp in loops
                     for s in lp.body)
        chk.ob("C04.collector-stops-at-end-of-input",
               f"_get_branches:{ast.unparse(p)}", inside,
               "tokens are dequeued outside the guarded loop", PF, p.lineno)
    bad = [n for n in ast.walk(gb) if isinstance(n, (ast.Raise, ast.Assert))]
    chk.ob("C04.collector-never-rejects", "_get_branches", not bad,
           "the branch collector raises/asserts: an unclosed structure would "
           "be rejected instead of parsed as if closed", PF,
           bad[0].lineno if bad else gb.lineno)
    rets = [n for n in ast.walk(gb) if isinstance(n, ast.Return)]
    ok = len(rets) == 1 and rets[0] in gb.body
    chk.ob("C04.collector-single-exit", "_get_branches return", ok,
           "the collector must return the branches the same way however the "
           "loop ended (one unconditional return)", PF, gb.lineno)
    # the outermost closer is dropped, not stored: closed == truncated
    closer_if = None
    for n in ast.walk(gb):
        if isinstance(n, ast.Call) and dotted(n.func) == f"{stack}.pop":
            closer_if = n
    ok = False
    if closer_if is not None:
        par = getattr(closer_if, "_parent", None)
        seq = None
        while par is not None and seq is None:
            for f in ("body", "orelse"):
                s = getattr(par, f, None)
                if isinstance(s, list) and any(
                        any(closer_if is x for x in ast.walk(st)) for st in s):
                    seq = s
            par = getattr(par, "_parent", None)
        if seq:
            after = [st for st in seq if isinstance(st, ast.If)
                     and ast.unparse(st.test) == stack]
            ok = bool(after) and all(
                "append" in ast.unparse(st) for st in after)
    chk.ob("C04.outer-closer-not-stored", "_get_branches closing arm", ok,
           "after popping the expected closer the token may be kept only "
           f"`if {stack}:` (an inner structure); storing the outermost "
           "closer makes closed and truncated programs differ", PF,
           closer_if.lineno if closer_if is not None else gb.lineno)

    # parse(): raise/assert sites must not depend on closing state
    n_r = 0
    for n in ast.walk(pf):
        if isinstance(n, (ast.Raise, ast.Assert)):
            n_r += 1
            cond_nodes = []
            if isinstance(n, ast.Assert):
                cond_nodes.append(n.test)
            for par in parent_chain(n):
                if isinstance(par, (ast.If, ast.While)):
                    cond_nodes.append(par.test)
                if par is pf:
                    break
            names = set()
            for c in cond_nodes:
                names |= {m.id for m in ast.walk(c) if isinstance(m, ast.Name)}
            dep = names & {"bracket_stack", "tokens", "end_bracket"}
            # `while tokens:` is the main loop every statement sits in
            dep.discard("tokens") if all(
                not (isinstance(c, ast.Name) is False and "tokens" in
                     ast.unparse(c) and c is not pf.body)
                for c in cond_nodes) else None
            real = {d for d in dep if d != "tokens"}
            chk.ob("C04.parser-rejections-independent-of-closing",
                   f"parse:{' '.join(ast.unparse(n).split())[:50]}", not real,
                   f"a raise/assert in parse() depends on {sorted(real)}: "
                   "whether a structure was closed would change acceptance",
                   PF, n.lineno, sample=ast.unparse(n)[:50])
    chk.unit("raise/assert sites in parse()", n_r)
    # bracket_stack is only initialised, pushed and handed to the collector
    for n in ast.walk(pf):
        if isinstance(n, ast.Name) and n.id == "bracket_stack":
            par = getattr(n, "_parent", None)
            ok = (isinstance(par, (ast.Assign, ast.AnnAssign))
                  and isinstance(n.ctx, ast.Store)) or (
                isinstance(par, ast.Attribute) and par.attr == "append") or (
                isinstance(par, ast.Call) and dotted(par.func) ==
                "_get_branches")
            chk.ob("C04.parser-ignores-closing-state",
                   f"parse:bracket_stack@{type(par).__name__}", ok,
                   f"parse() reads bracket_stack (`{ast.unparse(par)[:50]}`): "
                   "its content after the collector returned tells closed "
                   "from truncated programs", PF, n.lineno)

    chk.explanation = (
        "Necessary structural conditions: every look at the lexer's input "
        "queue is guarded by the queue being non-empty; delimiter-terminated "
        "literals append their token unconditionally, stop before the "
        "delimiter and consume it only if present; the branch collector "
        "loops while tokens remain, never raises, returns once, and does not "
        "store the outermost closer; parse() never consults the closing "
        "state and none of its rejections depends on it. Does not decide the "
        "full equality of the two parses (a two-run relational property).")


def _branch_label(lm, node):
    for br in lm.branches:
        if any(node is x for s in br.body for x in ast.walk(s)):
            if br.chars is ANY:
                return "default"
            lab = "".join(sorted(br.chars))
            return lab if len(lab) <= 5 else lab[:5] + "…"
    return "loop"
