"""C10 - values are immutable: no element changes a value another reference
can see.

(M) alias/effect analysis over elements.py + helpers.py: no function may
    mutate a value parameter or an alias of it (directly, or by handing it to
    a callee that does); stack parameters are the frozen exceptions;
(T) hand-written templates / modifier templates do not mutate popped values;
(D) copy-on-duplicate: a template pushes a popped value bare at most once,
    and interpreter-owned lists (stack, global array, parameters, ...) are
    never pushed or stored without a copy;
(F) deep_copy returns a freshly built container for lists and lazy lists."""

from __future__ import annotations

import ast

from ..flow import path_conditions
from ..core import AnalysisError, dotted
from ..effects import EffectAnalysis, MUTATOR_METHODS
from ..grammar import make_shapes
from ..templates import Gen, table_keys_with_nodes

level = "other"

# parameters that ARE the data stack (frozen, reasoned): mutating them is
# their job
STACK_PARAMS = {
    ("pop", "iterable_object"): "the popping helper",
    ("wrapify", "item"): "wrapify(stack, count) pops `count` entries",
    ("function_call", "lhs"): "† receives the stack itself (C09 whitelist)",
}
OWNED = {"stack", "parameters", "temp_list", "arg_stack", "stack_copy"}
OWNED_ATTRS = {"ctx.global_array", "ctx.stacks", "ctx.inputs",
               "ctx.context_values", "ctx.function_stack"}
COPIERS = {"deep_copy", "list", "tuple", "sorted", "reversed"}


# owned lists some element mutates in place (ctx.global_array.append / .pop)
MUTATED_IN_PLACE = {"ctx.global_array"}


def shared_leaves(e, vals):
    """popped names that `e` may evaluate to without a copy (through
    conditional expressions, `or`/`and`, and identity-like helpers)"""
    if isinstance(e, ast.IfExp):
        return shared_leaves(e.body, vals) + shared_leaves(e.orelse, vals)
    if isinstance(e, ast.BoolOp):
        return [x for v in e.values for x in shared_leaves(v, vals)]
    if isinstance(e, ast.NamedExpr):
        return shared_leaves(e.value, vals)
    if isinstance(e, ast.Name):
        return [e.id] if e.id in vals else []
    if isinstance(e, ast.Call) and (dotted(e.func) or "").split(".")[-1] in (
            "iterable", "vyxalify") and e.args:
        return shared_leaves(e.args[0], vals)
    return []


def norm_site(site):
    return " ".join(site.desc.split())


def check(chk, repo, tier):
    chk.trusted_base += ["CPython ast",
                         "vystatic.effects alias analysis (flow-insensitive, "
                         "may-alias)"]
    ea = EffectAnalysis(repo).run()
    chk.floor("functions analysed", len(ea.fns), 300)
    n_value_params = sum(len(f.value_params) for f in ea.fns.values())
    chk.unit("value parameters", n_value_params)

    reported_roots = set()
    # direct sites first
    for fs in ea.fns.values():
        mod = repo.mod(fs.modname)
        clean = True
        for p, sites in fs.mutates.items():
            for s in sites:
                if s.via is not None:
                    continue
                if (fs.name, p) in STACK_PARAMS:
                    chk.info("C10.stack-parameter", f"{fs.name}:{p}",
                             STACK_PARAMS[(fs.name, p)])
                    continue
                cons = f"{fs.modname}.{fs.name}:{norm_site(s)}"
                if s.kind == "mutates-if-list":
                    ok = False
                    msg = (f"`{s.desc}` rebinds in place when the value is a "
                           "list: the caller's list grows")
                else:
                    ok = False
                    msg = (f"`{s.desc}` changes an object that is (an alias "
                           f"of) the value parameter `{p}`"
                           + (" / one of its items" if s.elem else ""))
                clean = False
                reported_roots.add((fs.name, s.desc))
                chk.ob("C10.no-parameter-mutation", cons, ok, msg, mod.rel,
                       s.line, witness=WITNESS.get(fs.name))
        if clean and fs.value_params:
            chk.ob("C10.no-parameter-mutation", f"{fs.modname}.{fs.name}",
                   True)
    # transitive sites whose root is a stack mutator: a value handed to pop()
    for fs in ea.fns.values():
        mod = repo.mod(fs.modname)
        for p, sites in fs.mutates.items():
            if (fs.name, p) in STACK_PARAMS:
                continue
            for s in sites:
                if s.via is None or s.root is None:
                    continue
                root_fn = s.root[0]
                root_is_stack = any(k[0] == root_fn for k in STACK_PARAMS)
                if root_is_stack:
                    cons = f"{fs.modname}.{fs.name}:{norm_site(s)}"
                    chk.ob("C10.no-parameter-mutation", cons, False,
                           f"value parameter `{p}` is handed to the "
                           f"stack-mutating helper: {s.desc}", mod.rel, s.line)
                elif s.root not in reported_roots:
                    cons = f"{fs.modname}.{fs.name}:{norm_site(s)}"
                    chk.ob("C10.no-parameter-mutation", cons, False,
                           f"`{p}`: {s.desc}", mod.rel, s.line)
                else:
                    chk.info("C10.consequence", f"{fs.name}:{p}",
                             f"reaches the reported mutator {s.root[0]}: "
                             f"{s.desc}")

    gen = Gen(repo)
    EF = repo.mod("elements").rel
    templates(chk, repo, gen, ea, EF, tier)
    deep_copy_fresh(chk, repo)
    # the lazy-list cache is append-only and owned by the list (anchor:
    # LazyList.py __next__ / __getitem__ / __setitem__) - rules shared with C13
    from .c13 import cache_discipline  # noqa: PLC0415
    cache_discipline(chk, repo, "C10")

    chk.explanation = (
        "Necessary condition for immutability, decided for the whole "
        "library: a may-alias analysis (assignment, tuple swap, conditional "
        "expression, loop target, indexing, alias-returning callees) finds "
        "every object that can be a value parameter or one of its items, and "
        "no mutator method / subscript or attribute store / in-place += / "
        "random.shuffle / mutating callee may be applied to it (fixpoint over "
        "the call graph, closures included). Templates must not mutate popped "
        "values, must copy on duplicate, and must copy interpreter-owned "
        "lists before pushing them; deep_copy must build a new container. "
        "Does not decide sharing through nested inner lists beyond one level "
        "of item aliasing.")
    chk.assumptions += [
        "values reach element functions only as arguments (C09)",
        "third-party calls (sympy, itertools, num2words) do not mutate their "
        "arguments",
    ]


WITNESS = {
    "assign_iterable": "⟨1|2|3⟩ →a ←a 0 9 Ȧ _ ←a shows ⟨9|2|3⟩",
    "multiply": "λ+; : 3* _ : the other reference to the lambda now has "
                "stored_arity 3",
}


def popped_vars(tree):
    """names bound (directly) from pop(stack, ...) in a template"""
    out = set()
    for n in ast.walk(tree):
        if isinstance(n, ast.Assign):
            v = n.value
            calls = [c for c in ast.walk(v) if isinstance(c, ast.Call)
                     and dotted(c.func) == "pop"]
            if calls:
                for t in n.targets:
                    elts = t.elts if isinstance(t, (ast.Tuple, ast.List)) \
                        else [t]
                    for e in elts:
                        if isinstance(e, ast.Name):
                            out.add(e.id)
    return out


def templates(chk, repo, gen, ea, EF, tier):
    items = []
    elems = gen.elements()
    for key, knode, vnode in table_keys_with_nodes(repo, "elements"):
        v = elems.get(key)
        if isinstance(v, tuple) and isinstance(v[0], str):
            items.append((f"elements[{key!r}]", v[0], knode.lineno,
                          isinstance(vnode, ast.Call)))
    for key, knode, _ in table_keys_with_nodes(repo, "modifiers"):
        v = gen.modifiers().get(key)
        if isinstance(v, str):
            items.append((f"modifiers[{key!r}]", v, knode.lineno, False))
    pp = gen.it.module("vyxal.parse")
    parse_mods = {n: list(pp.get(n)) for n in (
        "MONADIC_MODIFIERS", "DYADIC_MODIFIERS", "TRIADIC_MODIFIERS")}
    for shape in make_shapes(gen, "quick", parse_mods):
        if shape.cls in ("MonadicModifier", "DyadicModifier",
                         "TriadicModifier") and not shape.label.endswith(
                "<unknown>"):
            continue
        try:
            text = gen.transpile_ast([shape.build(gen, {})], 0)
        except Exception:  # noqa: BLE001
            continue
        items.append((f"skeleton {shape.label}", text, None, False))
    for cons, code, line, boiler in items:
        try:
            tree = ast.parse(code)
        except SyntaxError:
            continue
        for p in ast.walk(tree):
            for c in ast.iter_child_nodes(p):
                c._parent = p
        vals = popped_vars(tree) | {"function_A", "function_B", "function_C"}
        ok = True
        for n in ast.walk(tree):
            # (T) mutation of popped values
            if isinstance(n, ast.Call) and isinstance(n.func, ast.Attribute) \
                    and isinstance(n.func.value, ast.Name) \
                    and n.func.value.id in vals \
                    and n.func.attr in MUTATOR_METHODS:
                ok = False
                chk.ob("C10.template-no-mutation",
                       f"{cons}:{ast.unparse(n)[:40]}", False,
                       "template mutates a popped value in place", EF, line)
            tg = []
            if isinstance(n, ast.Assign):
                tg = n.targets
            elif isinstance(n, ast.AugAssign):
                tg = [n.target]
            for t in tg:
                if isinstance(t, (ast.Subscript, ast.Attribute)) \
                        and isinstance(t.value, ast.Name) \
                        and t.value.id in vals:
                    ok = False
                    chk.ob("C10.template-no-mutation",
                           f"{cons}:{ast.unparse(t)} =", False,
                           f"template stores into a popped value "
                           f"(`{ast.unparse(n)[:50]}`): every other reference "
                           "to that value sees the change", EF, line,
                           witness=TEMPLATE_WITNESS.get(cons))
            # (D3) the global array is appended to / popped in place: what
            # is stored there has to be a list nothing else refers to
            if isinstance(n, ast.Assign) and any(
                    dotted(t) in MUTATED_IN_PLACE for t in n.targets):
                for leaf in shared_leaves(n.value, vals):
                    ok = False
                    chk.ob("C10.owned-list-assigned-fresh",
                           f"{cons}:{dotted(n.targets[0])} = {leaf}", False,
                           f"`{ast.unparse(n)[:70]}` makes the popped value "
                           f"`{leaf}` itself the interpreter's list; the "
                           "elements that append to / pop from that list in "
                           "place then change every other reference to the "
                           "value (a duplicate, a variable)", EF, line,
                           witness="⟨1|2⟩ : <store> 9 ⅛ _ shows ⟨1|2|9⟩")
            # (D2) owned lists pushed / stored bare
            if isinstance(n, ast.Call) and isinstance(n.func, ast.Attribute) \
                    and n.func.attr == "append" and n.args:
                recv = dotted(n.func.value) or ""
                if recv in ("stack", "ctx.context_values", "ctx.inputs",
                            "temp_list", "ctx.global_array", "parameters"):
                    for bare in bare_owned(n.args[0]):
                        ok = False
                        chk.ob("C10.copy-owned-list",
                               f"{cons}:{recv}.append({bare})", False,
                               f"`{ast.unparse(n)[:60]}` publishes the "
                               f"interpreter-owned list `{bare}` without a "
                               "copy; later pushes/pops would change the "
                               "value", EF, line)
        # (D1) copy on duplicate
        pushes = {}
        for n in ast.walk(tree):
            if isinstance(n, ast.Call) and isinstance(n.func, ast.Attribute) \
                    and n.func.attr == "append" and dotted(
                    n.func.value) == "stack" and n.args:
                a = n.args[0]
                if isinstance(a, ast.Name) and a.id in vals:
                    pushes[a.id] = pushes.get(a.id, 0) + 1
                elif isinstance(a, (ast.List, ast.Tuple)):
                    for e in a.elts:
                        if isinstance(e, ast.Name) and e.id in vals:
                            pushes[e.id] = pushes.get(e.id, 0) + 1
        for v, k in pushes.items():
            if k > 1 and not exclusive_branches(tree, v):
                ok = False
                chk.ob("C10.copy-on-duplicate", f"{cons}:{v} x{k}", False,
                       f"the popped value `{v}` is pushed {k} times without "
                       "deep_copy: the copies are the same object", EF, line)
        if ok:
            chk.ob("C10.template-discipline", cons, True,
                   sample={"template": cons} if not boiler else None)
    chk.floor("templates and skeletons analysed", len(items), 400)


TEMPLATE_WITNESS = {
    "modifiers['ƒ']": "λ+; : ƒ… the shared lambda object gets stored_arity 2",
    "modifiers['ɖ']": "same as ƒ",
}


def bare_owned(arg):
    """owned lists occurring in `arg` outside a copying call / slice"""
    out = []

    def rec(n, copied):
        if isinstance(n, ast.Call):
            f = (dotted(n.func) or "").split(".")[-1]
            # only identity-like helpers hand their argument back as is
            # (and lazy wrappers hand back a *view*: a list iterator sees
            # what is appended to / popped from the list afterwards, so
            # deep_copy(<owned list>) is not a snapshot until materialised)
            if f in ("iterable", "wrapify", "vyxalify", "deep_copy",
                     "LazyList", "iter", "tee", "map", "filter", "enumerate",
                     "reversed", "zip", "chain", "islice") and n.args \
                    and not copied:
                for a in n.args:
                    rec(a, copied)
            return
        if isinstance(n, ast.Subscript):
            if isinstance(n.slice, ast.Slice):
                return  # a slice copies
            if dotted(n.value) in OWNED_ATTRS or (
                    isinstance(n.value, ast.Name) and n.value.id in OWNED):
                return  # an item, not the list itself
            rec(n.value, copied)
            return
        if isinstance(n, ast.Name) and n.id in OWNED and not copied:
            out.append(n.id)
            return
        if isinstance(n, ast.Attribute) and dotted(n) in OWNED_ATTRS \
                and not copied:
            out.append(dotted(n))
            return
        if isinstance(n, ast.IfExp):
            rec(n.body, copied)
            rec(n.orelse, copied)
            return
        if isinstance(n, (ast.List, ast.Tuple)):
            for e in n.elts:
                rec(e, copied)
    rec(arg, False)
    return out


def exclusive_branches(tree, var):
    """all bare pushes of var sit in different arms of one if/else"""
    sites = []
    for n in ast.walk(tree):
        if isinstance(n, ast.Call) and isinstance(n.func, ast.Attribute) \
                and n.func.attr == "append" and n.args and isinstance(
                n.args[0], ast.Name) and n.args[0].id == var:
            sites.append(n)

    def arm_path(n):
        path = []
        child = n
        cur = getattr(n, "_parent", None)
        while cur is not None:
            if isinstance(cur, ast.If):
                path.append((id(cur), "b" if any(
                    child is x for x in cur.body) else "e"))
            child = cur
            cur = getattr(cur, "_parent", None)
        return path
    paths = [dict(arm_path(s)) for s in sites]
    for i in range(len(paths)):
        for j in range(i + 1, len(paths)):
            common = set(paths[i]) & set(paths[j])
            if not any(paths[i][c] != paths[j][c] for c in common):
                return False
    return True


def excludes_list_kinds(conds, param):
    """do the path conditions say `param` is neither a list nor a LazyList?
    (`type(p) not in (list, LazyList)` true, `type(p) in (...)` false,
    `isinstance(p, (list, LazyList))` false, in any arrangement)"""
    for test, pol in conds:
        names = {m.id for m in ast.walk(test) if isinstance(m, ast.Name)}
        if not {"list", "LazyList", param} <= names:
            continue
        if isinstance(test, ast.Compare) and len(test.ops) == 1 \
                and isinstance(test.left, ast.Call) \
                and dotted(test.left.func) == "type":
            if isinstance(test.ops[0], ast.NotIn) and pol:
                return True
            if isinstance(test.ops[0], ast.In) and not pol:
                return True
        if isinstance(test, ast.Call) and dotted(test.func) == "isinstance" \
                and not pol:
            return True
    return False


def deep_copy_fresh(chk, repo):
    helpers = repo.mod("helpers")
    fn = helpers.function("deep_copy")
    param = fn.args.args[0].arg
    rets = [n for n in ast.walk(fn) if isinstance(n, ast.Return)]
    if not rets:
        raise AnalysisError("deep_copy has no return")
    ok = True
    why = ""
    for r in rets:
        v = r.value
        if isinstance(v, ast.Name) and v.id == param:
            # allowed only where list / LazyList are excluded on the path
            guard_ok = excludes_list_kinds(path_conditions(r, fn), param)
            if not guard_ok:
                ok = False
                why = (f"line {r.lineno} returns the argument itself without "
                       "a guard excluding list and LazyList")
        elif isinstance(v, ast.Call):
            callee = dotted(v.func) or ""
            if callee.split(".")[-1] not in ("LazyList", "list", "vyxalify",
                                             "copy", "deepcopy"):
                ok = False
                why = f"line {r.lineno} returns {callee}(...)"
            if any(isinstance(a, ast.Name) and a.id == param
                   for a in v.args) and callee.split(".")[-1] == "LazyList":
                # LazyList(value) would share value's iterator state
                pass
        elif isinstance(v, (ast.ListComp, ast.Subscript, ast.List)):
            pass
        else:
            ok = False
            why = f"line {r.lineno} returns `{ast.unparse(v)[:40]}`"
    chk.ob("C10.deep-copy-fresh", "helpers.deep_copy", ok,
           "deep_copy no longer returns a freshly constructed container for "
           "lists / lazy lists: " + why, helpers.rel, fn.lineno,
           sample={"returns": [ast.unparse(r.value)[:50] for r in rets]})
