"""E5 - taint / sanitiser analysis of the code generator.

Abstract interpretation of the string-building code in transpile.py in a
"template" domain: a string value is a set of alternatives, each a list of
segments - constant text, generated code (result of a recursive transpile
call or a lookup in the fixed element/modifier vocabulary) or a *slot*
carrying a sanitiser class:

  INT      value is an int (int(), str.find()+k, proven int-returning callee)
  REPR     formatted with !r
  IDENT    result of re.sub(<negated class>, "", x): charset = kept chars
  LEX      a token value under a known token kind: charset = value language
  HEX      secrets.token_hex
  ESC      output of the verified character-escaping loop
  RAW      program text with no sanitiser

Every returned template is then checked slot by slot against the python
context the surrounding constant text puts the slot in (inside a quoted
literal / identifier tail / bare expression).
"""

from __future__ import annotations

import ast
import itertools

from .core import AnalysisError, dotted
from .kinds import ANYSET

IDENT_CHARS = set("abcdefghijklmnopqrstuvwxyzABCDEFGHIJKLMNOPQRSTUVWXYZ"
                  "0123456789_")
HEX_CHARS = set("0123456789abcdef")
MAX_ALTS = 24


class Seg:
    __slots__ = ("kind", "text", "cls", "chars", "origin", "line")

    def __init__(self, kind, text="", cls=None, chars=None, origin="",
                 line=0):
        self.kind = kind  # 'c' | 'code' | 'slot'
        self.text = text
        self.cls = cls
        self.chars = chars
        self.origin = origin
        self.line = line

    def __repr__(self):
        if self.kind == "c":
            return repr(self.text)
        if self.kind == "code":
            return "<code>"
        return f"<{self.cls}:{self.origin}>"


def C(text):
    return Seg("c", text)


CODE = Seg("code")


def slot(cls, origin, chars=None, line=0):
    return Seg("slot", cls=cls, chars=chars, origin=origin, line=line)


class T:
    """string template: alternatives of segment lists"""

    def __init__(self, alts):
        self.alts = alts[:MAX_ALTS]

    @staticmethod
    def const(text):
        return T([[C(text)]])

    def __add__(self, other):
        return T([a + b for a in self.alts for b in other.alts])

    def union(self, other):
        return T(self.alts + [b for b in other.alts])


class I:  # an int
    pass


class L:  # list of strings
    def __init__(self, elem: T):
        self.elem = elem


class Obj:  # token / structure / other object
    def __init__(self, what):
        self.what = what


class Unknown:
    def __init__(self, expr, line=0):
        self.expr = expr
        self.line = line


def as_T(av, origin="?", line=0):
    if isinstance(av, T):
        return av
    if isinstance(av, I):
        return T([[slot("INT", origin, line=line)]])
    if isinstance(av, L):
        return T([[slot("RAW", f"list formatted as text: {origin}",
                        line=line)]])
    if isinstance(av, Unknown):
        return T([[slot("RAW", f"unclassified expression {av.expr}",
                        line=line or av.line)]])
    return T([[slot("RAW", f"object formatted as text: {origin}", line=line)]])


def merge_to_slot(t: T, extra_chars=(), origin=""):
    """Collapse a template to one slot whose charset covers everything in it
    (used for split/join/index chains that only rearrange characters)."""
    chars = set(extra_chars)
    worst = "LEX"
    order = ["LEX", "IDENT", "HEX", "INT", "ESC", "REPR", "RAW"]
    line = 0
    for alt in t.alts:
        for s in alt:
            if s.kind == "c":
                chars |= set(s.text)
            elif s.kind == "code":
                return T([[CODE]])
            else:
                line = line or s.line
                if s.cls in ("LEX", "IDENT", "HEX") and s.chars is not None \
                        and s.chars is not ANYSET:
                    chars |= s.chars
                elif s.cls == "INT":
                    chars |= set("0123456789-")
                elif s.cls == "ESC":
                    return T([[slot("ESC", s.origin or origin, line=s.line)]])
                else:
                    return T([[slot("RAW", s.origin or origin, line=s.line)]])
                origin = origin or s.origin
    return T([[slot(worst, origin, chars, line)]])


class TaintInterp:
    def __init__(self, mod, fold, kind_langs, facts):
        """mod: core.Module of transpile.py; fold(node) -> constant or raises;
        kind_langs: kind -> kinds.Lang; facts: dict of verified side facts
          'esc_loop_ok': bool, 'arity_is_int': bool,
          'uncompress_returns': {kind: 'INT'|'STR'}"""
        self.mod = mod
        self.fold = fold
        self.langs = kind_langs
        self.facts = facts
        self.returns = []  # (function, arm label, T, lineno)
        self.notes = []
        self._depth = 0

    # -- expression evaluation ------------------------------------------------
    def ev(self, node, env):
        m = getattr(self, "ev_" + type(node).__name__, None)
        if m is None:
            return Unknown(ast.unparse(node), getattr(node, "lineno", 0))
        return m(node, env)

    def ev_Constant(self, node, env):
        if isinstance(node.value, str):
            return T.const(node.value)
        if isinstance(node.value, int) and not isinstance(node.value, bool):
            return I()
        return Unknown(repr(node.value), node.lineno)

    def ev_Name(self, node, env):
        if node.id in env:
            return env[node.id]
        try:
            v = self.fold(node)
        except Exception:  # noqa: BLE001
            return Unknown(node.id, node.lineno)
        if isinstance(v, str):
            return T.const(v)
        if isinstance(v, int):
            return I()
        return Obj(node.id)

    def ev_Attribute(self, node, env):
        base = node.value
        kind = env.get("$kind")
        text = ast.unparse(node)
        if node.attr == "value" and isinstance(base, ast.Name) \
                and isinstance(env.get(base.id), Obj) \
                and env[base.id].what == "token":
            shape = self.facts.get("shape_ok", {})
            if kind in shape:
                if shape[kind][0]:
                    return T([[slot("ESC", f"{text} ({kind}; emitted code "
                                    "shape verified independent of payload)",
                                    line=node.lineno)]])
                return T([[slot("RAW", f"{text} ({kind}; {shape[kind][1]})",
                                line=node.lineno)]])
            if kind and kind in self.langs:
                lang = self.langs[kind]
                return T([[slot("LEX", f"{text} ({kind})", lang.chars,
                                node.lineno)]])
            return T([[slot("RAW", text, line=node.lineno)]])
        if isinstance(base, ast.Name) and isinstance(env.get(base.id), Obj) \
                and env[base.id].what in ("struct", "lam"):
            if node.attr in ("names", "parameters"):
                return L(T([[slot("RAW", text + "[*]", line=node.lineno)]]))
            if node.attr == "arity":
                if self.facts.get("arity_is_int"):
                    return T([[slot("INT", text, line=node.lineno)],
                              [C("default")]])
                return T([[slot("RAW", text, line=node.lineno)]])
            if node.attr in ("name", "modifier", "after"):
                return T([[slot("RAW", text, line=node.lineno)]])
            return Obj(text)
        try:
            v = self.fold(node)
            if isinstance(v, str):
                return T.const(v)
            if isinstance(v, int):
                return I()
        except Exception:  # noqa: BLE001
            pass
        return Unknown(text, node.lineno)

    def ev_JoinedStr(self, node, env):
        out = T.const("")
        for v in node.values:
            if isinstance(v, ast.Constant):
                out = out + T.const(str(v.value))
            else:
                out = out + self.formatted(v, env)
        return out

    def formatted(self, node: ast.FormattedValue, env):
        inner = self.ev(node.value, env)
        origin = ast.unparse(node.value)
        if node.conversion == 114:  # !r
            if isinstance(inner, T) and all(
                    s.kind == "c" for a in inner.alts for s in a):
                return T.const("<repr of constant>")
            return T([[slot("REPR", origin, line=node.lineno)]])
        return as_T(inner, origin, node.lineno)

    def ev_BinOp(self, node, env):
        a = self.ev(node.left, env)
        b = self.ev(node.right, env)
        if isinstance(a, I) and isinstance(b, I):
            return I()
        if isinstance(node.op, ast.Add):
            if isinstance(a, T) or isinstance(b, T):
                return as_T(a, ast.unparse(node.left), node.lineno) + as_T(
                    b, ast.unparse(node.right), node.lineno)
        if isinstance(node.op, ast.Mult) and isinstance(a, T) and all(
                s.kind == "c" for alt in a.alts for s in alt):
            return a  # "    " * indent
        if isinstance(a, I) or isinstance(b, I):
            if isinstance(node.op, (ast.Add, ast.Sub, ast.Mult, ast.FloorDiv,
                                    ast.Mod)):
                if isinstance(a, (I,)) and isinstance(b, (I, Unknown)):
                    return I()
        return Unknown(ast.unparse(node), node.lineno)

    def ev_IfExp(self, node, env):
        a = self.ev(node.body, env)
        b = self.ev(node.orelse, env)
        if isinstance(a, I) and isinstance(b, I):
            return I()
        return as_T(a, ast.unparse(node.body), node.lineno).union(
            as_T(b, ast.unparse(node.orelse), node.lineno))

    def ev_BoolOp(self, node, env):
        vals = [self.ev(v, env) for v in node.values]
        if all(isinstance(v, I) for v in vals):
            return I()
        out = None
        for v, n in zip(vals, node.values):
            t = as_T(v, ast.unparse(n), node.lineno)
            out = t if out is None else out.union(t)
        return out

    def ev_Subscript(self, node, env):
        base = self.ev(node.value, env)
        if isinstance(base, L):
            if isinstance(node.slice, ast.Slice):
                return base
            return base.elem
        if isinstance(base, T):
            if any(s.kind == "code" for a in base.alts for s in a):
                return base
            return merge_to_slot(base)  # a substring keeps the charset
        if isinstance(base, Obj) and base.what == "tablevalue":
            if isinstance(node.slice, ast.Constant) and node.slice.value == 0:
                return T([[CODE]])
            return I()
        return Unknown(ast.unparse(node), node.lineno)

    def ev_ListComp(self, node, env):
        if len(node.generators) != 1:
            return Unknown(ast.unparse(node), node.lineno)
        g = node.generators[0]
        it = self.ev(g.iter, env)
        inner = dict(env)
        if isinstance(it, L) and isinstance(g.target, ast.Name):
            inner[g.target.id] = it.elem
        elif isinstance(g.target, ast.Name):
            inner[g.target.id] = Unknown(ast.unparse(g.iter), node.lineno)
        return L(as_T(self.ev(node.elt, inner), ast.unparse(node.elt),
                      node.lineno))

    ev_GeneratorExp = ev_ListComp

    def ev_List(self, node, env):
        out = None
        for e in node.elts:
            t = as_T(self.ev(e, env), ast.unparse(e), node.lineno)
            out = t if out is None else out.union(t)
        return L(out or T.const(""))

    def ev_Tuple(self, node, env):
        return Obj("tuple")

    def ev_Compare(self, node, env):
        return Obj("bool")

    def ev_Call(self, node, env):
        fname = dotted(node.func) or ""
        short = fname.split(".")[-1]
        if isinstance(node.func, ast.Attribute):
            short = node.func.attr
        args = node.args
        line = node.lineno
        if short == "indent_str" and args:
            body = as_T(self.ev(args[0], env), ast.unparse(args[0]), line)
            end = "\n"
            for kw in node.keywords:
                if kw.arg == "end":
                    e = self.ev(kw.value, env)
                    end = None if not isinstance(e, T) else e
            if len(args) > 2:
                e = self.ev(args[2], env)
                end = None if not isinstance(e, T) else e
            if end is None:
                return body + T([[slot("RAW", "indent_str end", line=line)]])
            return body + (T.const(end) if isinstance(end, str) else end)
        if short in ("transpile_ast", "transpile_single", "transpile_token",
                     "transpile_structure", "transpile_lambda", "transpile"):
            return T([[CODE]])
        if fname == "re.sub" and len(args) >= 3:
            from .props.c02 import regex_kept_chars  # noqa: PLC0415
            if len(args) >= 4 or any(k.arg == "count" for k in node.keywords):
                # the 4th positional argument is `count`, not `flags`: only
                # that many matches are replaced, the rest passes unchanged
                return T([[slot("RAW", "re.sub limited by a count ("
                                + ast.unparse(node)[:50] + "): a flag passed "
                                "positionally is taken as the count",
                                line=line)]])
            try:
                pat = self.fold(args[0])
                rep = self.fold(args[1])
            except Exception:  # noqa: BLE001
                return Unknown(ast.unparse(node), line)
            try:
                kept = regex_kept_chars(pat)
            except AnalysisError:
                return T([[slot("RAW", f"re.sub with pattern {pat!r} "
                                "(not a single negated class)", line=line)]])
            if not isinstance(rep, str):
                return Unknown(ast.unparse(node), line)
            return T([[slot("IDENT", ast.unparse(node), kept | set(rep),
                            line)]])
        if short == "sub" and isinstance(node.func, ast.Attribute) \
                and fname != "re.sub" and len(args) >= 2:
            # compiled pattern: NAME = re.compile(P); NAME.sub(rep, x)
            import re as _re  # noqa: PLC0415
            from .props.c02 import regex_kept_chars  # noqa: PLC0415
            try:
                pat = self.fold(node.func.value)
                rep = self.fold(args[0])
            except Exception:  # noqa: BLE001
                pat = None
            if isinstance(pat, _re.Pattern) and isinstance(rep, str):
                try:
                    kept = regex_kept_chars(pat.pattern)
                except AnalysisError:
                    return T([[slot("RAW", f"{ast.unparse(node.func.value)}"
                                    f" = re.compile({pat.pattern!r}) is not a "
                                    "single negated class", line=line)]])
                return T([[slot("IDENT", ast.unparse(node), kept | set(rep),
                                line)]])
        if short == "int":
            return I()
        if short in ("len", "ord"):
            return I()
        if short == "find" or short == "index" or short == "count":
            return I()
        if short == "str" and args:
            return as_T(self.ev(args[0], env), ast.unparse(args[0]), line)
        if fname == "secrets.token_hex":
            return T([[slot("HEX", "secrets.token_hex", HEX_CHARS, line)]])
        if fname == "secrets.token_urlsafe":
            return T([[slot("LEX", "secrets.token_urlsafe",
                            IDENT_CHARS | {"-"}, line)]])
        if fname in ("uuid.uuid4", "uuid.uuid1"):
            return T([[slot("LEX", fname, HEX_CHARS | {"-"}, line)]])
        if fname in ("time.time", "random.random"):
            return T([[slot("LEX", fname, set("0123456789.e-"), line)]])
        if fname in ("time.time_ns", "random.randint", "random.getrandbits"):
            return I()
        if short == "uncompress" and args:
            kind = env.get("$kind")
            ret = self.facts.get("uncompress_returns", {}).get(kind)
            if ret == "INT":
                return I()
            shape = self.facts.get("shape_ok", {})
            if kind in shape and shape[kind][0]:
                return T([[slot("ESC", f"uncompress(token) ({kind}; emitted "
                                "code shape verified independent of payload)",
                                line=line)]])
            return T([[slot("RAW", f"uncompress(token) ({kind})",
                            line=line)]])
        if short == "join" and isinstance(node.func, ast.Attribute) and args:
            sep = self.ev(node.func.value, env)
            it = self.ev(args[0], env)
            if isinstance(it, L) and isinstance(sep, T):
                if all(s.kind == "code" or s.kind == "c"
                       for a in it.elem.alts for s in a) and any(
                        s.kind == "code" for a in it.elem.alts for s in a):
                    return T([[CODE]])
                sepchars = set()
                for a in sep.alts:
                    for s in a:
                        if s.kind != "c":
                            return Unknown(ast.unparse(node), line)
                        sepchars |= set(s.text)
                if all(s.kind == "c" for a in it.elem.alts for s in a):
                    # pieces of constant text: each piece is one alternative
                    return it.elem.union(sep)
                # whole lines joined by nothing / by line breaks stay what
                # they are: each piece is one alternative of the result, as
                # if it had been appended in a loop
                if sepchars <= {"\n"} and (sepchars or all(
                        a and a[-1].kind == "c" and a[-1].text.endswith("\n")
                        for a in it.elem.alts)):
                    return it.elem.union(sep)
                if all(s.kind == "c" or s.cls in ("LEX", "IDENT", "HEX",
                                                  "INT")
                       for a in it.elem.alts for s in a):
                    return merge_to_slot(it.elem, sepchars)
                return it.elem.union(sep)
            return Unknown(ast.unparse(node), line)
        if short == "split" and isinstance(node.func, ast.Attribute):
            base = self.ev(node.func.value, env)
            if isinstance(base, T):
                return L(merge_to_slot(base))
        if short == "get" and isinstance(node.func, ast.Attribute):
            tbl = dotted(node.func.value)
            if tbl in ("elements", "modifiers") and len(args) == 2:
                try:
                    dflt = self.fold(args[1])
                except Exception:  # noqa: BLE001
                    dflt = None
                if isinstance(dflt, str):
                    return T([[CODE]])
                if isinstance(dflt, tuple):
                    return Obj("tablevalue")
            return Unknown(ast.unparse(node), line)
        if short in ("iter", "list", "reversed", "tuple") and args:
            v = self.ev(args[0], env)
            return v
        if short == "next" and args:
            v = self.ev(args[0], env)
            if isinstance(v, T):
                return merge_to_slot(v)
            if isinstance(v, L):
                return v.elem
            return T([[slot("RAW", "next(iterator) character", line=line)]])
        if short in ("isdecimal", "isnumeric", "isinstance", "startswith"):
            return Obj("bool")
        if short == "range":
            return Obj("range")
        if short == "Token":
            return Obj("token")
        if short == "lambda_wrap":
            return Obj("lam")
        # a helper defined in the same module: evaluate its returns with the
        # arguments bound (bounded depth) - "extract function" refactorings
        if isinstance(node.func, ast.Name) and node.func.id in \
                self.mod.functions and self._depth < 3:
            return self.inline(self.mod.functions[node.func.id], node, env)
        return Unknown(ast.unparse(node), line)

    def inline(self, callee, call, env):
        """Abstractly call a module-local helper: union of its returns."""
        params = [a.arg for a in callee.args.args]
        cenv = {}
        if "$kind" in env:
            cenv["$kind"] = env["$kind"]
        for i, a in enumerate(call.args):
            if i < len(params):
                cenv[params[i]] = self.ev(a, env)
        for kw in call.keywords:
            if kw.arg in params:
                cenv[kw.arg] = self.ev(kw.value, env)
        # defaults
        defaults = callee.args.defaults
        for p, d in zip(params[len(params) - len(defaults):], defaults):
            if p not in cenv:
                cenv[p] = self.ev(d, {})
        saved_returns, saved_fn = self.returns, getattr(self, "fn", None)
        self.returns = []
        self._depth += 1
        try:
            self.fn = callee
            self.block(callee.body, cenv, label=f"helper {callee.name}")
            got = self.returns
        finally:
            self._depth -= 1
            self.returns = saved_returns
            self.fn = saved_fn
        out = None
        kinds = set()
        for _, _, tpl, _ in got:
            out = tpl if out is None else out.union(tpl)
        if out is None:
            return Unknown(ast.unparse(call), call.lineno)
        return out

    # -- statements --------------------------------------------------------------
    def run_function(self, fn: ast.FunctionDef, param_objs: dict):
        env = dict(param_objs)
        self.fn = fn
        self.block(fn.body, env, label=fn.name)

    def block(self, stmts, env, label):
        for st in stmts:
            env = self.stmt(st, env, label)
            if env is None:
                return None
        return env

    @staticmethod
    def join_env(a, b):
        if a is None:
            return b
        if b is None:
            return a
        out = {}
        for k in set(a) | set(b):
            va, vb = a.get(k), b.get(k)
            if va is None or vb is None:
                out[k] = va if vb is None else vb
            elif isinstance(va, T) and isinstance(vb, T):
                if va is vb:
                    out[k] = va
                else:
                    seen = []
                    for alt in va.alts + vb.alts:
                        if not any(alt is s or _same(alt, s) for s in seen):
                            seen.append(alt)
                    out[k] = T(seen)
            else:
                out[k] = va if type(va) is type(vb) else Unknown(k)
        return out

    def arm_label(self, test):
        """isinstance(struct, vyxal.structure.X) / token.name == TokenType.K"""
        if isinstance(test, ast.Call) and dotted(test.func) == "isinstance" \
                and len(test.args) == 2:
            d = dotted(test.args[1]) or ast.unparse(test.args[1])
            return "struct", d.split(".")[-1]
        if isinstance(test, ast.Compare) and len(test.ops) == 1 \
                and isinstance(test.ops[0], ast.Eq):
            l, r = dotted(test.left), dotted(test.comparators[0])
            if l and l.endswith(".name") and r and "TokenType." in r:
                return "kind", r.split(".")[-1]
        return None, None

    def stmt(self, st, env, label):
        if isinstance(st, ast.Return):
            if st.value is not None:
                av = self.ev(st.value, env)
                self.returns.append((self.fn.name, label,
                                     as_T(av, ast.unparse(st.value),
                                          st.lineno), st.lineno))
            return None
        if isinstance(st, ast.Raise):
            return None
        if isinstance(st, ast.If):
            what, name = self.arm_label(st.test)
            t_env = dict(env)
            lab = label
            if what == "kind":
                t_env["$kind"] = name
                lab = f"{label}/{name}"
            elif what == "struct":
                lab = f"{label}/{name}"
            a = self.block(st.body, t_env, lab)
            b = self.block(st.orelse, dict(env), label)
            if a is not None:
                a.pop("$kind", None)
                if "$kind" in env:
                    a["$kind"] = env["$kind"]
            return self.join_env(a, b)
        if isinstance(st, ast.Assign) and len(st.targets) == 1 \
                and isinstance(st.targets[0], ast.Name):
            env = dict(env)
            env[st.targets[0].id] = self.ev(st.value, env)
            return env
        if isinstance(st, ast.AugAssign) and isinstance(st.target, ast.Name) \
                and isinstance(st.op, ast.Add):
            env = dict(env)
            cur = env.get(st.target.id)
            add = self.ev(st.value, env)
            if isinstance(cur, I) and isinstance(add, I):
                return env
            env[st.target.id] = as_T(cur, st.target.id, st.lineno) + as_T(
                add, ast.unparse(st.value), st.lineno)
            return env
        if isinstance(st, ast.For):
            return self.for_loop(st, env, label)
        if isinstance(st, ast.Expr) and isinstance(st.value, ast.Call) \
                and isinstance(st.value.func, ast.Attribute) \
                and isinstance(st.value.func.value, ast.Name) \
                and st.value.func.attr in ("append", "extend", "insert") \
                and st.value.args:
            name = st.value.func.value.id
            cur = env.get(name)
            add = self.ev(st.value.args[-1], env)
            if isinstance(add, L):
                add = add.elem
            addt = as_T(add, ast.unparse(st.value.args[-1]), st.lineno)
            env = dict(env)
            if isinstance(cur, L):
                env[name] = L(cur.elem.union(addt))
            else:
                env[name] = L(addt)
            return env
        if isinstance(st, (ast.Expr, ast.Pass)):
            return env
        if isinstance(st, ast.Assign):
            return env
        self.notes.append(f"statement {type(st).__name__} at line "
                          f"{st.lineno} skipped")
        return env

    def for_loop(self, st, env, label):
        # the verified character-escaping loop
        env = dict(env)
        it = self.ev(st.iter, env)
        if isinstance(st.target, ast.Name):
            if isinstance(it, L):
                env[st.target.id] = it.elem
            elif isinstance(it, T):
                env[st.target.id] = merge_to_slot(it)
            else:
                env[st.target.id] = Obj("loopvar") if isinstance(
                    it, Obj) else Unknown(ast.unparse(st.iter), st.lineno)
        before = dict(env)
        after = self.block(st.body, dict(env), label)
        # one unrolling: every appended piece occurs in some alternative
        out = self.join_env(before, after)
        after2 = self.block(st.body, dict(out), label) if out else None
        return self.join_env(out, after2) if self._small(after2) else out

    @staticmethod
    def _small(env):
        if env is None:
            return False
        return all(len(v.alts) <= MAX_ALTS // 2 for v in env.values()
                   if isinstance(v, T))

    def escape_loop(self, st, env):
        """`for char in iterator:` building `temp` character by character."""
        if not (isinstance(st.target, ast.Name)
                and isinstance(st.iter, ast.Name)):
            return None
        src = env.get(st.iter.id)
        if not isinstance(src, T):
            return None
        written = set()
        for n in ast.walk(st):
            if isinstance(n, ast.Name) and isinstance(n.ctx, ast.Store):
                written.add(n.id)
        written.discard(st.target.id)
        accs = set()
        for n in ast.walk(st):
            if isinstance(n, ast.AugAssign) and isinstance(
                    n.target, ast.Name):
                accs.add(n.target.id)
        if len(accs) != 1:
            return None
        acc = next(iter(accs))
        # everything else written must come from next(iterator, ...)
        for n in ast.walk(st):
            if isinstance(n, ast.Assign):
                ok = isinstance(n.value, ast.Call) and dotted(
                    n.value.func) == "next"
                if not ok:
                    return None
        env = dict(env)
        if self.facts.get("esc_loop_ok"):
            env[acc] = T([[slot("ESC", f"{acc} (escaping loop, transducer "
                                "verified)", line=st.lineno)]])
        else:
            env[acc] = T([[slot("RAW", f"{acc} (escaping loop NOT verified: "
                                f"{self.facts.get('esc_loop_why', '')})",
                                line=st.lineno)]])
        self.facts["esc_loop_seen"] = True
        return env


def _same(a, b):
    if len(a) != len(b):
        return False
    for x, y in zip(a, b):
        if x.kind != y.kind or x.text != y.text or x.cls != y.cls \
                or x.origin != y.origin:
            return False
    return True


# ---------------------------------------------------------------------------
# sink context check
# ---------------------------------------------------------------------------


def context_of(before: str):
    """python context at the end of `before` (text of the current line)."""
    q = None
    esc = False
    for ch in before:
        if q:
            if esc:
                esc = False
            elif ch == "\\":
                esc = True
            elif ch == q:
                q = None
        else:
            if ch in "\"'":
                q = ch
            elif ch == "#":
                return ("comment", None)
    if q:
        return ("string", q)
    if before and (before[-1] in IDENT_CHARS):
        return ("ident", None)
    return ("expr", None)


def check_template(alt):
    """yield (slot, context, ok, why) for every slot of one alternative."""
    for i, s in enumerate(alt):
        if s.kind != "slot":
            continue
        before = ""
        for p in alt[:i]:
            if p.kind == "c":
                before += p.text
            elif p.kind == "code":
                before += "\n"
            else:
                before += "§" if p.cls not in ("IDENT", "LEX", "HEX", "INT") \
                    else "a"
        before = before.rsplit("\n", 1)[-1]
        ctx = context_of(before)
        ok, why = slot_ok(s, ctx)
        yield s, ctx, ok, why


def slot_ok(s, ctx):
    kind, q = ctx
    cls = s.cls
    if cls == "RAW":
        return False, "program text reaches the generated code unsanitised"
    if kind == "string":
        if cls in ("ESC", "INT", "HEX"):
            return True, ""
        if cls in ("IDENT", "LEX"):
            if s.chars is ANYSET or s.chars is None:
                return False, ("value language is unrestricted but the slot "
                               "sits inside a quoted literal")
            bad = s.chars & set(q + "\\\n\r")
            if bad:
                return False, (f"characters {sorted(bad)} can end or escape "
                               "the surrounding literal")
            return True, ""
        if cls == "REPR":
            return False, "repr() text pasted inside another literal"
    if kind == "ident":
        if cls in ("INT", "HEX"):
            return True, ""
        if cls in ("IDENT", "LEX"):
            if s.chars is ANYSET or s.chars is None:
                return False, "unrestricted text in an identifier position"
            bad = s.chars - IDENT_CHARS
            if bad:
                return False, (f"sanitiser keeps {sorted(bad)[:8]} which are "
                               "not identifier characters")
            return True, ""
        return False, f"{cls} text in an identifier position"
    if kind == "expr":
        if cls in ("INT", "REPR"):
            return True, ""
        if cls == "HEX":
            return False, "hex text as a bare expression"
        if cls in ("IDENT", "LEX"):
            if s.chars is not None and s.chars is not ANYSET \
                    and s.chars <= set("0123456789"):
                return True, ""
            return False, (f"{cls} text is pasted as a bare expression "
                           "(neither a literal nor an identifier tail)")
        if cls == "ESC":
            return False, "escaped text outside a quoted literal"
    if kind == "comment":
        return False, "program text inside a generated comment"
    return False, f"{cls} in context {kind}"
