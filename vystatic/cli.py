"""Command line: ./check <ID> quick|thorough [--replay <file>] | selftest"""

from __future__ import annotations

import importlib
import json
import os
import sys

from .core import run_check

PROPS = ["C02", "C03", "C04", "C05", "C06", "C07", "C08", "C09", "C10",
         "C11", "C12", "C13", "C14", "C15", "C18", "C19", "C20"]


def main(argv):
    import warnings
    warnings.simplefilter("ignore", SyntaxWarning)
    if not argv:
        print(__doc__)
        return 2
    if argv[0] == "selftest":
        from . import selftest
        return selftest.main(argv[1:])
    if argv[0] == "all":
        tier = argv[1] if len(argv) > 1 else "quick"
        worst = 0
        for pid in PROPS:
            try:
                importlib.import_module(f"vystatic.props.{pid.lower()}")
            except ModuleNotFoundError:
                continue
            rc = main([pid, tier])
            worst = max(worst, rc)
        return worst
    pid = argv[0].upper()
    tier = "quick"
    only = None
    rest = argv[1:]
    i = 0
    while i < len(rest):
        a = rest[i]
        if a in ("quick", "thorough"):
            tier = a
        elif a == "--replay":
            i += 1
            with open(rest[i], encoding="utf-8") as fh:
                rp = json.load(fh)
            only = (rp["rule"], rp["construct"])
        i += 1
    tier = os.environ.get("VERIF_TIER", tier) if tier == "quick" and \
        os.environ.get("VERIF_TIER") in ("quick", "thorough") and \
        "quick" not in rest else tier
    try:
        mod = importlib.import_module(f"vystatic.props.{pid.lower()}")
    except ModuleNotFoundError:
        print(f"ANALYSIS-ERROR property={pid}: no check implemented")
        return 2
    mod.check.level = getattr(mod, "level", "other")
    return run_check(pid, tier, mod.check, only)


if __name__ == "__main__":
    sys.exit(main(sys.argv[1:]))
