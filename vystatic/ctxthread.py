"""Shared rule: functions whose behaviour depends on the running program's
context (its mode flag, its input scopes) must be handed that context.  A
call that omits `ctx` while the parameter defaults to a module-level Context,
or that passes such a default object, silently consults an interpreter state
that is never online and has no inputs."""

from __future__ import annotations

import ast

from .core import dotted, enclosing_function


def ctx_param(fn):
    """(position or None, default) of the parameter named ctx; default is an
    ast node or "REQUIRED"; None when there is no such parameter"""
    a = fn.args
    params = a.posonlyargs + a.args
    for i, p in enumerate(params):
        if p.arg == "ctx":
            di = i - (len(params) - len(a.defaults))
            return i, (a.defaults[di] if di >= 0 else "REQUIRED")
    for p, d in zip(a.kwonlyargs, a.kw_defaults):
        if p.arg == "ctx":
            return None, (d if d is not None else "REQUIRED")
    return None


def default_contexts(repo, pkg):
    """module-level names bound to a Context(...) object"""
    out = set()
    for modname in pkg:
        for st in repo.mod(modname).tree.body:
            if isinstance(st, ast.Assign) and isinstance(st.value, ast.Call) \
                    and (dotted(st.value.func) or "").split(".")[-1] == \
                    "Context":
                out |= {t.id for t in st.targets if isinstance(t, ast.Name)}
    return out


def judge(call, callee_fn, default_ctx, is_method=False):
    """None if the call hands over the caller's context; otherwise a
    (kind, text) pair describing what it hands over instead"""
    cp = ctx_param(callee_fn)
    if cp is None:
        return None
    idx, default = cp
    arg = None
    for k in call.keywords:
        if k.arg == "ctx":
            arg = k.value
    if arg is None and idx is not None:
        pos = idx - (1 if is_method else 0)
        if 0 <= pos < len(call.args):
            arg = call.args[pos]
    if arg is None:
        if default != "REQUIRED" and not (
                isinstance(default, ast.Constant) and default.value is None):
            return "omitted", ast.unparse(default)
        return None  # omission fails loudly (TypeError / AttributeError)
    named = dotted(arg) or ""
    if named.split(".")[-1] in default_ctx or (
            isinstance(arg, ast.Call)
            and (dotted(arg.func) or "").split(".")[-1] == "Context"):
        return "foreign", ast.unparse(arg)
    return None


def call_sites(repo, pkg, names, texts=()):
    """(call, callee name, where, file, line) for every call of one of
    `names`, in package code and in the given generated texts
    [(where, code, file, line)]"""
    for modname in pkg:
        mod = repo.mod(modname)
        for call in ast.walk(mod.tree):
            if not isinstance(call, ast.Call):
                continue
            if isinstance(call.func, ast.Name):
                callee = call.func.id
            elif isinstance(call.func, ast.Attribute):
                callee = call.func.attr
                base = dotted(call.func.value) or ""
                if callee != "output" and not base.startswith("vyxal"):
                    continue
            else:
                continue
            if callee not in names:
                continue
            fn = enclosing_function(call)
            while isinstance(fn, ast.Lambda):
                fn = enclosing_function(fn)
            where = f"{modname.split('.')[-1]}." + (
                fn.name if fn is not None else "<module>")
            yield call, callee, where, mod.rel, call.lineno
    for where, code, file, line in texts:
        try:
            tree = ast.parse(code)
        except SyntaxError:
            continue
        for call in ast.walk(tree):
            if isinstance(call, ast.Call) and isinstance(call.func, ast.Name) \
                    and call.func.id in names:
                yield call, call.func.id, where, file, line
