"""E3 (continued) - token kind domain.

* `value_languages`: per token kind the language of `.value` the lexer can
  produce (a character set or ANY, and a maximal length), derived from the
  lexer branch that builds the kind.
* `KindWalker`: path-sensitive walk of a function refining, for every
  token-valued expression, the set of kinds it may have, from the `.name`
  tests on the path; reports every read of `.value` with that set.
"""

from __future__ import annotations

import ast

from .core import AnalysisError, dotted
from .lexmodel import LexModel, ANY

ANYSET = None  # value language: any character


class Lang:
    def __init__(self, chars, maxlen):
        self.chars = chars  # set or ANYSET
        self.maxlen = maxlen  # int or None

    def can_equal(self, const: str) -> bool:
        if self.maxlen is not None and len(const) > self.maxlen:
            return False
        if self.chars is ANYSET:
            return True
        return all(c in self.chars for c in const)

    def can_contain_char(self, ch: str) -> bool:
        return self.chars is ANYSET or ch in self.chars

    def describe(self):
        cs = "any character" if self.chars is ANYSET else \
            "[" + "".join(sorted(self.chars)) + "]"
        return cs + ("*" if self.maxlen is None else f"{{0,{self.maxlen}}}")


def value_languages(lm: LexModel) -> dict[str, Lang]:
    """kind -> Lang, from the lexer branches that build the kind."""
    out: dict[str, Lang] = {}
    src, head = lm.src_var, lm.head_var

    def join(kind, lang):
        if kind not in out:
            out[kind] = lang
            return
        cur = out[kind]
        chars = ANYSET if (cur.chars is ANYSET or lang.chars is ANYSET) \
            else cur.chars | lang.chars
        ml = None if (cur.maxlen is None or lang.maxlen is None) \
            else max(cur.maxlen, lang.maxlen)
        out[kind] = Lang(chars, ml)

    for br in lm.branches:
        heads = br.chars
        for call in br.token_sites:
            kinds = []
            k = dotted(call.args[0])
            if k and k.startswith("TokenType."):
                kinds = [k.split(".", 1)[1]]
            else:
                kinds = list(br.kinds)
            val = call.args[1] if len(call.args) > 1 else None
            lang = _lang_of_value(val, br, lm, heads)
            for kd in kinds:
                join(kd, lang)
    return out


def _is_popleft(node, src):
    return isinstance(node, ast.Call) and dotted(node.func) == f"{src}.popleft"


def _lang_of_value(val, br, lm, heads):
    src, head = lm.src_var, lm.head_var
    if val is None:
        return Lang(ANYSET, None)
    if _is_popleft(val, src):
        return Lang(ANYSET, 1)
    if isinstance(val, ast.Name) and val.id == head:
        return Lang(ANYSET if heads is ANY else set(heads), 1)
    if isinstance(val, ast.BinOp) and isinstance(val.op, ast.Add) \
            and isinstance(val.left, ast.Name) and val.left.id == head \
            and _is_popleft(val.right, src):
        return Lang(ANYSET, 2)
    if isinstance(val, ast.Name):
        return _lang_of_accumulator(val.id, br, lm, heads)
    return Lang(ANYSET, None)


def _lang_of_accumulator(var, br, lm, heads):
    """Characters a token-value accumulator can collect inside its branch."""
    src, head = lm.src_var, lm.head_var
    chars: set | None = set()

    def add_chars(cs):
        nonlocal chars
        if chars is ANYSET:
            return
        if cs is ANYSET:
            chars = ANYSET
        else:
            chars |= cs

    def guard_charset(test):
        """`source[0] in CONST` conjunct of a loop guard -> charset."""
        for n in ast.walk(test):
            if isinstance(n, ast.Compare) and len(n.ops) == 1 \
                    and isinstance(n.ops[0], ast.In) \
                    and isinstance(n.left, ast.Subscript) \
                    and isinstance(n.left.value, ast.Name) \
                    and n.left.value.id == src:
                try:
                    v = lm.fold(n.comparators[0])
                except Exception:  # noqa: BLE001
                    return ANYSET
                if isinstance(v, str):
                    return set(v)
        return ANYSET

    # assignments of helper locals, with the charset of the loop they sit in
    local_defs: dict[str, list] = {}

    def collect(stmts, charset):
        for st in stmts:
            if isinstance(st, ast.Assign) and len(st.targets) == 1 \
                    and isinstance(st.targets[0], ast.Name):
                local_defs.setdefault(st.targets[0].id, []).append(
                    (st.value, charset))
            if isinstance(st, ast.While):
                collect(st.body, guard_charset(st.test))
            elif isinstance(st, ast.If):
                collect(st.body, charset)
                collect(st.orelse, charset)
            elif isinstance(st, ast.For):
                collect(st.body, ANYSET)
    collect(br.body, ANYSET)

    def expr_chars(e, charset, depth=0):
        """character set an expression can contribute (None = nothing new)"""
        if isinstance(e, ast.Constant) and isinstance(e.value, str):
            return set(e.value)
        if isinstance(e, ast.Name):
            if e.id == var:
                return set()
            if e.id == head:
                return ANYSET if heads is ANY else set(heads)
            if e.id in local_defs and depth < 3:
                out = set()
                for v, cs in local_defs[e.id]:
                    c = expr_chars(v, cs, depth + 1)
                    if c is ANYSET:
                        return ANYSET
                    out |= c
                return out
            return ANYSET
        if isinstance(e, ast.BinOp) and isinstance(e.op, ast.Add):
            l, r = expr_chars(e.left, charset, depth), expr_chars(
                e.right, charset, depth)
            if l is ANYSET or r is ANYSET:
                return ANYSET
            return l | r
        if _is_popleft(e, src):
            return charset
        if isinstance(e, ast.Subscript) and isinstance(e.value, ast.Name) \
                and e.value.id == src:
            return charset
        return ANYSET

    def visit(stmts, charset):
        for st in stmts:
            if isinstance(st, ast.Assign) and any(
                    isinstance(t, ast.Name) and t.id == var
                    for t in st.targets):
                add_chars(expr_chars(st.value, charset))
            elif isinstance(st, ast.AugAssign) and isinstance(
                    st.target, ast.Name) and st.target.id == var:
                add_chars(expr_chars(st.value, charset))
            elif isinstance(st, ast.While):
                visit(st.body, guard_charset(st.test))
            elif isinstance(st, ast.If):
                visit(st.body, charset)
                visit(st.orelse, charset)
            elif isinstance(st, ast.For):
                visit(st.body, ANYSET)

    visit(br.body, ANYSET)
    return Lang(chars, None)


# ---------------------------------------------------------------------------
# kind refinement
# ---------------------------------------------------------------------------


class Read:
    def __init__(self, node, base, kinds, role, detail, fn):
        self.node = node
        self.base = base  # text of the token expression
        self.kinds = kinds  # frozenset of kind names that may reach it
        self.role = role
        self.detail = detail  # role-specific (constant compared with, ...)
        self.fn = fn

    @property
    def line(self):
        return self.node.lineno


class KindWalker:
    def __init__(self, all_kinds, fold, token_exprs=None, functions=None,
                 depth=0):
        self.all = frozenset(all_kinds)
        self.fold = fold  # callable(ast expr) -> python value (or raises)
        self.reads: list[Read] = []
        self.fn = None
        self.functions = functions or {}  # module-local helpers to inline
        self.depth = depth
        self.inlined: set[str] = set()
        self.flag_defs: dict[str, ast.AST] = {}
        self.aliases: dict[str, str] = {}  # local name -> "<token>" whose
        # .value it holds (`value = token.value`)

    # -- public -----------------------------------------------------------------
    def run(self, fn: ast.FunctionDef):
        self.fn = fn
        self._collect_flags(fn)
        self.block(fn.body, {})
        return self.reads

    def _collect_flags(self, fn):
        """locals assigned exactly once, whose definition is a kind test (or
        and/or/not of kind tests) of a name that is not re-bound between the
        definition and the uses inside the same loop body / block"""
        stores = {}
        for n in ast.walk(fn):
            if isinstance(n, ast.Name) and isinstance(n.ctx, ast.Store):
                stores.setdefault(n.id, []).append(n)
        for name, sites in stores.items():
            if len(sites) != 1:
                continue
            par = getattr(sites[0], "_parent", None)
            if isinstance(par, ast.Assign) and len(par.targets) == 1 \
                    and par.targets[0] is sites[0] \
                    and self._is_kind_expr(par.value):
                self.flag_defs[name] = par.value

    def _is_kind_expr(self, e):
        if self.kind_test(e) is not None:
            return True
        if isinstance(e, ast.BoolOp):
            return all(self._is_kind_expr(v) for v in e.values)
        if isinstance(e, ast.UnaryOp) and isinstance(e.op, ast.Not):
            return self._is_kind_expr(e.operand)
        return False

    # -- env helpers --------------------------------------------------------------
    def kinds_of(self, env, base):
        return env.get(base, self.all)

    @staticmethod
    def root(base_text):
        for i, ch in enumerate(base_text):
            if not (ch.isalnum() or ch == "_"):
                return base_text[:i]
        return base_text

    def kill(self, env, name):
        return {k: v for k, v in env.items() if self.root(k) != name}

    @staticmethod
    def join(envs, all_kinds):
        envs = [e for e in envs if e is not None]
        if not envs:
            return None
        keys = set(envs[0])
        for e in envs[1:]:
            keys &= set(e)
        return {k: frozenset().union(*[e[k] for e in envs]) for k in keys}

    # -- statements -------------------------------------------------------------------
    def block(self, stmts, env):
        """returns the env at the end, or None if the block never falls through"""
        for st in stmts:
            if env is None:
                return None
            env = self.stmt(st, env)
        return env

    def assigned_names(self, stmts):
        out = set()
        for st in stmts:
            for n in ast.walk(st):
                if isinstance(n, ast.Name) and isinstance(n.ctx, ast.Store):
                    out.add(n.id)
        return out

    def stmt(self, st, env):
        if isinstance(st, ast.If):
            t_env, f_env = self.cond(st.test, env)
            a = self.block(st.body, t_env)
            b = self.block(st.orelse, f_env)
            return self.join([a, b], self.all)
        if isinstance(st, (ast.While, ast.For)):
            inner = dict(env)
            for nm in self.assigned_names(st.body) | (
                    self.assigned_names([st]) if isinstance(st, ast.For)
                    else set()):
                inner = self.kill(inner, nm)
            if isinstance(st, ast.While):
                t_env, _ = self.cond(st.test, inner)
            else:
                self.expr(st.iter, inner)
                t_env = inner
            self.block(st.body, t_env)
            out = dict(inner)
            self.block(st.orelse, out)
            return out
        if isinstance(st, (ast.Return, ast.Raise)):
            for ch in ast.iter_child_nodes(st):
                self.expr(ch, env)
            return None
        if isinstance(st, (ast.Break, ast.Continue)):
            return None
        if isinstance(st, ast.Try):
            a = self.block(st.body, dict(env))
            outs = [a]
            for h in st.handlers:
                outs.append(self.block(h.body, dict(env)))
            res = self.join(outs, self.all)
            if st.finalbody:
                res = self.block(st.finalbody, res if res is not None
                                 else dict(env))
            return res
        if isinstance(st, ast.FunctionDef):
            sub = KindWalker(self.all, self.fold)
            sub.fn = self.fn
            sub.reads = self.reads
            sub.block(st.body, {})
            return env
        if isinstance(st, (ast.Assign, ast.AugAssign, ast.AnnAssign)):
            val = st.value
            targets = st.targets if isinstance(st, ast.Assign) else [st.target]
            aliasing = isinstance(st, (ast.Assign, ast.AnnAssign)) \
                and len(targets) == 1 and isinstance(targets[0], ast.Name) \
                and isinstance(val, ast.Attribute) and val.attr == "value" \
                and isinstance(val.ctx, ast.Load)
            if val is not None and not aliasing:
                self.expr(val, env)
            for t in targets:
                for n in ast.walk(t):
                    if isinstance(n, ast.Name):
                        self.aliases.pop(n.id, None)
                        for k_, b_ in list(self.aliases.items()):
                            if self.root(b_) == n.id:
                                del self.aliases[k_]
            if aliasing:
                # the local stands for the token's value from here on: its
                # uses are the reads
                self.aliases[targets[0].id] = ast.unparse(val.value)
            for t in targets:
                for n in ast.walk(t):
                    if isinstance(n, ast.Name):
                        env = self.kill(env, n.id) if not aliasing else env
                    elif isinstance(n, ast.Attribute) and n.attr == "value":
                        pass
            return env
        if isinstance(st, ast.With):
            return self.block(st.body, env)
        for ch in ast.iter_child_nodes(st):
            if isinstance(ch, ast.expr):
                self.expr(ch, env)
        return env

    # -- conditions ----------------------------------------------------------------------
    def kind_test(self, test):
        """(base text, set of kinds, positive?) for `<e>.name ==/in ...`."""
        if not (isinstance(test, ast.Compare) and len(test.ops) == 1):
            return None
        left, op, right = test.left, test.ops[0], test.comparators[0]
        if not (isinstance(left, ast.Attribute) and left.attr == "name"):
            return None
        base = ast.unparse(left.value)
        try:
            val = self.fold(right)
        except Exception:  # noqa: BLE001
            return None
        members = val if isinstance(val, (tuple, list, set, frozenset)) \
            else [val]
        kinds = set()
        for m in members:
            nm = getattr(m, "name", None)
            if not isinstance(nm, str) or nm not in self.all:
                return None
            kinds.add(nm)
        if isinstance(op, (ast.Eq, ast.In, ast.Is)):
            return base, kinds, True
        if isinstance(op, (ast.NotEq, ast.NotIn, ast.IsNot)):
            return base, kinds, False
        return None

    def cond(self, test, env):
        """Scan `test` for reads under progressive refinement; return
        (env if true, env if false)."""
        if isinstance(test, ast.Name) and test.id in self.flag_defs:
            # a boolean local that holds a kind test
            # (`is_general = token.name == GENERAL`)
            return self.cond(self.flag_defs[test.id], env)
        kt = self.kind_test(test)
        if kt is not None:
            base, kinds, pos = kt
            cur = self.kinds_of(env, base)
            yes = dict(env)
            no = dict(env)
            yes[base] = cur & kinds
            no[base] = cur - kinds
            return (yes, no) if pos else (no, yes)
        if isinstance(test, ast.BoolOp) and isinstance(test.op, ast.And):
            cur = env
            falses = []
            for v in test.values:
                t, f = self.cond(v, cur)
                falses.append(f)
                cur = t
            # false when some conjunct is false: only the first conjunct's
            # false-refinement is certain if there is a single conjunct
            f_env = falses[0] if len(test.values) == 1 else dict(env)
            return cur, f_env
        if isinstance(test, ast.BoolOp) and isinstance(test.op, ast.Or):
            cur = env
            for v in test.values:
                t, f = self.cond(v, cur)
                cur = f
            return dict(env), cur
        if isinstance(test, ast.UnaryOp) and isinstance(test.op, ast.Not):
            t, f = self.cond(test.operand, env)
            return f, t
        self.expr(test, env)
        return dict(env), dict(env)

    # -- expressions -----------------------------------------------------------------------
    def expr(self, node, env):
        """Report `.value` reads inside an arbitrary expression."""
        if isinstance(node, ast.BoolOp):
            self.cond(node, env)
            return
        if isinstance(node, ast.IfExp):
            t, f = self.cond(node.test, env)
            self.expr(node.body, t)
            self.expr(node.orelse, f)
            return
        if isinstance(node, (ast.ListComp, ast.SetComp, ast.GeneratorExp,
                             ast.DictComp)):
            inner = dict(env)
            for g in node.generators:
                self.expr(g.iter, inner)
                for n in ast.walk(g.target):
                    if isinstance(n, ast.Name):
                        inner = self.kill(inner, n.id)
                for c in g.ifs:
                    inner, _ = self.cond(c, inner)
            for part in ([node.key, node.value] if isinstance(
                    node, ast.DictComp) else [node.elt]):
                self.expr(part, inner)
            return
        if isinstance(node, ast.Lambda):
            inner = dict(env)
            for a in node.args.args:
                inner = self.kill(inner, a.arg)
            self.expr(node.body, inner)
            return
        if isinstance(node, ast.Call) and isinstance(node.func, ast.Name) \
                and node.func.id in self.functions and self.depth < 2 \
                and node.func.id != getattr(self.fn, "name", None):
            # module-local helper: walk it with the caller's kinds for the
            # token arguments ("extract function" refactorings)
            callee = self.functions[node.func.id]
            params = [a.arg for a in callee.args.args]
            cenv = {}
            for i, a in enumerate(node.args):
                if i < len(params):
                    cenv[params[i]] = self.kinds_of(env, ast.unparse(a))
            sub = KindWalker(self.all, self.fold, functions=self.functions,
                             depth=self.depth + 1)
            sub.fn = callee
            sub.reads = self.reads
            sub.inlined = self.inlined
            self.inlined.add(callee.name)
            sub.block(callee.body, cenv)
        if isinstance(node, ast.Attribute) and node.attr == "value" \
                and isinstance(node.ctx, ast.Load):
            base = ast.unparse(node.value)
            self.reads.append(Read(node, base, self.kinds_of(env, base),
                                   *self.role_of(node), self.fn))
        if isinstance(node, ast.Name) and isinstance(node.ctx, ast.Load) \
                and node.id in self.aliases:
            base = self.aliases[node.id]
            self.reads.append(Read(node, base, self.kinds_of(env, base),
                                   *self.role_of(node), self.fn))
        for ch in ast.iter_child_nodes(node):
            if isinstance(ch, ast.expr):
                self.expr(ch, env)

    def role_of(self, node):
        par = getattr(node, "_parent", None)
        if isinstance(par, ast.Compare):
            others = [par.left] + list(par.comparators)
            others = [o for o in others if o is not node]
            return "compare", (par.ops[0], others[0] if others else None)
        if isinstance(par, ast.Subscript) and par.slice is node:
            return "lookup", par.value
        if isinstance(par, ast.Call):
            if node in par.args:
                return "call-arg", par
        if isinstance(par, ast.BoolOp):
            return "truth", None
        if isinstance(par, ast.UnaryOp) and isinstance(par.op, ast.Not):
            return "truth", None
        if isinstance(par, (ast.If, ast.While, ast.IfExp)) \
                and par.test is node:
            return "truth", None
        if isinstance(par, ast.Subscript) and par.value is node:
            return "index-into", par
        return "other", par
