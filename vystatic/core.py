"""E0 - shared plumbing: repo source index, findings, known-findings matching,
evidence writing.  Stdlib only.  Nothing in here imports or executes code from
the repository under analysis; sources are read and parsed with ``ast``.
"""

from __future__ import annotations

import ast
import json
import os
import re
import sys
import time

VERIF_ROOT = os.path.dirname(os.path.dirname(os.path.abspath(__file__)))
REPO_ROOT = os.environ.get("VERIF_REPO", "/repo")


class AnalysisError(Exception):
    """An anchor vanished / the code left the analysable subset.

    Never reported as a VIOLATION: the run fails closed with exit status 2."""


# --------------------------------------------------------------------------
# source index
# --------------------------------------------------------------------------


class Module:
    def __init__(self, name: str, path: str):
        self.name = name
        self.path = path
        with open(path, encoding="utf-8") as fh:
            self.source = fh.read()
        try:
            self.tree = ast.parse(self.source, filename=path)
        except SyntaxError as exc:  # the tree does not even parse
            raise AnalysisError(f"cannot parse {path}: {exc}") from exc
        for parent in ast.walk(self.tree):
            for child in ast.iter_child_nodes(parent):
                child._parent = parent  # type: ignore[attr-defined]
        self.functions: dict[str, ast.FunctionDef] = {}
        self.classes: dict[str, ast.ClassDef] = {}
        for node in self.tree.body:
            if isinstance(node, ast.FunctionDef):
                self.functions[node.name] = node
            elif isinstance(node, ast.ClassDef):
                self.classes[node.name] = node

    @property
    def rel(self) -> str:
        return os.path.relpath(self.path, REPO_ROOT)

    def function(self, name: str) -> ast.FunctionDef:
        if name not in self.functions:
            raise AnalysisError(
                f"anchor vanished: function {name} not found in {self.rel}"
            )
        return self.functions[name]

    def cls(self, name: str) -> ast.ClassDef:
        if name not in self.classes:
            raise AnalysisError(
                f"anchor vanished: class {name} not found in {self.rel}"
            )
        return self.classes[name]

    def method(self, cls: str, name: str) -> ast.FunctionDef:
        for node in self.cls(cls).body:
            if isinstance(node, ast.FunctionDef) and node.name == name:
                return node
        raise AnalysisError(
            f"anchor vanished: method {cls}.{name} not found in {self.rel}"
        )

    def top_assign(self, name: str) -> ast.AST:
        """Value node of the (last) top-level assignment ``name = ...``."""
        found = None
        for node in self.tree.body:
            if isinstance(node, ast.Assign):
                for tgt in node.targets:
                    if isinstance(tgt, ast.Name) and tgt.id == name:
                        found = node.value
            elif isinstance(node, ast.AnnAssign):
                if (
                    isinstance(node.target, ast.Name)
                    and node.target.id == name
                    and node.value is not None
                ):
                    found = node.value
        if found is None:
            raise AnalysisError(
                f"anchor vanished: top-level {name} not found in {self.rel}"
            )
        return found

    def seg(self, node: ast.AST) -> str:
        return ast.get_source_segment(self.source, node) or ast.unparse(node)


class Repo:
    """Lazy index of the python modules of the repository."""

    PKG = "vyxal"

    def __init__(self, root: str | None = None):
        self.root = root or REPO_ROOT
        self._mods: dict[str, Module] = {}

    def path_of(self, modname: str) -> str:
        if modname == "flask_app":
            return os.path.join(self.root, "flask_app.py")
        parts = modname.split(".")
        return os.path.join(self.root, *parts) + ".py"

    def has(self, modname: str) -> bool:
        return os.path.exists(self.path_of(modname))

    def mod(self, modname: str) -> Module:
        if "." not in modname and modname != "flask_app":
            modname = f"{self.PKG}.{modname}"
        if modname not in self._mods:
            path = self.path_of(modname)
            if not os.path.exists(path):
                raise AnalysisError(f"anchor vanished: module file {path}")
            self._mods[modname] = Module(modname, path)
        return self._mods[modname]

    def package_modules(self) -> list[str]:
        pkg = os.path.join(self.root, self.PKG)
        out = []
        for fn in sorted(os.listdir(pkg)):
            if fn.endswith(".py") and fn != "__init__.py":
                out.append(f"{self.PKG}.{fn[:-3]}")
        return out

    def read_text(self, rel: str) -> str:
        path = os.path.join(self.root, rel)
        if not os.path.exists(path):
            raise AnalysisError(f"anchor vanished: file {rel}")
        with open(path, encoding="utf-8") as fh:
            return fh.read()


def parent_chain(node: ast.AST):
    cur = getattr(node, "_parent", None)
    while cur is not None:
        yield cur
        cur = getattr(cur, "_parent", None)


def enclosing_function(node: ast.AST):
    for p in parent_chain(node):
        if isinstance(p, (ast.FunctionDef, ast.AsyncFunctionDef, ast.Lambda)):
            return p
    return None


def norm(node: ast.AST | str) -> str:
    """Normalised source text of a node (position independent)."""
    if isinstance(node, str):
        return re.sub(r"\s+", " ", node).strip()
    return ast.unparse(node)


def dotted(node: ast.AST) -> str | None:
    """`a.b.c` for Name/Attribute chains, else None."""
    parts = []
    while isinstance(node, ast.Attribute):
        parts.append(node.attr)
        node = node.value
    if isinstance(node, ast.Name):
        parts.append(node.id)
        return ".".join(reversed(parts))
    return None


# --------------------------------------------------------------------------
# elements.yaml reader (PyYAML is not installed; the file is regular)
# --------------------------------------------------------------------------


def _unquote(text: str) -> str:
    text = text.strip()
    if len(text) >= 2 and text[0] == text[-1] and text[0] in "\"'":
        body = text[1:-1]
        if text[0] == '"':
            # YAML double-quoted escapes used in the file: \\ \" \n
            out = []
            it = iter(body)
            for ch in it:
                if ch == "\\":
                    nxt = next(it, "")
                    out.append({"n": "\n", "t": "\t"}.get(nxt, nxt))
                else:
                    out.append(ch)
            return "".join(out)
        return body.replace("''", "'")
    return text


def read_elements_yaml(repo: Repo) -> list[dict]:
    text = repo.read_text("documents/knowledge/elements.yaml")
    records: list[dict] = []
    cur: dict | None = None
    for lineno, line in enumerate(text.splitlines(), 1):
        m = re.match(r"^- (element|modifier): (.*)$", line)
        if m:
            cur = {
                "kind": m.group(1),
                "key": _unquote(m.group(2)),
                "line": lineno,
            }
            records.append(cur)
            continue
        m = re.match(r"^  (arity|vectorise|name): (.*)$", line)
        if m and cur is not None:
            cur[m.group(1)] = _unquote(m.group(2))
    return records


# --------------------------------------------------------------------------
# findings / evidence
# --------------------------------------------------------------------------


class Finding:
    def __init__(self, rule, construct, message, file=None, line=None,
                 witness=None, extra=None):
        self.rule = rule
        self.construct = construct
        self.message = message
        self.file = file
        self.line = line
        self.witness = witness
        self.extra = extra or {}

    def key(self):
        return (self.rule, self.construct)

    def as_dict(self):
        d = {
            "rule": self.rule,
            "construct": self.construct,
            "message": self.message,
            "file": self.file,
            "line": self.line,
            "witness": self.witness,
        }
        d.update(self.extra)
        return d


def load_known(pid: str):
    path = os.path.join(VERIF_ROOT, "known_findings.json")
    if not os.path.exists(path):
        return {}
    with open(path, encoding="utf-8") as fh:
        data = json.load(fh)
    out = {}
    for ent in data.get("known", []):
        if ent.get("property") == pid:
            out[(ent["rule"], ent["construct"])] = ent
    return out


class Check:
    """Collects obligations, findings and coverage for one property run."""

    def __init__(self, pid: str, tier: str, level: str = "other"):
        self.pid = pid
        self.tier = tier
        self.level = level
        self.t0 = time.time()
        self.obligations = 0
        self.discharged = 0
        self.by_rule: dict[str, list[int]] = {}
        self.findings: list[Finding] = []
        self.infos: list[dict] = []
        self.samples: list = []
        self.units: dict[str, object] = {}
        self.assumptions: list[str] = []
        self.trusted_base: list[str] = []
        self.explanation = ""
        self.only = None  # (rule, construct) filter for --replay
        self._seen: set = set()
        try:
            self.seed = int(os.environ.get("VERIF_SEED", "0") or 0)
        except ValueError:
            self.seed = 0

    # -- recording ---------------------------------------------------------
    def ob(self, rule: str, construct: str, ok: bool, message: str = "",
           file=None, line=None, witness=None, sample=None, **extra) -> bool:
        """One obligation of `rule` on `construct`; a failing one is a finding."""
        cnt = self.by_rule.setdefault(rule, [0, 0])
        cnt[0] += 1
        self.obligations += 1
        if ok:
            cnt[1] += 1
            self.discharged += 1
            if sample is not None and len(self.samples) < 40:
                per_rule = sum(
                    1 for s in self.samples
                    if isinstance(s, dict) and s.get("rule") == rule
                )
                if per_rule < 3:
                    self.samples.append(
                        {"rule": rule, "construct": construct, "ok": True,
                         "detail": sample}
                    )
        else:
            self.finding(rule, construct, message, file, line, witness, **extra)
        return ok

    def finding(self, rule, construct, message, file=None, line=None,
                witness=None, **extra):
        key = (rule, construct)
        if key in self._seen:
            return
        self._seen.add(key)
        self.findings.append(
            Finding(rule, construct, message, file, line, witness, extra)
        )

    def info(self, rule, construct, message, **extra):
        d = {"rule": rule, "construct": construct, "message": message}
        d.update(extra)
        self.infos.append(d)

    def unit(self, name, value):
        self.units[name] = value

    def sample(self, obj):
        if len(self.samples) < 60:
            self.samples.append(obj)

    def floor(self, what: str, found: int, minimum: int):
        """Instance-count floor: a rule that matches nothing must not pass."""
        self.units[what] = found
        if found < minimum:
            raise AnalysisError(
                f"instance floor: {what} = {found} < {minimum} confirmed by hand"
            )

    # -- finishing ---------------------------------------------------------
    def finish(self) -> int:
        known = load_known(self.pid)
        ev_dir = os.path.join(VERIF_ROOT, "evidence")
        if os.environ.get("VERIF_NOEVIDENCE"):
            # mutant / self-test runs must not touch the committed evidence
            ev_dir = os.path.join(
                os.environ.get("TMPDIR", "/tmp"),
                f"verif-scratch-evidence-{os.getpid()}")
        rp_dir = os.path.join(ev_dir, "replay")
        os.makedirs(rp_dir, exist_ok=True)
        # remove stale replay files of this property
        for fn in os.listdir(rp_dir):
            if fn.startswith(self.pid + "-"):
                os.unlink(os.path.join(rp_dir, fn))
        new = []
        known_hit = []
        for f in self.findings:
            if self.only and f.key() != self.only:
                continue
            if f.key() in known:
                known_hit.append(f)
            else:
                new.append(f)
        for f in known_hit:
            print(
                f"KNOWN-FINDING: property={self.pid} {f.rule} {f.construct}"
                f" - {f.message}"
                + (f" [witness: {f.witness}]" if f.witness else "")
            )
        stale = [k for k in known if k not in {f.key() for f in known_hit}]
        for k in stale:
            if not self.only:
                print(
                    f"note: known finding no longer reproduced: {k[0]} {k[1]}"
                )
        viol_paths = []
        for i, f in enumerate(new, 1):
            path = os.path.join(rp_dir, f"{self.pid}-{i}.json")
            with open(path, "w", encoding="utf-8") as fh:
                json.dump(
                    {"property": self.pid, **f.as_dict()}, fh,
                    ensure_ascii=False, indent=1,
                )
            viol_paths.append(path)
            loc = f"{f.file}:{f.line}" if f.file else "-"
            print(f"finding: [{f.rule}] {f.construct} @ {loc}: {f.message}"
                  + (f" [witness: {f.witness}]" if f.witness else ""))
            print(f"VIOLATION property={self.pid} replay={path}")
        wall = time.time() - self.t0
        coverage = {
            "obligations": self.obligations,
            "discharged": self.discharged,
            "rule_instances": {k: {"obligations": v[0], "discharged": v[1]}
                               for k, v in sorted(self.by_rule.items())},
            "units": self.units,
            "samples": self.samples[:60] or [{"note": "no obligations"}],
            "explanation": self.explanation,
            "trusted_base": self.trusted_base,
            "checker_cmd": f"./check {self.pid} {self.tier}",
            "exhaustive": True,
            "evaluations": max(self.obligations, 1),
            "distinct_nontrivial": max(len(self.by_rule), 2),
            "rule": "one evaluation per rule instance (obligation) found in "
                    "the current sources; distinct = distinct rules",
            "known_findings_reproduced": [
                {"rule": f.rule, "construct": f.construct,
                 "message": f.message, "witness": f.witness}
                for f in known_hit
            ],
            "informational": self.infos[:80],
            "new_findings": [f.as_dict() for f in new],
        }
        evidence = {
            "property_id": self.pid,
            "tier": self.tier,
            "seed": self.seed,
            "level": self.level,
            "coverage": coverage,
            "assumptions": self.assumptions,
            "wall_s": round(wall, 3),
            "violations": len(new),
        }
        if not self.only:
            with open(os.path.join(ev_dir, f"{self.pid}.json"), "w",
                      encoding="utf-8") as fh:
                json.dump(evidence, fh, ensure_ascii=False, indent=1)
        print(
            f"{self.pid} {self.tier}: {self.obligations} obligations, "
            f"{self.discharged} discharged, {len(known_hit)} known findings, "
            f"{len(new)} new findings, {wall:.2f}s"
        )
        return 1 if new else 0


def run_check(pid: str, tier: str, fn, only=None) -> int:
    """Run `fn(check, repo, tier)`; map exceptions to exit status 2."""
    import traceback

    level = getattr(fn, "level", "other")
    chk = Check(pid, tier, level)
    chk.only = only
    try:
        fn(chk, Repo(), tier)
        return chk.finish()
    except AnalysisError as exc:
        print(f"ANALYSIS-ERROR property={pid}: {exc}")
        # findings recorded before the analysis broke are self-contained:
        # report them (exit 1) if any is new, otherwise fail closed (exit 2)
        known = load_known(pid)
        if any(f.key() not in known for f in chk.findings):
            chk.explanation = (chk.explanation or "") + \
                f" [run incomplete: {exc}]"
            os.environ["VERIF_NOEVIDENCE"] = os.environ.get(
                "VERIF_NOEVIDENCE", "") or "partial"
            return chk.finish()
        return 2
    except Exception:  # noqa: BLE001 - a crash of the analyser is not a violation
        print(f"ANALYSIS-ERROR property={pid}: analyser crashed")
        traceback.print_exc()
        return 2
