#!/bin/sh
# usage: tools/mut.sh <ID> <file-relative-to-repo> <python-expr-transforming-source s> 
# copies /repo to a scratch dir, applies the edit, runs ./check <ID> quick there, removes the copy
ID="$1"; FILE="$2"; EDIT="$3"
D=$(mktemp -d /tmp/mut.XXXXXX)
rsync -a --exclude .git --exclude '*.pyc' --exclude __pycache__ /repo/ "$D/"
python3 - "$D/$FILE" "$EDIT" <<'PY'
import sys
p, edit = sys.argv[1], sys.argv[2]
s = open(p, encoding='utf-8').read()
t = eval(edit, {'s': s})
assert t != s, "edit did not change the file"
open(p, 'w', encoding='utf-8').write(t)
PY
[ $? -eq 0 ] || { rm -rf "$D"; exit 3; }
/venv/bin/python -c "import ast,sys; ast.parse(open('$D/$FILE',encoding='utf-8').read())" || echo "MUTANT DOES NOT PARSE"
cd /verif && VERIF_REPO="$D" VERIF_NOEVIDENCE=1 ./check "$ID" quick | grep -v "^KNOWN-FINDING" | cut -c1-400
rm -rf "$D"
