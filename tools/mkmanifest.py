#!/usr/bin/env python3
"""Regenerate /verif/MANIFEST.json from the table below (kept in one place so
the manifest stays valid while checks are added)."""

import json
import os

HERE = os.path.dirname(os.path.dirname(os.path.abspath(__file__)))

NOTE_COMMON = (
    "Trusts CPython's ast/compile, the vystatic restricted interpreter's "
    "model of ~25 pure builtins, and the frozen idiom / exception tables in "
    "the checker (one reason per line). Fails closed (exit 2, "
    "ANALYSIS-ERROR) when an anchor vanishes or the code leaves the analysable "
    "subset.")

CHECKS = {
    "C02": dict(
        technique="template extraction by partial evaluation of the code "
                  "generator + grammar-closure worklist with compile() as "
                  "compile-fail witness",
        category="other",
        text="Decides syntactic validity of the generated Python for ALL "
             "programs by induction on the parse tree: every element/modifier/"
             "token template is compiled in three block contexts and shown "
             "context-free; every structure skeleton (obtained by interpreting "
             "the current transpile.py on symbolic branches) is compiled with "
             "every admissible break/recurse lowering in every reachable hole "
             "state (fixpoint over parse parent x python def/loop context); "
             "the generator must not raise for any grammar-derived shape; the "
             "STRING escaping loop is checked over the lexer's value language. "
             "Unrolling bounds: If branches 5/8, list items 2/4, parameters "
             "2/3, loop nesting per def 2/3 (uniform beyond).",
        ref="DESIGN.md §3 C02"),
    "C03": dict(
        technique='path-sensitive token-kind refinement over parse.py (abstract interpretation in the kind-set domain, helpers inlined) against per-kind value languages; lexer laws (payload-opaque, total) on a class-exhaustive model obtained by interpreting the current tokenise on its own character classes',
        category="other",
        text="Decides the grouping clause for the parser as architected: every read of a token's .value in parse.py (and the arity lookup in transpile.lambda_wrap) is annotated with the set of token kinds that can reach it on any path; a read that decides grouping must only see kinds whose value language cannot spell the constant. Lexer side, for all strings of length <= 2 (reduced length 3) over the lexer's own character classes: for every literal form found (delimited, one-/two-character prefix, comment) the kinds of the tokens around the literal do not depend on the payload and the payload is the token's value; escape characters must keep themselves and the next character; the lexer never raises.",
        ref="DESIGN.md §3 C03"),
    "C04": dict(
        technique='lexer laws (total, closer-optional) on the class-exhaustive interpreted lexer model; bounded closed-vs-truncated comparison of the interpreted tokenise+parse on programs generated from the structure table; structural rules on the branch collector',
        category="other",
        text='For every delimited literal form and every payload of <= 2 class characters `d payload` and `d payload d` lex alike and no probe raises; for ~250 (thorough ~5000) generated closed programs and every droppable suffix of their trailing closers the interpreted front end builds the same tree; _get_branches loops while tokens remain, never raises, has one unconditional return and does not store the outermost closer; parse() never reads the closing state. The sweep is bounded; the structural rules carry the general argument.',
        ref="DESIGN.md §3 C04"),
    "C05": dict(
        technique='template extraction (taint/template domain) of the NUMBER lowering + exact-constructor vocabulary; number-splitting laws on the interpreted lexer over all digit strings of length <= 5',
        category="other",
        text='Clause-level: the literal text reaches the runtime only as the string argument of an exact constructor (int, sympy.Integer/Rational, Fraction, sympify(rational=True); nsimplify only on the digits-only path - nsimplify(rational=True) is not exact), unmodified except split/join/constant concatenation; on all strings of length <= 5 over 0 7 . ° the lexer yields NUMBER tokens that spell the input exactly, with at most one point per part and one °, a leading 0 standing alone, and maximal. Does not decide numerical equality in general.',
        ref="DESIGN.md §3 C05"),
    "C06": dict(
        technique="class-exhaustive transducer composition: quotify's escape table, the lexer, uncompress_dict and the STRING arm interpreted from source on a character-class alphabet; homomorphism of the escaping stage on the writer's units",
        category="other",
        text="Decides the round trip over a character-class abstraction: the four stages composed with python's literal semantics are the identity on every class string of length <= 2 (3 thorough), the quoted text lexes as one literal, and the escaping stage is a homomorphism on the writer's units (plain character, escaped backslash, escaped back-quote) over all unit pairs, so the result extends to all strings. Does not decide dictionary words themselves.",
        ref="DESIGN.md §3 C06"),
    "C07": dict(
        technique="exact-arithmetic vocabulary check (abstract typing "
                  "int/Rational vs float) of the (num, num) overload arms "
                  "extracted from the dispatch tables, and of vyxalify",
        category="other",
        text="Clause-level: the (num, num) arm of add/subtract/multiply/"
             "divide/modulo/integer_divide is built only from exact "
             "operations (+ - * // %, or / with an operand lifted to a sympy "
             "number), wrapped only by exact normalisers, with no float(), "
             "math.*, sympy.N or closed-form-guessing nsimplify; divide and "
             "integer_divide are guarded by `0 if rhs == 0`; vyxalify "
             "normalises with rational=True and maps Integer to int. Does "
             "not decide value equality.",
        ref="DESIGN.md §3 C07"),
    "C08": dict(
        technique="call-site conformance analysis of every vectorise(...) "
                  "fallback against the enclosing function's signature, "
                  "frozen instance list with overload-key inventory, "
                  "structural check of the pairing tables of vectorise/vy_zip",
        category="other",
        text="Structural necessary conditions for all vectorising elements: "
             "every vectorise(F, ...) call is a conformant self fallback "
             "(same function, own value parameters bare and in order) or a "
             "reviewed exception; the 107 functions confirmed as vectorising "
             "keep such a fallback and claim no new list-containing kind "
             "tuple; eager and lazy lists reach the fallback alike; the "
             "helper's pairing rows iterate exactly the list-kinded "
             "parameters, keep scalars fixed and argument order, pair two "
             "lists through vy_zip, which zero-fills. Does not decide the "
             "scalar arms' results.",
        ref="DESIGN.md §3 C08"),
    "C09": dict(
        technique="abstract stack-effect analysis of every extracted "
                  "template AST (allowed-use typestate of the `stack` "
                  "variable, per-path pop counts vs declared arity)",
        category="other",
        text="Decides for every key of the element table, every modifier "
             "template and every structure skeleton that the data stack is "
             "touched only via pop(stack, literal k, ctx), stack.append and "
             "stack += ..., that at most `arity` entries are popped on every "
             "path (exactly `arity` for process_element boilerplate), peeks "
             "stay within the arity, and the stack object is handed only to "
             "the called function / list-item closure; whole-stack "
             "operations are a frozen reasoned table; helpers.pop/wrapify pop "
             "exactly `count`; ctx.stacks is read only at four reasoned "
             "sites.",
        ref="DESIGN.md §3 C09"),
    "C10": dict(
        technique="interprocedural may-alias + mutation-effect analysis over "
                  "elements.py/helpers.py (closures included, call-graph "
                  "fixpoint) and template discipline rules",
        category="other",
        text="Decides a necessary condition of immutability for the whole "
             "element library: no mutator method, subscript/attribute store, "
             "in-place +=, random.shuffle or mutating callee is ever applied "
             "to an object that may be a value parameter or one of its items; "
             "templates do not mutate popped values, copy on duplicate and "
             "copy interpreter-owned lists before publishing them; deep_copy "
             "builds a new container for lists and lazy lists.",
        ref="DESIGN.md §3 C10"),
    "C11": dict(
        technique='get_input and pop treated as transition systems: their current source interpreted on every small abstract state; field-write inventory for cursors and the flag; template rules for the input element and the scope-pushing templates',
        category="other",
        text="One call of get_input on each of 4296 abstract states (<= 3 scopes, <= 3 inputs each, every cursor position, both flag values) returns input `cursor mod n` of the scope selected by the explicit-read flag (0 for an empty scope), advances exactly that cursor and leaves the flag unchanged - the k-th-read law follows by induction; pop on a short stack returns the stack items then the next inputs in order; the ? template sets/reads/resets the flag; lambda and function templates push [reversed copy of the arguments, 0]; no implicit read after the call's own scope was popped. Scope push/pop balance is C12's.",
        ref="DESIGN.md §3 C11"),
    "C12": dict(
        technique="stack-height (typestate) analysis over the structured CFG "
                  "of every extracted template x hole state, and of python "
                  "functions pushing ctx lists",
        category="other",
        text="Decides for ALL normally terminating programs that the four "
             "bookkeeping lists return to their depth: heights must agree at "
             "merges, loop back-edges, break/continue (loop-entry height), "
             "return/fall-through of every def (zero) and skeleton exit, for "
             "every skeleton x admissible early exit x reachable hole state, "
             "every table template and every python function that pushes or "
             "pops a list. Exception edges excluded.",
        ref="DESIGN.md §3 C12"),
    "C13": dict(
        technique="field-write inventory and typestate rules for the "
                  "LazyList memo cache (writers, sources, escapes) over the "
                  "whole package",
        category="other",
        text="Clause-level: decides 'observations never change the sequence "
             "a lazy list denotes' via the cache discipline - every write to "
             "*.generated anywhere in the package is classified (constructor "
             "reset, __next__ appending the pulled item, __setitem__, "
             "extension from raw_object that does not iterate self), "
             "raw_object is set once, the cache does not escape, __next__ "
             "caches exactly what it returns, __iter__ resumes after the "
             "cached prefix, observers pull only through next(self). Does not "
             "decide the values observers return.",
        ref="DESIGN.md §3 C13"),
    "C14": dict(
        technique="lazy-view propagation + eager-consumer (forcing) effect "
                  "analysis over the catalogued transformations, with kind "
                  "guards and a reviewed site table",
        category="other",
        text="Necessary condition (no non-termination by forcing) for the 31 "
             "catalogued (function, lazy parameter) pairs: every lazy view of "
             "the parameter (aliases, iterable/iter/deep_copy/LazyList/map/"
             "filter/zip/enumerate/itertools wrappers, generator expressions, "
             "nested generators, results of other catalogued "
             "transformations) reaches no eager consumer outside arms that "
             "show the parameter is a string/number/function/eager list; "
             "LazyList's access path (__iter__, __next__, has_ind, "
             "non-negative __getitem__, open slices) pulls only what is asked "
             "for. Does not decide the linear pull bound.",
        ref="DESIGN.md §3 C14"),
    "C15": dict(
        technique='constant folding of the codec alphabets + writer/reader table-agreement queries; read-back law on the interpreted lexer; round trip of the pure positional helpers interpreted on boundary values',
        category="other",
        text='Clause-level: alphabets distinct and free of their delimiter, delimiters are lexer heads, the three codecs name the same alphabet constants on both sides in mirrored order, dictionary pad/capacity/lookup agree, every digit of the compressed alphabets is read back verbatim inside its literal, and to/from_base_digits and to/from_base_alphabet invert each other on all small values and b^k-1, b^k, b^k+1 for bases 2,3,10,27,255 and the four alphabets. Does not decide the arithmetic of the τ element (float logarithm through sympy).',
        ref="DESIGN.md §3 C15"),
    "C18": dict(
        technique='taint / sanitiser analysis: abstract interpretation of transpile.py in a template domain (helpers inlined) with sanitiser classes and regex-class contents from re._parser; emitted-syntax-tree-shape independence of the payload for free-text token kinds',
        category="other",
        text="Decides for every input string that program text reaches returned code only inside string/number constants or as the tail of a fixed-prefix identifier: every program-derived value in the three transpile functions is tracked with its sanitiser class and checked against the python context of the constant template text around it; for STRING, COMPRESSED_*, CHARACTER and CODEPAGE_NUMBER the syntax tree of the emitted code with constants masked is the same for every payload over an adversarial class alphabet; every Lambda arity is an int or 'default' at its construction site.",
        ref="DESIGN.md §3 C18"),
    "C19": dict(
        technique="whole-package inventory of dynamic-evaluation and "
                  "host-output call sites with argument-provenance "
                  "classification + guard-dominance analysis for "
                  "`not ctx.online` + try/handler structure of execute_vyxal",
        category="other",
        text="Decides the named channels structurally for all programs and "
             "inputs: every eval/exec/compile/os.system/subprocess site in "
             "vyxal/*.py and in every element template is classified "
             "(generated-by-transpile, numeric, constant, user text); every "
             "user-text evaluation and every print/sys.stdout/prompting "
             "input() site must be dominated by `not ctx.online`; vy_eval's "
             "online arm uses ast.literal_eval only; execute_vyxal's "
             "program-dependent statements all sit in try blocks whose online "
             "arm records and does not re-raise; the flag is set first and "
             "written nowhere else; flask_app passes online_mode=True.",
        ref="DESIGN.md §3 C19"),
    "C20": dict(
        technique='constant folding of code page / tables; interpreted tokenise on every key; exhaustive over all keys, all bytes and (thorough) all 65536 two-character strings',
        category="other",
        text='Finite and exhaustive (not called a proof because four obligations fail today and are carried as known findings): 256 distinct code-page entries, converters that round-trip every byte/character and act character by character, every table key in the code page, lexed as exactly one GENERAL token by the current tokenise, not shadowed by syntax or a duplicate key, modifier tables agreeing, documented arity equal to table arity.',
        ref="DESIGN.md §3 C20",
        note="Trusts CPython's ast, the vystatic constant folder, and the "
             "regular layout of elements.yaml; the lexer is represented by its "
             "if/elif head-dispatch chain (fails closed if that shape "
             "changes)."),
}

# rules added in the second and third seeding rounds (see DESIGN.md §6)
ADDENDA = {
    "C02": "A skeleton emitted k blocks deep must be the same statement list as at top level (indent uniformity); function names include code-page characters that are alphanumeric for \\w but not for a python identifier; STRING values cover the classes of the python literal grammar (x u U N after a backslash, raw CR) and every compression character alone / at the dictionary boundary positions.",
    "C03": "Comment heads are discovered independently of the law checked on them; a result remembered in a module-level table must be keyed by every input it depends on (token kind included).",
    "C05": "sympy.nsimplify on a digit string is exact only with rational=True and only for integers (known finding: the pinned integer template).",
    "C06": "The writer's escaping call must not be limited by a count (re.sub's 4th positional argument); module-level memo tables must be keyed by the compression mode.",
    "C07": "`//` and builtin divmod are not in the exact vocabulary (sympy Integer // Rational is off by one on negative integral quotients); int() only after an exact floor; arms are followed through delegation to another element's arm.",
    "C08": "primitive_type / vy_type are interpreted once per class of sympy's numeric tower (Half, Zero, One, NegativeOne, Integer, Rational, irrational expression); a frozen instance may instead be a composition of vectorising functions; vy_zip may pad through a sentinel compared with `is`.",
    "C09": "A Lambda structure of arity k announces `.arity = k` and grabs k arguments by default in its generated text.",
    "C10": "A lazy wrapper (deep_copy, LazyList, iter, map, ...) of an interpreter-owned list is a live view until materialised; augmented assignment to a name is not an in-place change when a fresh definition dominates it.",
    "C11": "The transition model ranges over the depths of the other bookkeeping lists that lambda / named-function scopes produce and stops if get_input reads an attribute it does not model; the scope pushed for a call must be a snapshot; pop / wrapify(x, n) / get_input are handed the running context at every call site in functions, templates and skeletons.",
    "C12": "Vyxal functions are driven lazily only from generator frames (a builtin map/filter/itertools object takes a StopIteration escaping from the function for the end of its data); while an unprotected driver exists, every one-argument next() / raise StopIteration outside a generator is reported too.",
    "C13": "The end of the list / an absent slice end is never inferred from a truth value; 'the source is exhausted here' is a must-analysis over the method's structure (not statement order); the constructor starts empty or replaces the source by an empty iterator.",
    "C14": "The constructor does not consume its source; lazy views propagate through literal tuples; bounds and counts are recognised as numbers for every class of sympy's tower (no exact-class tests).",
    "C15": "elements.to_base is interpreted (bounded: n <= base**3+1 and around base**k, k <= 40, nine bases) with a strict digit lookup; a numeric base is recognised for every number class.",
    "C18": "uncompress's INT/STR summary is path-aware (an early return counts for every kind); re.sub limited by a count is not a sanitiser.",
    "C19": "vy_eval is interpreted with ctx.online true on a marked text behind literal-looking prefixes, everything outside the package being a recorder: no evaluator sees the text, every callee may raise without vy_eval raising, rejected text comes back unchanged; functions that depend on the mode are handed the running context (never a module-level default, never by omission); an evaluator used as a value is a site; helpers that always exit are no-return.",
    "C20": "Keys stay their own token after every class representative that is a complete token; character classes include the truth sets of str predicates the lexer calls; the tables are bound once to their literal and never written; program bytes reach vyxal_to_utf8 from a binary handle.",
}
ADDENDA4 = {
    "C02": "Lexer facts are the union over both lexer modes (one-character variable names on/off); variable tokens are compiled with names from that language.",
    "C04": "The closed-vs-truncated sweep runs in both lexer modes.",
    "C06": "The round trip starts at the element q as the table defines it.",
    "C09": "In modifier templates function_call(stack, ...) directly follows the modifier's own push; ctx.retain_popped is switched off again on every path.",
    "C11": "The transition model also ranges over ctx.online; each run's context is a new Context().",
    "C13": "Methods store nothing on the instance besides source and cache; the infinite tag is only set on unbounded generators.",
    "C18": "Emitted text is also compared token-wise with the plain payload's (a literal closed early shows as extra tokens even when the remainder does not parse).",
}
ADDENDA4B = {
    "C03": "Token kinds are distinct enum values; the lexer is stateless (probes repeated in another order) and no pipeline function has a mutable default argument.",
    "C06": "Calls between transpile functions pass dict_compress on.",
    "C07": "Each operator's table entry pushes exactly its function applied to the two popped operands; operands are not rebound before the number arm.",
    "C08": "Documented-vectorising elements claim no list-kinded overload beyond the documented ones; number arms of the frozen vectorising functions recognise every number class.",
    "C14": "next() is applied to iter(...) results, not to the list itself; templates and pop/wrapify do not consume popped values; x[-n:] needs n known positive.",
    "C15": "Compressed literals are emitted identically with dictionary compression on and off; the to_base model re-runs small bases after the sweep.",
    "C20": "The code page agrees position by position with its copies in static/main.js and documents/knowledge/yaml_to_js.py.",
}
# rules added in the fifth round (buggy feature additions)
ADDENDA5 = {
    "C08": "A documented-vectorising function decides nothing from its operands before the kind dispatch (no early return on emptiness or equality of the operands), with a reviewed table of the existing shortcuts.",
    "C10": "What is stored as the global array (appended to / popped in place by other elements) is a fresh list, never the popped value itself.",
    "C12": "A generator does not yield while bookkeeping entries it pushed are registered; a handler that swallows every exception around code that can run a Vyxal function and carries on must be able to cut all four lists back.",
    "C14": "Any function outside the catalogue that hands a nested generator back as a LazyList must not run the same generator to the end on a path where the iterated argument can still be a lazy list.",
    "C18": "Every structure class carrying an arity from a constructor parameter is constructed with an int, 'default' or None; transpile / transpile_ast / transpile_single add nothing to the code but producer results, constants and joins of them.",
    "C19": "The input-handling statements of execute_vyxal outside every try apply only operations that cannot raise on strings (known finding: the f flag opens the first input line as a host file there).",
}
ADDENDA5B = {
    "C03": "Multi-character texts the lexer itself mentions (string constants, one sample match of every regular expression) are payload like any other inside each literal kind.",
    "C04": "Literal forms with an opener (also a digraph head plus one character) and a different closer are discovered by probing and fall under the closer-optional law; the closed-vs-truncated sweep also runs programs built around the multi-character constants of lexer and parser and around every digraph head followed by an opener.",
    "C05": "The NUMBER arm is interpreted on every real literal over {0, 7, .} up to four characters (and long ones): the string constant it emits, read as a decimal, equals the literal; program text handed to an inexact constructor anywhere else in the transpiler is reported too; a NUMBER token is a contiguous piece of the program text (probed around the lexer's own multi-character constants and regex samples).",
    "C06": "The round-trip alphabet includes every character the lexer and the STRING arm of the transpiler mention in short constants.",
    "C07": "In the (num, num) arm of every other element function `//`, divmod and `/` between two unlifted operands are reported; vyxalify(a / b) needs a lifted operand.",
    "C15": "int(a / b) with both operands Python ints (rebound from int(...)) is a float quotient; an index computed as a difference and guarded only from above wraps around when negative.",
}
# rules added in the sixth round (optimisation-style changes)
ADDENDA6 = {
    "C03": "Every switch parameter of tokenise is a lexer mode of its own: its literal forms, block comments included, are discovered by probing and held to the payload law. The lexer has no memory (every probe alone in a fresh copy of the module gives what it gave in the shared one) and lexes left to right (a finished token does not depend on the text after it).",
    "C08": "A test that only compares the kinds of two operands with each other names no kind and is no scalar guard for a shortcut before the dispatch.",
    "C09": "helpers.pop and helpers.wrapify are interpreted as transition systems on every small stack, every count from 0 and both values of the two flags: exactly the top count entries go, the prefix below stays.",
    "C11": "The explicit read's template is interpreted on the abstract states of the model (program scope value, that cursor only, flag left down); the scope-push rule instantiates every parameter shape of lambdas and named functions.",
    "C14": "A look-up of the list in itself at bound-k inside __getitem__ needs a path condition that makes bound at least k (position -1 is the forcing arm).",
    "C20": "A key is reachable in every program of a process: the lexer has no memory (same law as C03).",
}
for _k, _v in ADDENDA6.items():
    ADDENDA5B[_k] = (ADDENDA5B.get(_k, "") + " " + _v).strip()
for _k, _v in ADDENDA5B.items():
    ADDENDA5[_k] = (ADDENDA5.get(_k, "") + " " + _v).strip()
for _k, _v in ADDENDA5.items():
    ADDENDA4B[_k] = (ADDENDA4B.get(_k, "") + " " + _v).strip()
for _k, _v in ADDENDA4B.items():
    ADDENDA4[_k] = (ADDENDA4.get(_k, "") + " " + _v).strip()
for _k, _v in ADDENDA4.items():
    ADDENDA[_k] = (ADDENDA.get(_k, "") + " " + _v).strip()
for _k, _v in ADDENDA.items():
    CHECKS[_k]["text"] += " " + _v

NOT_APPLICABLE = {
    "C01": "equality of transpiled behaviour with the documented reference "
           "semantics for all programs x inputs relates two evaluators' "
           "runtime values; no clause is visible in code shape beyond what "
           "C02/C09/C11/C12 already decide (DESIGN.md §5)",
    "C16": "list-builtin laws (permutation, involution, 2^n members, ...) are "
           "statements about computed values of itertools/sorted-backed code; "
           "no control- or data-flow shape implies them (DESIGN.md §5)",
    "C17": "agreement of sympy-backed number theory with textbook definitions "
           "for every n is numerical; static analysis of the call sites cannot "
           "bound sympy's results (DESIGN.md §5)",
}

PENDING = "check not built yet in this round (planned, see DESIGN.md §9); " \
          "not claimed until it exists"

ALL = [f"C{i:02d}" for i in range(1, 21)]


def main():
    checks = []
    for pid in ALL:
        if pid not in CHECKS:
            continue
        c = CHECKS[pid]
        checks.append({
            "property_id": pid,
            "quick_cmd": f"./check {pid} quick",
            "thorough_cmd": f"./check {pid} thorough",
            "evidence_file": f"evidence/{pid}.json",
            "replay_cmd_template": f"./check {pid} --replay {{path}}",
            "engine": "vystatic",
            "technique": c["technique"],
            "level_claimed": {"category": c["category"], "text": c["text"],
                              "design_ref": c["ref"]},
            "level_note": c.get("note", NOTE_COMMON),
        })
    na = []
    for pid in ALL:
        if pid in CHECKS:
            continue
        na.append({"property_id": pid,
                   "reason": NOT_APPLICABLE.get(pid, PENDING)})
    manifest = {
        "version": 1,
        "setup_cmd": "/venv/bin/python -m compileall -q vystatic",
        "hooks": {
            "guard": "VYXAL2_VERIF",
            "enable": "none needed: static analysis reads the sources of "
                      "/repo; no hook is compiled in",
            "baseline_off_cmd": "cd /repo && /venv/bin/python -m pytest -ra -q "
                                "-p no:cacheprovider --timeout=900 "
                                "--continue-on-collection-errors",
            "source_commits": [],
            "add_only": True,
        },
        "engines": [{
            "name": "vystatic",
            "path": "vystatic/",
            "serves_properties": sorted(CHECKS),
            "kind_free_text": "custom static analyser over the python ast of "
                              "/repo: constant folding, template extraction "
                              "by partial evaluation of the code generator, "
                              "grammar-closure compile witnesses, stack-height "
                              "CFG analysis, kind/taint/effect analyses",
        }],
        "checks": checks,
        "not_applicable": na,
        "notes": "All checks are static: they parse /repo's working tree on "
                 "every run and never import or execute it. Known findings "
                 "live in known_findings.json.",
    }
    with open(os.path.join(HERE, "MANIFEST.json"), "w", encoding="utf-8") as fh:
        json.dump(manifest, fh, ensure_ascii=False, indent=1)
    print("MANIFEST.json:", len(checks), "checks,", len(na), "not applicable")


if __name__ == "__main__":
    main()
