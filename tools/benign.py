#!/usr/bin/env python3
"""Run every registered quick check on /repo with a behaviour-preserving patch
applied (a refactoring produced by an independent sub-agent); any exit status
other than 0 is a false alarm (1) or a broken analysis (2) of OUR machinery.

usage: tools/benign.py <src-dir> <id>     (src-dir holds patch.diff, meta.json)
Files the patch under /verif/benign/<id>/ with the verdicts."""
import json
import os
import shutil
import subprocess
import sys

VERIF = os.path.dirname(os.path.dirname(os.path.abspath(__file__)))


def sh(cmd, cwd=None, env=None, timeout=1800):
    e = dict(os.environ)
    if env:
        e.update(env)
    p = subprocess.run(cmd, shell=True, cwd=cwd, env=e, capture_output=True,
                       text=True, timeout=timeout)
    return p.returncode, p.stdout + p.stderr


def main():
    src, bid = sys.argv[1], sys.argv[2]
    man = json.load(open(os.path.join(VERIF, "MANIFEST.json")))
    checks = [c["property_id"] for c in man["checks"]]
    rc, out = sh("git -C /repo status --porcelain")
    assert out.strip() == "", "/repo not clean"
    patch = os.path.join(src, "patch.diff")
    rc, out = sh(f"git -C /repo apply {patch}")
    if rc != 0:
        print("patch does not apply:", out[-300:])
        return 1
    verdicts = {}
    try:
        for pid in checks:
            rc, out = sh(f"./check {pid} quick", cwd=VERIF,
                         env={"VERIF_NOEVIDENCE": "1"}, timeout=900)
            if rc != 0:
                verdicts[pid] = {"exit": rc, "lines": [
                    ln[:400] for ln in out.splitlines()
                    if ln.startswith(("finding", "ANALYSIS"))][:6]}
    finally:
        sh("git -C /repo checkout -- .")
        sh("rm -rf /tmp/verif-scratch-evidence-*")
    meta = {}
    mp = os.path.join(src, "meta.json")
    if os.path.exists(mp):
        meta = json.load(open(mp))
    print(bid, "->", "SILENT" if not verdicts else "ALARMS")
    for k, v in verdicts.items():
        print(f"  {k} exit {v['exit']}")
        for ln in v["lines"]:
            print("     ", ln)
    dst = os.path.join(VERIF, "benign", bid)
    os.makedirs(dst, exist_ok=True)
    shutil.copy(patch, dst)
    meta["alarms_when_filed"] = verdicts
    with open(os.path.join(dst, "meta.json"), "w", encoding="utf-8") as fh:
        json.dump(meta, fh, ensure_ascii=False, indent=1)
    return 0


if __name__ == "__main__":
    sys.exit(main())
