#!/usr/bin/env python3
"""Re-evaluate filed seeds against the current checks, in scratch worktrees
(never touches /repo's working tree): updates detection / caught_by in
/verif/seeded/<id>/meta.json.

usage: tools/refresh_seed.py [-j N] <seed-id> ..."""
import json
import os
import subprocess
import sys
from concurrent.futures import ThreadPoolExecutor

VERIF = os.path.dirname(os.path.dirname(os.path.abspath(__file__)))


def sh(cmd, env=None):
    e = dict(os.environ)
    if env:
        e.update(env)
    p = subprocess.run(cmd, shell=True, cwd=VERIF, env=e,
                       capture_output=True, text=True)
    return p.returncode, p.stdout + p.stderr


def one(sid):
    wt = f"/tmp/rf-{sid}"
    sh(f"git -C /repo worktree remove --force {wt}")
    rc, out = sh(f"git -C /repo worktree add -q --detach {wt} HEAD")
    if rc:
        return sid, {"error": out[-200:]}
    try:
        rc, out = sh(f"git -C {wt} apply {VERIF}/seeded/{sid}/patch.diff")
        if rc:
            return sid, {"error": "patch does not apply: " + out[-200:]}
        man = json.load(open(os.path.join(VERIF, "MANIFEST.json")))
        det = {}
        for c in man["checks"]:
            pid = c["property_id"]
            rc, out = sh(f"./check {pid} quick",
                         {"VERIF_REPO": wt, "VERIF_NOEVIDENCE": "1"})
            if rc:
                det[pid] = {"exit": rc, "findings": [
                    l[:300] for l in out.splitlines()
                    if l.startswith(("finding:", "ANALYSIS-ERROR"))][:6]}
        mp = os.path.join(VERIF, "seeded", sid, "meta.json")
        meta = json.load(open(mp))
        meta["detection"] = det
        meta["caught_by"] = sorted(k for k, v in det.items()
                                   if v["exit"] == 1)
        meta["analysis_errors"] = sorted(k for k, v in det.items()
                                         if v["exit"] == 2)
        json.dump(meta, open(mp, "w", encoding="utf-8"), ensure_ascii=False,
                  indent=1)
        return sid, {"caught_by": meta["caught_by"],
                     "exit2": meta["analysis_errors"]}
    finally:
        sh(f"git -C /repo worktree remove --force {wt}")
        sh("rm -rf /tmp/verif-scratch-evidence-*")


def main():
    args = sys.argv[1:]
    j = 6
    if args and args[0] == "-j":
        j = int(args[1])
        args = args[2:]
    with ThreadPoolExecutor(j) as ex:
        for sid, res in ex.map(one, args):
            print(sid, json.dumps(res, ensure_ascii=False))


if __name__ == "__main__":
    main()
