#!/usr/bin/env python3
"""Confirm and file a seeded change.

usage: tools/seed.py <src-dir> <seed-id> [--checks C02,C12] [--skip-tests]

<src-dir> holds patch.diff, demo.py, meta.json written by a sub-agent.
Steps (everything in a scratch worktree under /tmp, removed afterwards):
  1. clean worktree of /repo HEAD: demo must PASS (exit 0)
  2. apply patch: demo must FAIL (exit != 0); pinned test suite must pass
  3. apply the patch to /repo itself, run the registered quick checks
     (VERIF_NOEVIDENCE=1), undo with git checkout
  4. write /verif/seeded/<seed-id>/{patch.diff,demo.py,meta.json}
"""
import json
import os
import shutil
import subprocess
import sys

VERIF = os.path.dirname(os.path.dirname(os.path.abspath(__file__)))
PY = "/venv/bin/python"


def sh(cmd, cwd=None, env=None, timeout=1800):
    e = dict(os.environ)
    if env:
        e.update(env)
    p = subprocess.run(cmd, shell=True, cwd=cwd, env=e, capture_output=True,
                       text=True, timeout=timeout)
    return p.returncode, (p.stdout + p.stderr)


def main():
    src, sid = sys.argv[1], sys.argv[2]
    checks = None
    skip_tests = "--skip-tests" in sys.argv
    scratch = "--scratch" in sys.argv  # run the checks on the scratch worktree
    if "--checks" in sys.argv:
        checks = sys.argv[sys.argv.index("--checks") + 1].split(",")
    meta = json.load(open(os.path.join(src, "meta.json")))
    prop = meta.get("property")
    if checks is None:
        man = json.load(open(os.path.join(VERIF, "MANIFEST.json")))
        checks = [c["property_id"] for c in man["checks"]]
    wt = f"/tmp/seedwt-{sid}"
    sh(f"git -C /repo worktree remove --force {wt}")
    rc, out = sh(f"git -C /repo worktree add -q --detach {wt} HEAD")
    assert rc == 0, out
    result = {"seed": sid, "property": prop}
    try:
        demo = os.path.join(src, "demo.py")
        env = {"PYTHONPATH": wt}
        rc0, out0 = sh(f"{PY} {demo}", cwd=wt, env=env, timeout=600)
        result["demo_clean_exit"] = rc0
        rc, out = sh(f"git -C {wt} apply {os.path.join(src, 'patch.diff')}")
        if rc != 0:
            result["error"] = "patch does not apply to HEAD: " + out[-300:]
            print(json.dumps(result, indent=1, ensure_ascii=False))
            return 1
        rc1, out1 = sh(f"{PY} {demo}", cwd=wt, env=env, timeout=600)
        result["demo_patched_exit"] = rc1
        if not skip_tests:
            rct, outt = sh(f"{PY} -m pytest -q -p no:cacheprovider -n 6 "
                           "2>&1 | tail -3", cwd=wt, timeout=1800)
            result["tests"] = outt.strip().splitlines()[-1] if outt.strip() \
                else ""
            result["tests_pass"] = " passed" in outt and "failed" not in outt \
                and "error" not in outt.lower().replace("errors=0", "")
        else:
            result["tests"] = "skipped"
            result["tests_pass"] = None
        detected = {}
        if scratch:
            from concurrent.futures import ThreadPoolExecutor

            def run(pid):
                rc, out = sh(f"./check {pid} quick", cwd=VERIF,
                             env={"VERIF_NOEVIDENCE": "1", "VERIF_REPO": wt},
                             timeout=900)
                viol = [l for l in out.splitlines()
                        if l.startswith("finding:")]
                return pid, {"exit": rc,
                             "findings": [v[:300] for v in viol[:6]]}
            with ThreadPoolExecutor(4) as ex:
                for pid, d in ex.map(run, checks):
                    detected[pid] = d
    finally:
        sh(f"git -C /repo worktree remove --force {wt}")
        shutil.rmtree(wt, ignore_errors=True)
    if not scratch:
        # detection on /repo itself
        rc, out = sh("git -C /repo status --porcelain")
        assert out.strip() == "", "/repo is not clean: " + out
        rc, out = sh(f"git -C /repo apply {os.path.join(src, 'patch.diff')}")
        assert rc == 0, out
        try:
            for pid in checks:
                rc, out = sh(f"./check {pid} quick", cwd=VERIF,
                             env={"VERIF_NOEVIDENCE": "1"}, timeout=900)
                viol = [l for l in out.splitlines()
                        if l.startswith("finding:")]
                detected[pid] = {"exit": rc,
                                 "findings": [v[:300] for v in viol[:6]]}
        finally:
            sh("git -C /repo checkout -- .")
            sh("rm -rf /tmp/verif-scratch-evidence-*")
    result["checks"] = {k: v["exit"] for k, v in detected.items()}
    result["caught_by"] = [k for k, v in detected.items() if v["exit"] == 1]
    result["analysis_errors"] = [k for k, v in detected.items()
                                 if v["exit"] == 2]
    valid = result.get("demo_clean_exit") == 0 and \
        result.get("demo_patched_exit") not in (0, None) and \
        result.get("tests_pass") in (True, None)
    result["valid_seed"] = bool(valid)
    print(json.dumps(result, indent=1, ensure_ascii=False))
    for k, v in detected.items():
        for f in v["findings"]:
            print(f"  [{k}] {f}")
    if valid:
        dst = os.path.join(VERIF, "seeded", sid)
        os.makedirs(dst, exist_ok=True)
        shutil.copy(os.path.join(src, "patch.diff"), dst)
        shutil.copy(os.path.join(src, "demo.py"), dst)
        for extra in os.listdir(src):  # helper modules the demo imports
            if extra.endswith(".py") and extra != "demo.py":
                shutil.copy(os.path.join(src, extra), dst)
        meta_out = dict(meta)
        if skip_tests and os.path.exists(os.path.join(dst, "meta.json")):
            # keep the suite result recorded when the seed was first filed
            try:
                prev = json.load(open(os.path.join(dst, "meta.json")))
                result["tests"] = prev.get("confirmed", {}).get(
                    "pinned_test_suite_with_patch", result["tests"])
            except (OSError, ValueError):
                pass
        meta_out.update({
            "breaks_property": prop,
            "confirmed": {
                "demo_exit_on_clean_tree": result["demo_clean_exit"],
                "demo_exit_with_patch": result["demo_patched_exit"],
                "pinned_test_suite_with_patch": result["tests"],
            },
            "ran": [f"{PY} demo.py (PYTHONPATH=<worktree>) before/after "
                    "git apply patch.diff in a scratch worktree",
                    f"{PY} -m pytest -q -p no:cacheprovider -n 8 (with patch)",
                    ("VERIF_REPO=<scratch worktree of /repo HEAD with "
                     "patch.diff applied> ./check <ID> quick for every "
                     "registered check" if scratch else
                     "git -C /repo apply patch.diff; ./check <ID> quick for "
                     "every registered check; git -C /repo checkout -- .")],
            "detection": {k: {"exit": v["exit"], "findings": v["findings"]}
                          for k, v in detected.items() if v["exit"] != 0},
            "caught_by": result["caught_by"],
        })
        with open(os.path.join(dst, "meta.json"), "w", encoding="utf-8") as fh:
            json.dump(meta_out, fh, ensure_ascii=False, indent=1)
    return 0


if __name__ == "__main__":
    sys.exit(main())
